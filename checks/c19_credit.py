"""C19 - credit closed forms equal the default-region jump rate of the benchmarked chain.

Mode: lattice sweep (complete products, nothing sampled). Sub-checks ("sub" of a case):

 one-dim     one case per (1-d model spec, h).  Inside, the complete product
             thresholds a = f*l, f in {0.4, 0.5, 0.6} (l = left truncation of the credit grid)  x  symmetric flag {T, F}
             x recovery {0, 0.4} x maturity {1, 5} x spread {50, 300 bp} x h0 {h, 1e-6}.
             Model specs: mc.alphabets.model_specs plus "reinit" twins (same parameter values reached as the calibration
             helpers do: parameter object re-assigned, initialisation(), constructor): quick = first parameter set of each
             family, Levy and exponential; thorough = every spec.
 cf-copula   one case per (copula model spec, Levy / exponential margins, h): the closed forms on ALL threshold tuples
             (3^d), monotonicity along the threshold alphabet, the survival / spread / implied-spread maps, the CDS legs.
             Plus, per margin tuple, the model whose margins are all built by the reinit route (first copula).
 chain-copula one case per (copula model spec, h, threshold tuple, symmetric flag): the real MarkovChainLevyCopula on the
             real CTMCCredit grid (INVERSION on the symmetric grid, BINARYSEARCHTREEADAPTED on the asymmetric one, as
             scripts/benchmark/first_to_default.py does), the default-time underlyings on scripted jump paths.
             Quick: exponential margins, plus (first copula, unequal threshold tuple) plain Levy margins and reinit margins.

Oracles
 (i)   box rate.  Sum over the chain states with at least one coordinate below its threshold of the state's jump rate
       (three notions of "rate of a state", each compared on its own: model.mass of the state's cell with the cell taken
       from grid.middle()/left_point()/right_point() exactly as samplingfactory does; create_q_vector (1-d); the sampler's
       own probability_to_jump_to_state * intensity_of_jumps / _compute_probability * intensity_of_jumps)
         = default intensity restricted to the truncation box:
       1-d:   CFLevyModel(model truncated to the grid's truncation)._theta(a), which must itself be nu([l, a]) (the
              margin's integrate, and quadrature of the margin's own density);
       d>=2:  inclusion-exclusion over I of the mass of {l_i <= x_i < a_i, i in I} x {l_j <= x_j <= r_j, j not in I} computed
              from the JOINT, untruncated measure with mc.oracle.ref_rectangle_mass (truncating the margins and re-applying
              the copula is a different measure and deliberately not the oracle: see "not judged" below).
       Pre-condition stated by the property, checked under its own key: the threshold is the grid's middle() of the two
       states around it.
 (ii)  un-restricted closed form.  CFLevyModel._theta(a) = nu((-inf, a]) (quadrature of the density, and nu.integrate);
       CFLevyCopulaModel._theta(a) = inclusion-exclusion over I of the mass of {x_i < a_i, i in I}, from
       model._mass_nd with -inf lower ends (free coordinates over (-inf, inf)) and, independently, from ref_rectangle_mass;
       theta - theta_box >= 0 (mass of the default region outside the box).
 (iii) theta is non-decreasing in each threshold along the alphabet (strictness is recorded, not demanded).
 (iv)  survival_probability = exp(-theta t); cds_spread / first_to_default_par_spread = (1-R) theta;
       implied_cds_threshold(cds_spread(a)) = a; cds_spread(implied_cds_threshold(s)) brackets s within 1e-10 in the
       threshold; implied_cds_spread(pv(s)) = s with pv(s) = (1-R) theta/(r+theta) (1-e^{-(r+theta)T}) - s (1-e^{-(r+theta)T})/(r+theta).
 (v)   CDS.evaluate(tau) * df(T) = (1-R) e^{-r tau} 1{tau <= T} - s (1 - e^{-r min(T, tau)})/r on scripted default times (also
       through Product.__call__ = notional * payoff, the engine's route), and its expectation under tau ~ Exp(theta)
       (deterministic quadrature of the real evaluate) = the closed-form pv, which implied_cds_spread maps back to s.
       DefaultTime / NthDefaultTimes / DefaultTimeNthUnderlying on scripted jump paths made of the chain's own states
       (no jump at all; one and two jumps; three in the thorough 1-d tier) = time of the first jump strictly below the
       threshold (n-th smallest for the n-th default): this is what makes "state below its threshold" the chain's default
       region.

Histories (the objects of (i)-(v) are also judged AFTER public operations on them; R, s, theta of the oracle are those the
object carries / the model it holds at the time of the call; the violation key ends in ":after=<op>+<op>"):
 payoff      ONE CDS object, priced before each operation; every sequence of <= 2 operations of
             PAYOFF_OPS = spread re-assigned | recovery_rate re-assigned | a second CDS with other values built and used in
             between | deepcopy | update(LOG) + process(times, path) (the hooks Product calls): pointwise (v) after each
             history; the expectation / implied-spread part after the histories that change spread and / or recovery.
 pricer      ONE CFLevyModel / CFLevyCopulaModel, used at every threshold before each operation; every sequence of <= 2 of
             PRICER_OPS = public attribute `model` / `levy_copula_model` re-assigned to a second model (1-d: same family,
             donor parameters; copula: margins in reversed order) | a second pricer on the other model used in between |
             deepcopy | all public methods called: theta, survival probability and par spread must be those of the model held
             now (reference: nu.integrate, checked against quadrature by (ii) / ref_rectangle_mass).
 chain       ONE chain on ONE credit grid with the shared model object, rates read before each operation; CHAIN_OPS = a second
             chain built on the same grid object | initialisation(product) (CDS on the (first-to-)default time, what
             Engine.price does) | deepcopy | reset_one_simulation_cost + reset_sampling_cost | a chain for another threshold
             built in between | the sampler draws 16 states (global numpy generator seeded and restored around the draw; the
             drawn values are not observed). 1-d: every sequence of <= 2 operations on fresh objects at the first threshold
             of the symmetric flag, every single operation elsewhere; d >= 2: one cumulative history (the operations in
             menu order, (i) re-judged after each) on the unequal threshold tuple (0.6, 0.5[, 0.4]) of every model / h / flag.
 underlying  each default-time class through: _value_log; value; value after update(LOG); value after update(LOG) then
             update(IDENDITY); value of the deepcopy of an updated object; Product.underlying_value (keywords), fresh and
             after Product.update(LOG) on a deepcopy (d >= 2: the last five on the paths of full corner jumps only). A second
             object of the class with other thresholds (1-d: between a+eps and -h; d >= 2: the reversed tuple) is evaluated in
             between on every path and judged against its own thresholds.

Outside the alphabet (statement silent), counted and never an alarm:
 * thresholds not strictly inside (l, -h): the credit axis l, a-eps, a+eps, -h is not increasing there (VG default, h = 0.1,
   f <= 0.5); same exclusion as C13;
 * spreads that no threshold in [-10, -h0] attains (finite-activity models with a small negative mass);
 * default time exactly equal to the maturity (a null event of the closed form), default time 0;
 * implied_cds_spread and the CDS legs for models without an interest rate (plain Levy models): the closed form reads model.r;
 * jumps within 1e-9 of a threshold in the scripted paths (log/exp round trip of DefaultTime.value);
 * grid.refine() on a credit grid (the threshold becomes a state: the statement's pre-condition "threshold on a cell
   boundary" is gone); private attributes of the payoff (_T, _df) re-assigned;
 * a model mutated IN PLACE while a pricer / copula model holds it (model.truncate_levy_measure after the pricer was built).
   Not judged: LevyCopulaModel.truncate_levy_measure truncates the margins' own measures but leaves the tail integrals the
   joint mass is built from (`_marginal_levy_measure`) untruncated. For the chain this is what makes (i) hold: its rates are
   the JOINT measure's mass of each cell of the box (agreement 1e-17 with ref_rectangle_mass), whereas the copula re-applied
   to truncated margins changes every cell (8e-4 relative in a 2-d HEM example). The by-product is that
   CFLevyCopulaModel(chain.model)._theta mixes truncated singles with untruncated pair terms (7e-4 above the chain's default
   rate); no library route evaluates a closed form on the chain's internal model, and the statement's "model restricted to
   the grid's truncation" is the restricted joint measure, so neither value is demanded of it.
"""
from __future__ import annotations

import contextlib
import copy
import itertools
import math
import os

import numpy as np

from mc import alphabets as A
from mc import core
from mc import oracle as O

PID = "C19"
LEVEL = "exploration"
RULE = (
    "complete product of (model spec incl. reinit twins x spatial step) and, inside each, of thresholds {0.4,0.5,0.6}*l (all "
    "tuples in d=2,3) x symmetric/asymmetric credit grid x recovery {0,0.4} x maturity {1,5} x spread {50,300bp}; every "
    "sequence of <= 2 operations of the payoff / pricer / 1-d chain menus and one cumulative history of the copula chain menu "
    "on re-used objects; a case is non-trivial when at least one chain default-rate sum or closed-form intensity was compared "
    "with its reference; distinct = distinct case dict"
)
ASSUMPTIONS = [
    "the pathos pool that MarkovChainLevyCopula's constructor uses for the small-jump diffusion matrix of infinite-variation "
    "models (vol_adjustment_ij: 1 s in 2-d, > 200 s in 3-d, not observed by this property) is replaced by a stand-in whose "
    "results are 0.0; rates, intensity, model and sampler of the chain are the real ones",
    "reference rectangle mass shares the copula function and the margins' integrate with the library (checked in C09/C11); "
    "in one dimension the reference is quadrature of the margin's own density",
    "thresholds are fractions of the grid's left truncation; h in {0.1, 0.05}; dimension <= 3",
    "histories: at most two operations per object (copula chain: the six operations of the menu once each, in menu order); the "
    "sampler's draw inside a chain history uses numpy's global generator, seeded before and restored after the draw",
]
CHUNK = 8

FRACS = [0.4, 0.5, 0.6]
HS = [0.1, 0.05]
RECOVERIES = [0.0, 0.4]
MATURITIES = [1.0, 5.0]
SPREADS = [0.005, 0.03]
INF = math.inf
RTOL = 1e-9
RTOL_Q = 1e-8


# ----------------------------------------------------------------------------------------------------------------------
# alphabet
# ----------------------------------------------------------------------------------------------------------------------

def _copula_model_specs(tier):
    thorough = tier == "thorough"
    pairs = [("hem", "hem2"), ("cgmy05", "cgmy12"), ("hem", "vg")]
    triples = [("hem", "hem2", "cgmy05"), ("cgmy05", "cgmy12", "hem2")]
    if thorough:
        pairs += [("vg", "cgmy12"), ("merton", "cgmy05")]
        triples += [("hem", "vg", "cgmy05")]
    out = []
    for c in A.copula_specs(tier):
        for m in pairs:
            out.append({"margins": list(m), "copula": c})
    for c in A.copula_specs(tier):
        for m in triples:
            out.append({"margins": list(m), "copula": c})
    return out


def _warm():
    """import the library once in the parent so that the forked workers do not each pay the 4 s import"""
    import rpylib.distribution.samplingfactory  # noqa: F401
    import rpylib.grid.spatial  # noqa: F401
    import rpylib.numerical.closedform.cflevycopula  # noqa: F401
    import rpylib.numerical.closedform.cflevymodel  # noqa: F401
    import rpylib.process.markovchain.markovchain  # noqa: F401
    import rpylib.process.markovchain.markovchainlevycopula  # noqa: F401
    import rpylib.product.payoff  # noqa: F401
    import rpylib.product.underlying  # noqa: F401
    import scipy.integrate  # noqa: F401


def cases(tier):
    _warm()
    thorough = tier == "thorough"
    out = []
    specs = A.model_specs(tier, families=("hem", "merton", "vg", "cgmy"))
    for ms in specs:
        for h in HS:
            out.append({"sub": "one-dim", "model": ms, "h": h})
    cms = _copula_model_specs(tier)
    for exp in (True, False):
        for cm in cms:
            for h in HS:
                out.append({"sub": "cf-copula", "model": dict(cm, exp=exp), "h": h})
    exps = (True, False) if thorough else (True,)
    for d in (2, 3):
        for exp in exps:
            for cm in cms:
                if len(cm["margins"]) != d:
                    continue
                for h in HS:
                    for fr in itertools.product(FRACS, repeat=d):
                        for sym in (True, False):
                            out.append({"sub": "chain-copula", "model": dict(cm, exp=exp), "h": h, "fracs": list(fr),
                                        "symmetric": sym})
    # ------------------------------------------------------------------ other construction routes / kinds of the same models, last
    # construction route "reinit" (parameter object re-assigned, initialisation(), constructor): quick = the first parameter set
    # of each family, Levy and exponential; thorough = every spec
    seen = set()
    for ms in A.with_reinit(specs):
        if ms.get("via") != "reinit":
            continue
        if not thorough:
            if (ms["family"], ms["exp"]) in seen:
                continue
            seen.add((ms["family"], ms["exp"]))
        for h in HS:
            out.append({"sub": "one-dim", "model": ms, "h": h})
    # copula models whose margins are all built by the reinit route: every margin tuple with the first copula
    twins = [dict(cm, via="reinit") for cm in cms if cm["copula"] == cms[0]["copula"]]
    for exp in (True, False):
        for cm in twins:
            for h in (HS if thorough else HS[:1]):
                out.append({"sub": "cf-copula", "model": dict(cm, exp=exp), "h": h})
    for cm in twins:
        for h in (HS if thorough else HS[:1]):
            for sym in (True, False):
                out.append({"sub": "chain-copula", "model": dict(cm, exp=True), "h": h, "fracs": FRACS[::-1][:len(cm["margins"])],
                            "symmetric": sym})
    if not thorough:  # plain Levy margins (the thorough tier has the full product): first copula, the unequal threshold tuple
        for cm in cms:
            if cm["copula"] != cms[0]["copula"]:
                continue
            for h in HS:
                for sym in (True, False):
                    out.append({"sub": "chain-copula", "model": dict(cm, exp=False), "h": h, "fracs": FRACS[::-1][:len(cm["margins"])],
                                "symmetric": sym})
    return out


# ----------------------------------------------------------------------------------------------------------------------
# labels
# ----------------------------------------------------------------------------------------------------------------------

def _mclass(spec):
    fam = spec["family"]
    p = spec["params"]
    if fam == "cgmy":
        s = f"cgmy:y={p['y']:g}"
        if p["g"] == p["m"]:
            s += ":g=m"
    else:
        s = fam + (":alt" if p else ":default")
    return ("exp-" if spec.get("exp") else "") + s + ("[reinit]" if spec.get("via") == "reinit" else "")


def _cop_label(c):
    if c["kind"] == "clayton":
        return f"clayton({c['theta']:g},{c['eta']:g})"
    return c["kind"]


def _cclass(spec):
    return (f"d={len(spec['margins'])}:{'exp-' if spec.get('exp') else ''}{'+'.join(spec['margins'])}"
            f"{'[reinit]' if spec.get('via') == 'reinit' else ''}:{_cop_label(spec['copula'])}")


def _activity_class(nu):
    try:
        if nu.jump_of_finite_activity():
            return "finite-activity"
        if nu.jump_of_finite_variation():
            return "infinite-activity-finite-variation"
        return "infinite-variation"
    except Exception:
        return "activity-unknown"


def _make_copula_model(spec, reverse=False):
    """mc.alphabets.make_copula_model, plus: `via: "reinit"` builds every margin by the calibration helpers' route
    (mc.alphabets.make_model), `reverse` lists the margins in the opposite order (a second model of the class)"""
    from rpylib.model.utils import create_levy_copula_model

    models = []
    names = list(spec["margins"])[::-1] if reverse else list(spec["margins"])
    for name in names:
        ms = dict(A.MARGINS[name])
        if spec.get("exp"):
            ms = dict(ms, exp=True, r=0.02, d=0.0, spot=100.0)
        if spec.get("via") == "reinit":
            ms = dict(ms, via="reinit")
        models.append(A.make_model(ms))
    return create_levy_copula_model(models=models, copula=A.make_copula(spec["copula"]))


def _other_model_spec(spec):
    """a second model of the same family and kind with other parameter values everywhere (the donor set of mc.alphabets)"""
    out = {k: v for k, v in spec.items() if k != "via"}
    out["params"] = dict(A.DONOR_PARAMS[spec["family"]])
    return out


class _Obs(list):
    """library-observed floats of one execution, for the determinism self-check"""

    def add(self, *xs):
        for x in xs:
            try:
                self.append(float(x).hex())
            except Exception:
                self.append(repr(x))


def _ulps(*xs):
    """slack of an inequality between independently computed sums of a few terms of that magnitude"""
    return 64 * np.finfo(float).eps * max(abs(float(x)) for x in xs)


# ----------------------------------------------------------------------------------------------------------------------
# stand-in for the pathos pool of the copula chain's constructor (see ASSUMPTIONS)
# ----------------------------------------------------------------------------------------------------------------------

class _ZeroResult:
    def get(self, timeout=None):
        return 0.0


class _ZeroPool:
    def __init__(self, *a, **k):
        pass

    def __enter__(self):
        return self

    def __exit__(self, *a):
        return False

    def apply_async(self, func, args=(), kwds=None):
        return _ZeroResult()


class _ZeroMP:
    Pool = _ZeroPool


@contextlib.contextmanager
def _no_vol_adjustment_pool():
    import rpylib.process.markovchain.markovchainlevycopula as M

    old = getattr(M, "mp", None)
    M.mp = _ZeroMP
    try:
        yield
    finally:
        M.mp = old


# ----------------------------------------------------------------------------------------------------------------------
# shared pieces
# ----------------------------------------------------------------------------------------------------------------------

def _legs(theta, r, R, T):
    """the stated leg formulas (Garreau-Kercheval, continuous premium): default leg, fixed-leg annuity"""
    x = r + theta
    e = 1.0 - math.exp(-x * T)
    return (1.0 - R) * e * theta / x, e / x


def _pv_of_tau(tau, r, R, T, s):
    dl = (1.0 - R) * math.exp(-r * tau) if tau <= T else 0.0
    fl = s * (1.0 - math.exp(-r * min(T, tau))) / r
    return dl - fl


def _tau_menu(T):
    return [("before-maturity", 1e-3), ("before-maturity", 0.25 * T), ("before-maturity", 0.5 * T),
            ("before-maturity", math.nextafter(T, 0.0)), ("after-maturity", math.nextafter(T, INF)),
            ("after-maturity", 2.0 * T), ("never", INF)]


PAYOFF_OPS = ("spread", "recovery", "other-object", "deepcopy", "engine-hooks")
PAYOFF_EXPECTATION_HISTORIES = ((), ("spread",), ("recovery",), ("spread", "recovery"), ("recovery", "spread"))
NOTIONAL = 10_000.0


def _histories(ops, depth):
    """every sequence of at most `depth` operations of the menu, shortest first (the empty history is the fresh object)"""
    out = [()]
    for n in range(1, depth + 1):
        out += list(itertools.product(ops, repeat=n))
    return out


def _hist_label(hist):
    return "+".join(hist)


def _other(menu, x):
    return menu[(menu.index(x) + 1) % len(menu)]


def _payoff_points(sh, obs, cds, df, r, R, T, s, hist, a0):
    """(v) pointwise: the payoff object in its CURRENT public state (R, s) on the scripted default times, through
    CDS.evaluate and through Product.__call__ (the engine's route: notional * payoff(tau))."""
    from rpylib.product.product import Product
    from rpylib.product.underlying import DefaultTime

    after = f":after={_hist_label(hist)}" if hist else ""
    df_T = float(df(T))
    product = Product(payoff_underlying=DefaultTime(default_level=a0), payoff=cds, maturity=T, notional=NOTIONAL)
    ok = True
    for tcls, tau in _tau_menu(T):
        exp_ = _pv_of_tau(tau, r, R, T, s)
        for via in ("evaluate", "Product"):
            if via == "evaluate":
                got = float(cds.evaluate(tau)) * df_T
                key = f"C19:payoff:CDS.evaluate:ne-leg-formulas:{tcls}{after}"
            else:
                got = float(product(tau)) / NOTIONAL * df_T
                key = f"C19:payoff:Product(CDS):ne-notional-times-leg-formulas:{tcls}{after}"
            obs.add(got)
            sh.count("evaluations")
            sh.count("payoff_points")
            if not core.close(got, exp_, rtol=RTOL, atol=1e-13):
                ok = False
                sh.violation(key, f"CDS(R={R}, s={s}, T={T}, r={r}) after [{_hist_label(hist)}], {via}({tau})*df(T) = {got!r}, "
                                  f"legs formula = {exp_!r}",
                             {"R": R, "T": T, "spread": s, "tau": tau, "r": r, "got": got, "expected": exp_, "history": list(hist),
                              "via": via})
    return ok


def _payoff_expectation(sh, obs, cds, df, r, R, T, s, hist, icls, thetas, pricer_spread):
    """(v) in expectation: E[payoff(tau)] df(T), tau ~ Exp(theta), by quadrature of the real evaluate on (0, T) plus the
    no-default atom = the closed-form pv, which implied_cds_spread maps back to the spread the payoff carries NOW."""
    from scipy.integrate import quad

    after = f":after={_hist_label(hist)}" if hist else ""
    df_T = float(df(T))
    for a, theta in thetas:
        f = lambda t: float(cds.evaluate(t)) * df_T * theta * math.exp(-theta * t)
        v, e = quad(f, 0.0, T, epsabs=0.0, epsrel=1e-12, limit=200)
        v += float(cds.evaluate(INF)) * df_T * math.exp(-theta * T)
        dl, fl = _legs(theta, r, R, T)
        ref = dl - s * fl
        scale = dl + s * fl
        sh.count("evaluations")
        if e > 1e-10 * scale:
            sh.count("oracle_inconclusive")
        elif not core.close(v, ref, rtol=RTOL_Q, scale=scale):
            sh.violation(f"C19:payoff:CDS.evaluate:expectation-ne-closed-form-pv:{icls}{after}",
                         f"E[CDS payoff] under Exp(theta={theta!r}) = {v!r}, closed-form legs give {ref!r} (R={R}, s={s}, T={T}, "
                         f"history [{_hist_label(hist)}])",
                         {"a": a, "theta": theta, "R": R, "T": T, "spread": s, "quad": v, "closed_form": ref, "history": list(hist)})
        else:
            # and the pricer maps the payoff's own expectation back to the contract spread
            s_imp = float(pricer_spread(v, a, R, T))
            obs.add(s_imp)
            sh.count("evaluations")
            if not core.close(s_imp, s, rtol=1e-7, atol=1e-8):
                sh.violation(f"C19:payoff:implied_cds_spread:expected-payoff-not-mapped-to-spread:{icls}{after}",
                             f"implied_cds_spread(E[CDS payoff]) = {s_imp!r}, spread carried by the payoff {s} (history [{_hist_label(hist)}])",
                             {"a": a, "R": R, "T": T, "spread": s, "pv": v, "implied": s_imp, "history": list(hist)})


def _check_cds_payoff(sh, obs, df, r, icls, thetas, pricer_spread):
    """(v): CDS.evaluate on scripted default times, and its expectation under Exp(theta) against the closed-form legs, on a
    fresh payoff and after EVERY history of at most two operations of PAYOFF_OPS on that one payoff object (the payoff is
    priced before each operation, as a spread ladder / par-spread search on a re-used product does).
    thetas: list of (a, theta) of the library's closed form; pricer_spread(pv, a, R, T) = implied_cds_spread."""
    from rpylib.process.process import ProcessRepresentation
    from rpylib.product.payoff import CDS

    a0 = thetas[0][0]
    a0 = float(a0[0]) if isinstance(a0, (tuple, list)) else float(a0)
    for R0, T, s0 in itertools.product(RECOVERIES, MATURITIES, SPREADS):
        fresh_ok = True
        for hist in _histories(PAYOFF_OPS, 2):
            if not fresh_ok:  # a payoff that is wrong when fresh is reported once, not once per history
                sh.count("histories_skipped_fresh_object_wrong")
                continue
            R, s = R0, s0
            try:
                cds = CDS(recovery_rate=R, spread=s, maturity=T, discounting=df)
                for op in hist:
                    float(cds.evaluate(0.5 * T)), float(cds.evaluate(2.0 * T)), float(cds(INF))  # "price" before the operation
                    if op == "spread":
                        s = _other(SPREADS, s)
                        cds.spread = s
                    elif op == "recovery":
                        R = _other(RECOVERIES, R)
                        cds.recovery_rate = R
                    elif op == "other-object":  # a second payoff of the class, other values everywhere, used in between
                        oth = CDS(recovery_rate=_other(RECOVERIES, R), spread=_other(SPREADS, s), maturity=_other(MATURITIES, T),
                                  discounting=lambda t: math.exp(-2.0 * r * t))
                        float(oth.evaluate(0.5 * T)), float(oth.evaluate(INF))
                    elif op == "deepcopy":
                        cds = copy.deepcopy(cds)
                    elif op == "engine-hooks":  # what Product.update / Product.underlying_value call on the payoff
                        cds.update(ProcessRepresentation.LOG)
                        cds.process(np.array([0.0, T]), np.array([0.0, -0.1]))
                sh.cls("payoff-history-depth-" + str(len(hist)))
                ok = _payoff_points(sh, obs, cds, df, r, R, T, s, hist, a0)
                if not hist:
                    fresh_ok = ok
                if hist in PAYOFF_EXPECTATION_HISTORIES:
                    _payoff_expectation(sh, obs, cds, df, r, R, T, s, hist, icls, thetas, pricer_spread)
            except Exception as e:  # the library raising inside the alphabet
                sh.violation(f"C19:payoff:CDS:raises-{type(e).__name__}:{icls}", f"{type(e).__name__}: {e} (history [{_hist_label(hist)}])",
                             {"R": R, "T": T, "spread": s, "history": list(hist)})


def _check_formulas(sh, obs, comp, icls, pricer, a, theta, r, is_copula):
    """(iv) for one threshold (vector) a with the library's theta."""
    a_arg = list(a) if is_copula else a
    for t in MATURITIES:
        sp = float(pricer.survival_probability(a_arg, t))
        obs.add(sp)
        sh.count("evaluations")
        if not core.close(sp, math.exp(-theta * t), rtol=RTOL):
            sh.violation(f"C19:formula:{comp}.survival_probability:ne-exp(-theta*t):{icls}",
                         f"survival_probability({a_arg}, {t}) = {sp!r}, exp(-theta t) = {math.exp(-theta * t)!r}",
                         {"a": a_arg, "t": t, "theta": theta, "got": sp})
    for R in RECOVERIES:
        if is_copula:
            name = "first_to_default_par_spread"
            s0 = float(pricer.first_to_default_par_spread(levels_a=a_arg, recovery_rate=R))
        else:
            name = "cds_spread"
            s0 = float(pricer.cds_spread(level_a=a_arg, recovery_rate=R))
        obs.add(s0)
        sh.count("evaluations")
        if not core.close(s0, (1.0 - R) * theta, rtol=RTOL):
            sh.violation(f"C19:formula:{comp}.{name}:ne-(1-R)theta:{icls}",
                         f"{name}({a_arg}, R={R}) = {s0!r}, (1-R) theta = {(1.0 - R) * theta!r}",
                         {"a": a_arg, "R": R, "theta": theta, "got": s0})
        if r is None:
            continue
        for T, s in itertools.product(MATURITIES, SPREADS):
            dl, fl = _legs(theta, r, R, T)
            pv = dl - s * fl
            try:
                s_imp = float(pricer.implied_cds_spread(pv=pv, level_a=a_arg, recovery_rate=R, maturity=T))
            except Exception as e:
                sh.violation(f"C19:formula:{comp}.implied_cds_spread:raises-{type(e).__name__}:{icls}", f"{type(e).__name__}: {e}",
                             {"a": a_arg, "R": R, "T": T, "spread": s, "pv": pv})
                continue
            obs.add(s_imp)
            sh.count("evaluations")
            if not core.close(s_imp, s, rtol=RTOL, atol=1e-10):
                sh.violation(f"C19:formula:{comp}.implied_cds_spread:not-inverse-of-pv:{icls}",
                             f"implied_cds_spread(pv(s={s})) = {s_imp!r} (a={a_arg}, R={R}, T={T}, theta={theta!r}, r={r})",
                             {"a": a_arg, "R": R, "T": T, "spread": s, "pv": pv, "implied": s_imp, "theta": theta, "r": r})


def _check_monotone(sh, comp, icls, d, theta_of):
    """(iii): theta_of maps a tuple of alphabet indices (one per coordinate; a larger index is a more negative threshold)
    to (thresholds, theta). Along every alphabet line theta must not increase when a threshold decreases."""
    for idx in sorted(theta_of):
        for k in range(d):
            nxt = tuple(i + 1 if j == k else i for j, i in enumerate(idx))
            if nxt not in theta_of:
                continue
            (a_hi, th_hi), (a_lo, th_lo) = theta_of[idx], theta_of[nxt]  # a_lo[k] < a_hi[k]
            sh.count("evaluations")
            sh.count("monotone_pairs")
            if th_lo > th_hi + _ulps(th_lo, th_hi):
                sh.violation(f"C19:theta:{comp}:not-monotone-in-threshold:{icls}",
                             f"theta{a_lo} = {th_lo!r} > theta{a_hi} = {th_hi!r} although threshold {k} was lowered",
                             {"a_low": a_lo, "theta_low": th_lo, "a_high": a_hi, "theta_high": th_hi, "coordinate": k})
            sh.cls("theta-strictly-increasing" if th_lo < th_hi else "theta-flat-between-alphabet-points")


PRICER_OPS = ("reassign", "other-pricer", "deepcopy", "formulas")


def _pricer_histories(sh, obs, comp, icls, attr, make_pricer, models, expected, a_list, r, is_copula, scales=None):
    """Histories on ONE closed-form pricer object. models = [model, other model]; the pricer holds models[which] in its public
    attribute `attr`; expected[which][i] = reference default intensity of models[which] at a_list[i] (computed without any
    pricer object; scales: sum of the absolute inclusion-exclusion terms, the scale of its rounding error). The pricer is used (all thresholds) before every operation; after the history its theta, survival
    probability and par spread must be those of the model it holds NOW.
      reassign      pricer.<attr> = the other model (public attribute re-assigned, as `payoff.spread = s2`)
      other-pricer  a second pricer of the class on the other model is built and used in between
      deepcopy      the pricer is replaced by its deepcopy
      formulas      every public method of the pricer is called in between"""
    R = RECOVERIES[-1]
    name = "first_to_default_par_spread" if is_copula else "cds_spread"
    arg = (lambda a: list(a)) if is_copula else (lambda a: a)

    def use(p):
        for a in a_list:
            float(p._theta(arg(a)))

    for hist in _histories(PRICER_OPS, 2)[1:]:
        which = 0
        try:
            p = make_pricer(models[0])
            for op in hist:
                use(p)
                if op == "reassign":
                    which = 1 - which
                    setattr(p, attr, models[which])
                elif op == "other-pricer":
                    use(make_pricer(models[1 - which]))
                elif op == "deepcopy":
                    p = copy.deepcopy(p)
                elif op == "formulas":
                    a = arg(a_list[0])
                    float(p.survival_probability(a, MATURITIES[0]))
                    if is_copula:
                        s0 = float(p.first_to_default_par_spread(levels_a=a, recovery_rate=R))
                    else:
                        s0 = float(p.cds_spread(level_a=a, recovery_rate=R))
                        float(p.implied_cds_threshold(cds_spread=s0, recovery_rate=R, h0=1e-6))
                    if r is not None:
                        float(p.implied_cds_spread(pv=0.0, level_a=a, recovery_rate=R, maturity=MATURITIES[0]))
            sh.cls("pricer-history-depth-" + str(len(hist)))
            for i, a in enumerate(a_list):
                ref = expected[which][i]
                sc = None if scales is None else scales[which][i]
                th = float(p._theta(arg(a)))
                sp = float(p.survival_probability(arg(a), MATURITIES[0]))
                s0 = float(getattr(p, name)(arg(a), recovery_rate=R))
                obs.add(th, sp, s0)
                for what, got, exp_ in (("_theta", th, ref), ("survival_probability", sp, math.exp(-ref * MATURITIES[0])),
                                        (name, s0, (1.0 - R) * ref)):
                    sh.count("evaluations")
                    sh.count("pricer_history_comparisons")
                    if not core.close(got, exp_, rtol=RTOL, scale=None if sc is None else max(sc, abs(exp_))):
                        sh.violation(f"C19:history:{comp}.{what}:not-of-the-model-held-now:after={_hist_label(hist)}:{icls}",
                                     f"{comp} after [{_hist_label(hist)}] holds model #{which}: {what}({a}) = {got!r}, reference of that "
                                     f"model = {exp_!r}", {"a": a, "history": list(hist), "got": got, "expected": exp_, "holds": which})
        except Exception as e:
            sh.violation(f"C19:history:{comp}:raises-{type(e).__name__}:{icls}", f"{type(e).__name__}: {e} (history [{_hist_label(hist)}])",
                         {"history": list(hist)})


CHAIN_OPS = ("second-chain-same-grid", "initialisation", "deepcopy", "reset-cost", "other-chain", "sample")


def _credit_product(model, a, is_copula):
    """the product of the benchmark scripts: CDS on the (first-to-)default time"""
    from rpylib.product.payoff import CDS
    from rpylib.product.product import Product
    from rpylib.product.underlying import DefaultTime, NthDefaultTimes

    und = NthDefaultTimes(default_levels=list(a), index=1) if is_copula else DefaultTime(default_level=a)
    T = MATURITIES[0]
    return Product(payoff_underlying=und, payoff=CDS(recovery_rate=RECOVERIES[-1], spread=SPREADS[0], maturity=T, discounting=model.df),
                   maturity=T, notional=NOTIONAL)


def _chain_op(op, proc, grid, make_chain, make_other_grid, product):
    """one operation of CHAIN_OPS on the chain `proc` living on `grid`; returns the (chain, grid) to be read next.
      second-chain-same-grid  a second chain is built on the SAME grid object (and the same model object) and replaces the first
      initialisation          proc.initialisation(product) - what Engine.price does before simulating
      deepcopy                the chain is replaced by its deepcopy (its own copy of grid, model and sampler)
      reset-cost              proc.reset_one_simulation_cost() and the sampler's reset_sampling_cost()
      other-chain             a chain of the class for ANOTHER threshold (other grid object, same model object) is built, read
                              (intensity) and dropped in between
      sample                  the chain's sampler draws 16 states (global numpy generator seeded for the draw and restored;
                              the drawn values are not observed)"""
    if op == "second-chain-same-grid":
        return make_chain(grid), grid
    if op == "initialisation":
        proc.initialisation(product)
    elif op == "deepcopy":
        proc = copy.deepcopy(proc)
        grid = proc.grid
    elif op == "reset-cost":
        proc.reset_one_simulation_cost()
        proc.sampling.reset_sampling_cost()
    elif op == "other-chain":
        float(make_chain(make_other_grid()).intensity_of_jumps)
    elif op == "sample":
        state = np.random.get_state()
        try:
            np.random.seed(19)
            proc.sampling.sample(size=16)
        finally:
            np.random.set_state(state)
    else:
        raise ValueError(op)
    return proc, grid


# ----------------------------------------------------------------------------------------------------------------------
# one dimension
# ----------------------------------------------------------------------------------------------------------------------

def _cell(grid, st):
    """cell of the state at coordinate st, exactly as samplingfactory.probability_to_jump_to_state builds it"""
    val = grid[st]
    return grid.middle(grid.left_point(st), val), grid.middle(val, grid.right_point(st))


def _underlying_routes(make_und):
    """the ways a default time is obtained from ONE kind of underlying object: name -> (callable(times, log jump path), object).
    Besides the two entry points on a fresh object: the object after Underlying.update(LOG) (what Product.update does for a
    log-represented process: `value` becomes `_value_log`), after update(LOG) then update(IDENDITY) (a product re-used with a
    process of the other representation), the deepcopy of an updated object (what the path managers / pool workers get), and
    the engine's route Product.underlying_value (keyword arguments), fresh and after Product.update(LOG) on a deepcopy."""
    from rpylib.process.process import ProcessRepresentation as PR
    from rpylib.product.payoff import CDS
    from rpylib.product.product import Product

    u0 = make_und()
    u1 = make_und()
    u1.update(PR.LOG)
    u2 = make_und()
    u2.update(PR.LOG)
    u2.update(PR.IDENDITY)
    u3 = make_und()
    u3.update(PR.LOG)
    u3 = copy.deepcopy(u3)
    T = MATURITIES[0]
    p4 = Product(payoff_underlying=make_und(), maturity=T, notional=NOTIONAL,
                 payoff=CDS(recovery_rate=RECOVERIES[-1], spread=SPREADS[0], maturity=T, discounting=lambda t: math.exp(-0.02 * t)))
    p5 = copy.deepcopy(p4)
    p5.update(PR.LOG)
    return [("_value_log", lambda t, lp: u0._value_log(t, None, lp)),
            ("value", lambda t, lp: u0.value(t, None, np.exp(lp))),
            ("update(LOG).value", lambda t, lp: u1.value(t, None, lp)),
            ("update(LOG)+update(IDENDITY).value", lambda t, lp: u2.value(t, None, np.exp(lp))),
            ("update(LOG)+deepcopy.value", lambda t, lp: u3.value(t, None, lp)),
            ("Product.underlying_value", lambda t, lp: p4.underlying_value(times=t, path=np.exp(lp), jump_path=np.exp(lp))),
            ("Product.update(LOG).underlying_value", lambda t, lp: p5.underlying_value(times=t, path=lp, jump_path=lp))]


def _scripted_default_times_1d(sh, obs, grid, a, o, thorough):
    from rpylib.product.underlying import DefaultTime

    ax = [float(x) for x in grid.axes[0]]
    states = [x for k, x in enumerate(ax) if k != o and abs(x - a) > 1e-9]
    routes = _underlying_routes(lambda: DefaultTime(default_level=a))
    # a second object of the class with another threshold (between the states a+eps and -h), used in between on every path
    a_b = 0.5 * (ax[2] + ax[3])
    und_b = DefaultTime(default_level=a_b)
    for n in range(0, (3 if thorough else 2) + 1):  # n = 0: the path without any jump
        times = np.array([0.0] + [0.3 * (j + 1) for j in range(n)] + [0.3 * n + 0.5])
        for seq in itertools.product(states, repeat=n):
            logp = np.concatenate(([0.0], np.cumsum(seq), [float(np.sum(seq))]))
            first = next((j for j, x in enumerate(seq) if x < a), None)
            exp_ = INF if first is None else float(times[first + 1])
            first_b = next((j for j, x in enumerate(seq) if x < a_b), None)
            exp_b = INF if first_b is None else float(times[first_b + 1])
            entry_ok = True
            for k_route, (via, fun) in enumerate(routes):
                if k_route >= 2 and not entry_ok:
                    break  # wrong already on the fresh object: reported once, not once per route
                got = float(fun(times, logp))
                obs.add(got)
                sh.count("evaluations")
                sh.count("scripted_paths")
                if got != exp_:
                    entry_ok = False
                    sh.violation(f"C19:default-time:DefaultTime:ne-first-jump-below-threshold:via={via}",
                                 f"DefaultTime({a}).{via} on jumps {list(seq)} at times {times.tolist()} = {got}, expected {exp_}",
                                 {"a": a, "jumps": list(seq), "times": times.tolist(), "got": got, "expected": exp_})
                if via == "_value_log":
                    got_b = float(und_b._value_log(times, None, logp))
                    sh.count("evaluations")
                    if got_b != exp_b:
                        sh.violation("C19:default-time:DefaultTime:ne-first-jump-below-threshold:via=_value_log:second-object",
                                     f"DefaultTime({a_b})._value_log on jumps {list(seq)} at times {times.tolist()} = {got_b}, expected {exp_b}",
                                     {"a": a_b, "jumps": list(seq), "times": times.tolist(), "got": got_b, "expected": exp_b})


def _one_dim(sh, case, obs):
    from rpylib.distribution.sampling import SamplingMethod
    from rpylib.distribution.samplingfactory import create_q_vector
    from rpylib.grid import spatial as S
    from rpylib.grid.grid import Coordinates
    from rpylib.numerical.closedform.cflevymodel import CFLevyModel
    from rpylib.process.markovchain.markovchain import MarkovChainProcess
    from rpylib.product.underlying import DefaultTime

    spec, h = case["model"], float(case["h"])
    thorough = os.environ.get("VERIF_TIER") == "thorough"
    icls = "d=1:" + _mclass(spec)
    model = A.make_model(spec)
    nu = model.levy_triplet.nu
    sh.cls("d=1")
    sh.cls(_activity_class(nu))
    sh.cls("exponential-model" if spec.get("exp") else "levy-model")
    r = float(spec["r"]) if spec.get("exp") else None
    l, rr = S.compute_truncation(model=model, h=h)
    l, rr = float(l), float(rr)
    cf = CFLevyModel(model)
    theta_of = {}
    lib_thetas = []
    deep_histories_at = None  # the chain histories of depth 2 are run at the first threshold inside the alphabet
    for i, fr in enumerate(FRACS):
        a = float(fr * l)
        if not (l < a < -h):
            sh.count("excluded_threshold_outside_(l,-h)")
            sh.cls("threshold-outside-(l,-h)-excluded")
            continue
        # ---------------------------------------------------------------- references (independent of the chain)
        q_all, e_all = O.integrate_density(nu, -INF, a)
        # ---------------------------------------------------------------- (ii) un-restricted closed form
        try:
            theta = float(cf._theta(a))
        except Exception as e:
            sh.violation(f"C19:theta:CFLevyModel:raises-{type(e).__name__}:{icls}", f"_theta({a}): {type(e).__name__}: {e}", {"a": a})
            continue
        obs.add(theta)
        sh.outcome(("theta", float(theta).hex()))
        theta_of[(i,)] = ((a,), theta)
        lib_thetas.append((a, theta))
        sh.count("evaluations")
        sh.nontriv()
        if e_all > 1e-9 * abs(q_all):
            sh.count("oracle_inconclusive")
        elif not core.close(theta, q_all, rtol=RTOL_Q):
            sh.violation(f"C19:theta:CFLevyModel:ne-union-mass:oracle=quadrature:{icls}",
                         f"_theta({a}) = {theta!r}, quadrature of the density over (-inf, a] = {q_all!r} (+-{e_all:.1e})",
                         {"a": a, "theta": theta, "quadrature": q_all, "err": e_all})
        # ---------------------------------------------------------------- (i) box intensity of the truncated model
        box_cache = {}

        def box_refs(tl, tr):
            """closed form of the model truncated to the grid's own truncation [tl, tr], checked against nu([tl, a])"""
            if (tl, tr) in box_cache:
                return box_cache[(tl, tr)]
            q_box, e_box = O.integrate_density(nu, tl, a)
            i_box = float(nu.integrate(tl, a))
            trunc = copy.deepcopy(model)
            trunc.truncate_levy_measure(truncations=(tl, tr))
            theta_box = float(CFLevyModel(trunc)._theta(a))
            obs.add(theta_box)
            sh.count("evaluations", 3)
            if not core.close(theta_box, i_box, rtol=RTOL):
                sh.violation(f"C19:box-rate:CFLevyModel:truncated-theta-ne-nu[l,a]:oracle=integrate:{icls}",
                             f"CFLevyModel(model truncated to [{tl},{tr}])._theta({a}) = {theta_box!r}, nu.integrate(l, a) = {i_box!r}",
                             {"a": a, "l": tl, "r": tr, "theta_box": theta_box, "nu[l,a]": i_box})
            conclusive = e_box <= 1e-9 * abs(q_box)
            if not conclusive:
                sh.count("oracle_inconclusive")
            elif not core.close(theta_box, q_box, rtol=RTOL_Q):
                sh.violation(f"C19:box-rate:CFLevyModel:truncated-theta-ne-nu[l,a]:oracle=quadrature:{icls}",
                             f"CFLevyModel(truncated)._theta({a}) = {theta_box!r}, quadrature of the density over [l, a] = {q_box!r}",
                             {"a": a, "l": tl, "theta_box": theta_box, "quadrature": q_box, "err": e_box})
            if theta - theta_box < -_ulps(theta, theta_box):
                sh.violation(f"C19:theta:CFLevyModel:below-box-intensity:{icls}",
                             f"theta({a}) = {theta!r} < intensity restricted to the box = {theta_box!r}",
                             {"a": a, "theta": theta, "theta_box": theta_box})
            box_cache[(tl, tr)] = (theta_box, q_box if conclusive else None)
            return box_cache[(tl, tr)]

        # ---------------------------------------------------------------- the chains on the credit grid
        for sym in (True, False):
            try:
                grid = S.CTMCCredit(h=h, level_a=a, model=model, symmetric_grid=sym)
                proc = MarkovChainProcess(model=model, method=SamplingMethod.INVERSION, grid=grid)
            except Exception as e:
                sh.violation(f"C19:box-rate:MarkovChainProcess:raises-{type(e).__name__}:{icls}",
                             f"building the chain on CTMCCredit(h={h}, a={a}): {type(e).__name__}: {e}", {"a": a, "h": h, "symmetric": sym})
                continue
            ax = [float(x) for x in grid.axes[0]]
            o = int(getattr(grid.origin_coordinate, "value", 4))
            sh.cls("eps-bound-by-left-truncation" if abs(l - a) < abs(a + h) else "eps-bound-by-central-cell")
            # pre-condition: threshold on the boundary between the two states around it
            below = max(k for k, x in enumerate(ax) if x < a)
            mid = float(grid.middle(ax[below], ax[below + 1]))
            sh.count("evaluations")
            if abs(mid - a) > _ulps(a):
                sh.violation(f"C19:grid:CTMCCredit:threshold-not-on-cell-boundary:{icls}",
                             f"middle({ax[below]}, {ax[below + 1]}) = {mid!r}, threshold {a!r}", {"a": a, "axis": ax})
            tl, tr = (float(x) for x in grid.truncations[0])  # the box of the oracle is the grid's own truncation
            if not all(x < y for x, y in zip(ax, ax[1:])):
                sh.violation("C19:grid:CTMCCredit:axis-not-increasing:d=1",
                             f"CTMCCredit(h={h}, level_a={a}) axis = {ax} is not increasing", {"a": a, "h": h, "axis": ax, "model": icls})
                sh.count("skipped_malformed_grid")
                continue
            try:
                theta_box, q_box = box_refs(tl, tr)
            except Exception as e:
                sh.violation(f"C19:box-rate:CFLevyModel:raises-{type(e).__name__}:{icls}", f"truncated _theta({a}): {type(e).__name__}: {e}", {"a": a})
                continue
            und = DefaultTime(default_level=a)

            def chain_sums(proc, grid, judge_underlying=False):
                """the three notions of 'total rate of the states below the threshold' of one chain object"""
                q_vec = create_q_vector(proc.model.levy_triplet.nu, grid)
                closure = getattr(proc.sampling, "probability_to_jump_to_state", None)
                lam = float(proc.intensity_of_jumps)
                sums = {"mass": 0.0, "q-vector": 0.0}
                if closure is not None:
                    sums["sampler"] = 0.0
                n_default = 0
                for k, x in enumerate(float(y) for y in grid.axes[0]):
                    if k == o:
                        continue
                    if judge_underlying:
                        fires = float(und._value_log(np.array([0.0, 1.0]), None, np.array([0.0, x]))) == 1.0
                        if fires != (x < a):
                            sh.violation("C19:default-time:DefaultTime:ne-first-jump-below-threshold:via=_value_log",
                                         f"single jump {x} with threshold {a}: default fired = {fires}", {"a": a, "jump": x})
                    if not x < a:
                        continue
                    n_default += 1
                    lo, hi = _cell(grid, Coordinates(k))
                    sums["mass"] += float(proc.model.mass(lo, hi))
                    sums["q-vector"] += float(q_vec[k])
                    if closure is not None:
                        sums["sampler"] += float(closure(k - o)) * lam
                return sums, n_default

            def judge_sums(sums, n_default, hist):
                after = f":after={_hist_label(hist)}" if hist else ""
                ok = True
                for via, tot in sums.items():
                    obs.add(tot)
                    sh.count("evaluations")
                    sh.count("box_rate_comparisons")
                    if not core.close(tot, theta_box, rtol=RTOL):
                        ok = False
                        sh.violation(f"C19:box-rate:MarkovChainProcess:default-rate-ne-box-intensity:via={via}:{icls}{after}",
                                     f"sum of rates of the {n_default} states below a={a} = {tot!r}, closed form of the truncated model = {theta_box!r} "
                                     f"(axis {ax}, history [{_hist_label(hist)}])",
                                     {"a": a, "h": h, "symmetric": sym, "axis": ax, "rate": tot, "theta_box": theta_box, "via": via,
                                      "history": list(hist)})
                    if q_box is not None and not core.close(tot, q_box, rtol=RTOL_Q):
                        ok = False
                        sh.violation(f"C19:box-rate:MarkovChainProcess:default-rate-ne-quadrature-of-density:via={via}:{icls}{after}",
                                     f"sum of rates of the states below a={a} = {tot!r}, quadrature of nu over [l, a] = {q_box!r} "
                                     f"(history [{_hist_label(hist)}])",
                                     {"a": a, "h": h, "symmetric": sym, "axis": ax, "rate": tot, "quadrature": q_box, "via": via,
                                      "history": list(hist)})
                return ok

            try:
                sums, n_default = chain_sums(proc, grid, judge_underlying=True)
            except Exception as e:  # the library raising on a well-formed credit grid
                sh.violation(f"C19:box-rate:MarkovChainProcess:raises-{type(e).__name__}:{icls}",
                             f"rates of the states of the chain on CTMCCredit(h={h}, a={a}): {type(e).__name__}: {e}", {"a": a, "h": h, "axis": ax})
                continue
            sh.count("default_states", n_default)
            sh.outcome(("box", float(sums["mass"]).hex()))
            fresh_ok = judge_sums(sums, n_default, ())
            if not fresh_ok:  # a chain that is wrong when fresh is reported once, not once per history
                sh.count("histories_skipped_fresh_object_wrong")
            # ------------------------------------------------------------ histories on the ONE chain / grid / model just used
            a_oth = float(_other(FRACS, fr) * l)
            for hist in (_histories(CHAIN_OPS, 2 if (sym and deep_histories_at in (None, a)) else 1)[1:] if fresh_ok else []):
                deep_histories_at = a if sym else deep_histories_at
                try:
                    g = S.CTMCCredit(h=h, level_a=a, model=model, symmetric_grid=sym)
                    pr = MarkovChainProcess(model=model, method=SamplingMethod.INVERSION, grid=g)
                    for op in hist:
                        chain_sums(pr, g)  # the chain is read before every operation
                        pr, g = _chain_op(op, pr, g, lambda grid_: MarkovChainProcess(model=model, method=SamplingMethod.INVERSION, grid=grid_),
                                          lambda: S.CTMCCredit(h=h, level_a=a_oth, model=model, symmetric_grid=sym)
                                          if l < a_oth < -h else S.CTMCCredit(h=h, level_a=a, model=model, symmetric_grid=sym),
                                          _credit_product(model, a, is_copula=False))
                    sh.cls("chain-history-depth-" + str(len(hist)))
                    s2, n2 = chain_sums(pr, g)
                    sh.count("evaluations")
                    if n2 != n_default or [float(x) for x in g.axes[0]] != ax:
                        sh.violation(f"C19:history:CTMCCredit:states-changed:after={_hist_label(hist)}:d=1",
                                     f"after [{_hist_label(hist)}] the axis is {[float(x) for x in g.axes[0]]}, it was {ax}",
                                     {"a": a, "h": h, "history": list(hist), "model": icls})
                        continue
                    judge_sums(s2, n2, hist)
                except Exception as e:
                    sh.violation(f"C19:history:MarkovChainProcess:raises-{type(e).__name__}:after={_hist_label(hist)}:{icls}",
                                 f"{type(e).__name__}: {e} (history [{_hist_label(hist)}] on CTMCCredit(h={h}, a={a}, symmetric={sym}))",
                                 {"a": a, "h": h, "history": list(hist)})
            if sym:
                _scripted_default_times_1d(sh, obs, grid, a, o, thorough)
            sh.sample({"sub": "one-dim", "model": A.model_label(spec), "h": h, "a": a, "axis": ax, "default_rate": sums["mass"],
                       "theta_box": theta_box, "theta": theta})
        # ---------------------------------------------------------------- (iv)
        try:
            _check_formulas(sh, obs, "CFLevyModel", icls, cf, a, theta, r, is_copula=False)
            for R in RECOVERIES:
                s0 = float(cf.cds_spread(level_a=a, recovery_rate=R))
                for h0 in (h, 1e-6):
                    a_imp = float(cf.implied_cds_threshold(cds_spread=s0, recovery_rate=R, h0=h0))
                    obs.add(a_imp)
                    sh.count("evaluations")
                    if not core.close(a_imp, a, rtol=0.0, atol=1e-10):
                        sh.violation(f"C19:formula:CFLevyModel.implied_cds_threshold:not-inverse-of-cds_spread:{icls}",
                                     f"implied_cds_threshold(cds_spread({a}), R={R}, h0={h0}) = {a_imp!r}", {"a": a, "R": R, "h0": h0, "got": a_imp})
        except Exception as e:
            sh.violation(f"C19:formula:CFLevyModel:raises-{type(e).__name__}:{icls}", f"{type(e).__name__}: {e}", {"a": a})
    # -------------------------------------------------------------------- spread -> threshold -> spread
    h0 = 1e-6
    for R, s in itertools.product(RECOVERIES, SPREADS):
        try:
            lo_s = float(cf.cds_spread(level_a=-10.0, recovery_rate=R))
            hi_s = float(cf.cds_spread(level_a=-h0, recovery_rate=R))
            if not (lo_s < s < hi_s):
                sh.count("excluded_spread_not_attainable")
                sh.cls("spread-not-attainable-excluded")
                continue
            a_s = float(cf.implied_cds_threshold(cds_spread=s, recovery_rate=R, h0=h0))
            obs.add(a_s)
            dlt = 1e-10
            s_lo = float(cf.cds_spread(level_a=a_s - dlt, recovery_rate=R))
            s_hi = float(cf.cds_spread(level_a=a_s + dlt, recovery_rate=R))
            sh.count("evaluations")
            sh.outcome(("implied-threshold", float(a_s).hex()))
            if not (s_lo - _ulps(s) <= s <= s_hi + _ulps(s)) or not (-10.0 <= a_s <= -h0):
                sh.violation(f"C19:formula:CFLevyModel.implied_cds_threshold:spread-not-reproduced:{icls}",
                             f"a* = implied_cds_threshold({s}, R={R}) = {a_s!r}; cds_spread(a* -+ 1e-10) = [{s_lo!r}, {s_hi!r}] does not bracket {s}",
                             {"spread": s, "R": R, "a_star": a_s, "bracket": [s_lo, s_hi]})
        except Exception as e:
            sh.violation(f"C19:formula:CFLevyModel.implied_cds_threshold:raises-{type(e).__name__}:{icls}", f"{type(e).__name__}: {e}",
                         {"spread": s, "R": R})
    _check_monotone(sh, "CFLevyModel", icls, 1, theta_of)
    # -------------------------------------------------------------------- histories on one pricer object
    if lib_thetas:
        try:
            model2 = A.make_model(_other_model_spec(spec))
            a_list = [a for a, _ in lib_thetas]
            expected = [[float(m.levy_triplet.nu.integrate(-INF, a)) for a in a_list] for m in (model, model2)]
        except Exception as e:
            sh.violation(f"C19:history:CFLevyModel:raises-{type(e).__name__}:{icls}", f"references: {type(e).__name__}: {e}", None)
        else:
            fresh_ok = True
            for (a, theta), ref in zip(lib_thetas, expected[0]):  # the reference of the held model is the one (ii) judged
                sh.count("evaluations")
                if not core.close(theta, ref, rtol=RTOL):
                    fresh_ok = False
                    sh.violation(f"C19:theta:CFLevyModel:ne-union-mass:oracle=integrate:{icls}",
                                 f"_theta({a}) = {theta!r}, nu.integrate(-inf, a) = {ref!r}", {"a": a, "theta": theta, "integrate": ref})
            if fresh_ok:  # a pricer that is wrong when fresh is reported once, not once per history
                _pricer_histories(sh, obs, "CFLevyModel", icls, "model", CFLevyModel, [model, model2], expected, a_list, r, False)
            else:
                sh.count("histories_skipped_fresh_object_wrong")
    # -------------------------------------------------------------------- (v)
    if r is not None and lib_thetas:
        _check_cds_payoff(sh, obs, model.df, r, icls, lib_thetas,
                          lambda pv, a, R, T: cf.implied_cds_spread(pv=pv, level_a=a, recovery_rate=R, maturity=T))
    elif r is None:
        sh.count("excluded_no_interest_rate")


# ----------------------------------------------------------------------------------------------------------------------
# copulas: closed forms
# ----------------------------------------------------------------------------------------------------------------------

def _ie(d, term):
    """inclusion-exclusion over the non-empty subsets I of range(d); term(I) = mass of the intersection"""
    tot, sabs = 0.0, 0.0
    for n in range(1, d + 1):
        for I in itertools.combinations(range(d), n):
            v = float(term(I))
            tot += v if n % 2 else -v
            sabs += abs(v)
    return tot, sabs


def _box_intensity_ref(copula, nus, box, a):
    d = len(a)
    lo = [box[k][0] for k in range(d)]
    return _ie(d, lambda I: O.ref_rectangle_mass(copula, nus, lo, [a[k] if k in I else box[k][1] for k in range(d)]))


def _union_mass_ref(copula, nus, a):
    d = len(a)
    return _ie(d, lambda I: O.ref_rectangle_mass(copula, nus, [-INF] * d, [a[k] if k in I else INF for k in range(d)]))


def _union_mass_lib(model, a):
    d = len(a)
    return _ie(d, lambda I: model._mass_nd([-INF] * d, [a[k] if k in I else INF for k in range(d)]))


def _cf_copula(sh, case, obs):
    from rpylib.grid import spatial as S
    from rpylib.numerical.closedform.cflevycopula import CFLevyCopulaModel

    spec, h = case["model"], float(case["h"])
    icls = _cclass(spec)
    model = _make_copula_model(spec)
    d = model.dimension()
    nus = [m.levy_triplet.nu for m in model.models]
    sh.cls(f"d={d}")
    sh.cls("copula-" + spec["copula"]["kind"])
    sh.cls("exponential-model" if spec.get("exp") else "levy-model")
    for nu in nus:
        sh.cls(_activity_class(nu))
    r = 0.02 if spec.get("exp") else None
    l, rr = (float(x) for x in S.compute_truncation(model=model, h=h))
    box = [(l, rr)] * d
    cf = CFLevyCopulaModel(model)
    theta_of = {}
    lib_thetas = []
    for idx in itertools.product(range(len(FRACS)), repeat=d):
        a = tuple(float(FRACS[i] * l) for i in idx)
        if not all(l < x < -h for x in a):
            sh.count("excluded_threshold_outside_(l,-h)")
            continue
        try:
            theta = float(cf._theta(list(a)))
        except Exception as e:
            sh.violation(f"C19:theta:CFLevyCopulaModel:raises-{type(e).__name__}:{icls}", f"_theta({a}): {type(e).__name__}: {e}", {"a": a})
            continue
        obs.add(theta)
        sh.outcome(("theta", float(theta).hex()))
        theta_of[idx] = (a, theta)
        if len(set(idx)) == d or len(set(idx)) == 1:
            lib_thetas.append((a, theta))
        sh.nontriv()
        ref, sabs = _union_mass_ref(model.copula, nus, a)
        sh.count("evaluations")
        if not core.close(theta, ref, rtol=RTOL, scale=sabs):
            sh.violation(f"C19:theta:CFLevyCopulaModel:ne-union-mass:oracle=ref-rectangle:{icls}",
                         f"_theta({a}) = {theta!r}, inclusion-exclusion of the reference rectangle mass over the half-spaces = {ref!r}",
                         {"a": a, "theta": theta, "reference": ref})
        try:
            lib, sabs2 = _union_mass_lib(model, a)
            obs.add(lib)
            sh.count("evaluations")
            if not core.close(theta, lib, rtol=RTOL, scale=sabs2):
                sh.violation(f"C19:theta:CFLevyCopulaModel:ne-union-mass:oracle=mass_nd:{icls}",
                             f"_theta({a}) = {theta!r}, inclusion-exclusion of model._mass_nd over the half-spaces = {lib!r}",
                             {"a": a, "theta": theta, "mass_nd": lib})
        except Exception as e:
            sh.violation(f"C19:theta:LevyCopulaModel._mass_nd:raises-{type(e).__name__}:{icls}", f"half-space rectangles for {a}: {type(e).__name__}: {e}", {"a": a})
        tbox, sabs3 = _box_intensity_ref(model.copula, nus, box, a)
        sh.count("evaluations")
        if theta - tbox < -RTOL * sabs3:
            sh.violation(f"C19:theta:CFLevyCopulaModel:below-box-intensity:{icls}",
                         f"theta({a}) = {theta!r} < intensity restricted to the box [{l},{rr}]^d = {tbox!r}", {"a": a, "theta": theta, "theta_box": tbox})
        sh.cls("default-mass-outside-box>0" if theta > tbox else "default-mass-outside-box=0")
        if (a, theta) in lib_thetas:
            try:
                _check_formulas(sh, obs, "CFLevyCopulaModel", icls, cf, a, theta, r, is_copula=True)
            except Exception as e:
                sh.violation(f"C19:formula:CFLevyCopulaModel:raises-{type(e).__name__}:{icls}", f"{type(e).__name__}: {e}", {"a": a})
    _check_monotone(sh, "CFLevyCopulaModel", icls, d, theta_of)
    if lib_thetas:
        try:
            model2 = _make_copula_model(spec, reverse=True)
            nus2 = [m.levy_triplet.nu for m in model2.models]
            a_list = [a for a, _ in lib_thetas[:2]]
            refs = [[_union_mass_ref(m.copula, n, a) for a in a_list] for m, n in ((model, nus), (model2, nus2))]
            expected = [[x[0] for x in row] for row in refs]
            scales = [[x[1] for x in row] for row in refs]
        except Exception as e:
            sh.violation(f"C19:history:CFLevyCopulaModel:raises-{type(e).__name__}:{icls}", f"references: {type(e).__name__}: {e}", None)
        else:
            if all(core.close(th, ref_, rtol=RTOL, scale=sc) for (_, th), ref_, sc in zip(lib_thetas[:2], expected[0], scales[0])):
                _pricer_histories(sh, obs, "CFLevyCopulaModel", icls, "levy_copula_model", CFLevyCopulaModel, [model, model2], expected,
                                  a_list, r, True, scales)
            else:  # a pricer that is wrong when fresh was reported by (ii): once, not once per history
                sh.count("histories_skipped_fresh_object_wrong")
    if r is not None and lib_thetas:
        _check_cds_payoff(sh, obs, model.df, r, icls, lib_thetas[:2],
                          lambda pv, a, R, T: cf.implied_cds_spread(pv=pv, level_a=list(a), recovery_rate=R, maturity=T))
    if theta_of:
        a0, t0 = theta_of[min(theta_of)]
        sh.sample({"sub": "cf-copula", "model": icls, "h": h, "a": a0, "theta": t0})


# ----------------------------------------------------------------------------------------------------------------------
# copulas: the chain on the credit grid
# ----------------------------------------------------------------------------------------------------------------------

def _scripted_default_times_nd(sh, obs, grid, a, d):
    from rpylib.product.underlying import DefaultTimeNthUnderlying, NthDefaultTimes

    a = [float(x) for x in a]
    a_rev = a[::-1]
    o = [int(c) for c in grid.origin_coordinate]
    axes = [[float(x) for x in ax] for ax in grid.axes]
    # (name, index, thresholds, routes). The last objects of each class carry OTHER thresholds (the reversed tuple) and are used
    # in between on every path: a leak of one object's thresholds into another object of the class shows on either
    unds = [("NthDefaultTimes", n, a, _underlying_routes(lambda: NthDefaultTimes(default_levels=list(a), index=n))) for n in range(1, d + 1)]
    unds += [("DefaultTimeNthUnderlying", k, a, _underlying_routes(lambda: DefaultTimeNthUnderlying(default_levels=list(a), underlying_index=k)))
             for k in range(1, d + 1)]
    if a_rev != a:
        unds.append(("NthDefaultTimes", 1, a_rev, _underlying_routes(lambda: NthDefaultTimes(default_levels=list(a_rev), index=1))[:1]))
        unds.append(("DefaultTimeNthUnderlying", 1, a_rev,
                     _underlying_routes(lambda: DefaultTimeNthUnderlying(default_levels=list(a_rev), underlying_index=1))[:1]))
    # menu: the path without any jump; every chain state as a single jump; every ordered pair of "corner" states (each
    # coordinate just below / just above its threshold, or no move)
    singles = [tuple(axes[k][i] for k, i in enumerate(idx)) for idx in itertools.product(*[range(len(ax)) for ax in axes])
               if list(idx) != o]
    corner_axis = []
    for k in range(d):
        below = max(x for x in axes[k] if x < a[k])
        above = min(x for x in axes[k] if x > a[k])
        corner_axis.append([below, above, 0.0])
    corners = [c for c in itertools.product(*corner_axis) if any(x != 0.0 for x in c)]
    seqs = [()] + [(s,) for s in singles] + list(itertools.product(corners, repeat=2))
    # the routes through update() / deepcopy / Product concern the state of the underlying object, not the path: they are
    # evaluated on the sequences of at most two "full corner" jumps (every coordinate just below or just above its threshold)
    full = set(c for c in corners if all(x != 0.0 for x in c))
    for seq in seqs:
        all_routes = all(c in full for c in seq)
        n = len(seq)
        times = np.array([0.0] + [0.3 * (j + 1) for j in range(n)] + [0.3 * n + 0.5])
        jumps = np.array(seq, dtype=float).T if n else np.zeros((d, 0))  # (d, n)
        cum = np.cumsum(jumps, axis=1)
        logp = np.concatenate((np.zeros((d, 1)), cum, cum[:, -1:] if n else np.zeros((d, 1))), axis=1)
        firsts_of = {}
        for thr in (a, a_rev):
            if np.any(np.abs(jumps - np.array(thr)[:, None]) < 1e-9):
                continue  # log / exp round trip of `value` next to a threshold: outside the alphabet
            firsts = []
            for k in range(d):
                f = next((j for j in range(n) if jumps[k, j] < thr[k]), None)
                firsts.append(INF if f is None else float(times[f + 1]))
            firsts_of[tuple(thr)] = firsts
        for name, which, thr, routes in unds:
            firsts = firsts_of.get(tuple(thr))
            if firsts is None:
                continue
            exp_ = sorted(firsts)[which - 1] if name == "NthDefaultTimes" else firsts[which - 1]
            second = ":second-object" if thr is a_rev else ""
            entry_ok = True
            for k_route, (via, fun) in enumerate(routes if all_routes else routes[:2]):
                if k_route >= 2 and not entry_ok:
                    break  # wrong already on the fresh object: reported once, not once per route
                got = float(fun(times, logp))
                obs.add(got)
                sh.count("evaluations")
                sh.count("scripted_paths")
                if got != exp_:
                    entry_ok = False
                    sh.violation(f"C19:default-time:{name}:ne-first-jump-below-threshold:via={via}{second}",
                                 f"{name}({thr}, {which}).{via} on jumps {jumps.tolist()} at times {times.tolist()} = {got}, expected {exp_}",
                                 {"a": thr, "which": which, "jumps": jumps.tolist(), "times": times.tolist(), "got": got, "expected": exp_})


def _chain_copula(sh, case, obs):
    from rpylib.distribution.sampling import SamplingMethod
    from rpylib.grid import spatial as S
    from rpylib.grid.grid import Coordinates
    from rpylib.process.markovchain.markovchainlevycopula import MarkovChainLevyCopula

    spec, h, sym = case["model"], float(case["h"]), bool(case["symmetric"])
    icls = _cclass(spec) + (":sym" if sym else ":asym")
    comp = "MarkovChainLevyCopula"
    model = _make_copula_model(spec)
    d = model.dimension()
    nus = [m.levy_triplet.nu for m in model.models]
    l, rr = (float(x) for x in S.compute_truncation(model=model, h=h))
    a = [float(f * l) for f in case["fracs"]]
    if not all(l < x < -h for x in a):
        sh.count("excluded_threshold_outside_(l,-h)")
        sh.outcome("excluded")
        return
    sh.cls(f"d={d}")
    sh.cls("credit-symmetric" if sym else "credit-asymmetric")
    sh.cls("copula-" + spec["copula"]["kind"])
    for nu in nus:
        sh.cls(_activity_class(nu))
    method = SamplingMethod.INVERSION if sym else SamplingMethod.BINARYSEARCHTREEADAPTED
    sh.cls("sampler-" + method.name)
    try:
        grid = S.CTMCCredit(h=h, level_a=list(a), model=model, symmetric_grid=sym)
        with _no_vol_adjustment_pool():
            proc = MarkovChainLevyCopula(levy_copula_model=model, grid=grid, method=method)
    except Exception as e:
        sh.violation(f"C19:box-rate:{comp}:raises-{type(e).__name__}:{icls}",
                     f"building the chain on CTMCCredit(h={h}, a={a}, symmetric={sym}): {type(e).__name__}: {e}", {"a": a})
        return
    axes = [[float(x) for x in ax] for ax in grid.axes]
    o = tuple(int(c) for c in grid.origin_coordinate)
    box = [(float(t[0]), float(t[1])) for t in grid.truncations]
    # pre-condition of everything below: the axes are increasing (cells lo < hi). The thresholds are inside (l, -h), so a
    # failure here is the constructor's (the mirrored states of the symmetric grid are not confined to the right truncation)
    malformed = False
    for k in range(d):
        bad = [i for i in range(len(axes[k]) - 1) if not axes[k][i] < axes[k][i + 1]]
        sh.count("evaluations")
        if bad:
            malformed = True
            side = "mirror-states-beyond-right-truncation" if axes[k][bad[0]] > 0 else "negative-side"
            sh.violation(f"C19:grid:CTMCCredit:axis-not-increasing:{side}:{'sym' if sym else 'asym'}",
                         f"CTMCCredit(h={h}, level_a={a}, symmetric_grid={sym}) axis {k} = {axes[k]} is not increasing "
                         f"(compute_truncation = ({l}, {rr}))", {"a": a, "h": h, "axis": axes[k], "l": l, "r": rr, "model": icls})
    if malformed:
        sh.count("skipped_malformed_grid")
        sh.outcome("malformed-grid")
        return
    for k in range(d):
        sh.cls("eps-bound-by-left-truncation" if abs(box[k][0] - a[k]) < abs(a[k] + h) else "eps-bound-by-central-cell")
        below = max(i for i, x in enumerate(axes[k]) if x < a[k])
        mid = float(grid.middle(axes[k][below], axes[k][below + 1]))
        sh.count("evaluations")
        if abs(mid - a[k]) > _ulps(a[k]):
            sh.violation(f"C19:grid:CTMCCredit:threshold-not-on-cell-boundary:{icls}",
                         f"axis {k}: middle({axes[k][below]}, {axes[k][below + 1]}) = {mid!r}, threshold {a[k]!r}", {"a": a, "axis": axes[k]})
    # ------------------------------------------------------------------------ (i)
    def chain_sums(proc, grid):
        """the notions of 'total rate of the states with a coordinate below its threshold' of one chain object"""
        axes_ = [[float(x) for x in ax] for ax in grid.axes]
        lam = float(proc.intensity_of_jumps)
        samp = proc.sampling
        closure = getattr(samp, "probability_to_jump_to_state", None)
        bucket_p = getattr(samp, "_compute_probability", None)
        lam_s = float(getattr(samp, "intensity_of_jumps", lam))
        sums = {"mass": 0.0}
        if closure is not None or bucket_p is not None:
            sums["sampler"] = 0.0
        n_default = 0
        for idx in itertools.product(*[range(len(ax)) for ax in axes_]):
            if idx == o:
                continue
            if not any(axes_[k][i] < a[k] for k, i in enumerate(idx)):
                continue
            n_default += 1
            lo, hi = _cell(grid, Coordinates(idx))
            sums["mass"] += float(proc.model.mass(lo, hi))
            if closure is not None:
                sums["sampler"] += float(closure(tuple(i - c for i, c in zip(idx, o)))) * lam
            elif bucket_p is not None:
                sums["sampler"] += float(bucket_p(tuple(lo), tuple(hi))) * lam_s
        return sums, n_default, axes_

    try:
        sums, n_default, _ = chain_sums(proc, grid)
    except Exception as e:  # the library raising on a well-formed credit grid
        sh.violation(f"C19:box-rate:{comp}:raises-{type(e).__name__}:{icls}",
                     f"rates of the states of the chain on CTMCCredit(h={h}, a={a}, symmetric={sym}): {type(e).__name__}: {e}", {"a": a, "h": h})
        return
    sh.count("default_states", n_default)
    ref, sabs = _box_intensity_ref(model.copula, nus, box, a)
    sh.nontriv()
    sh.outcome(("box", float(sums["mass"]).hex()))

    def judge_sums(sums, n_default, hist):
        after = f":after={_hist_label(hist)}" if hist else ""
        ok = True
        for via, tot in sums.items():
            obs.add(tot)
            sh.count("evaluations")
            sh.count("box_rate_comparisons")
            if not core.close(tot, ref, rtol=RTOL, scale=sabs):
                ok = False
                sh.violation(f"C19:box-rate:{comp}:default-rate-ne-box-intensity:via={via}:{icls}{after}",
                             f"sum of rates of the {n_default} default states = {tot!r}, inclusion-exclusion of the joint measure on the box = {ref!r} "
                             f"(a={a}, h={h}, history [{_hist_label(hist)}])",
                             {"a": a, "h": h, "symmetric": sym, "axes": axes, "rate": tot, "box_intensity": ref, "via": via, "history": list(hist)})
        return ok

    fresh_ok = judge_sums(sums, n_default, ())
    if not fresh_ok:  # a chain that is wrong when fresh is reported once, not once per history
        sh.count("histories_skipped_fresh_object_wrong")
    # ------------------------------------------------------------------------ one cumulative history on the chain / grid / model just used:
    # the operations of CHAIN_OPS one after another, the rates re-read after each
    # (object state does not depend on where the thresholds are: the unequal threshold tuple of each model / h / grid shape)
    if fresh_ok and case["fracs"] == FRACS[::-1][:d]:
        a_oth = list(a)[::-1]
        g, pr = grid, proc  # the chain read above; the operations accumulate on it in the order of the menu
        for n_ops in range(1, len(CHAIN_OPS) + 1):
            hist = CHAIN_OPS[:n_ops]
            try:
                with _no_vol_adjustment_pool():
                    for op in hist[-1:]:
                        pr, g = _chain_op(op, pr, g, lambda grid_: MarkovChainLevyCopula(levy_copula_model=model, grid=grid_, method=method),
                                          lambda: S.CTMCCredit(h=h, level_a=a_oth, model=model, symmetric_grid=sym),
                                          _credit_product(model, a, is_copula=True))
                sh.cls("chain-history-depth-" + str(len(hist)))
                s2, n2, axes2 = chain_sums(pr, g)
                sh.count("evaluations")
                if n2 != n_default or axes2 != axes:
                    sh.violation(f"C19:history:CTMCCredit:states-changed:after={_hist_label(hist)}:d={d}",
                                 f"after [{_hist_label(hist)}] the axes are {axes2}, they were {axes}", {"a": a, "h": h, "history": list(hist), "model": icls})
                    continue
                if not judge_sums(s2, n2, hist):
                    break  # the later operations would repeat the same finding
            except Exception as e:
                sh.violation(f"C19:history:{comp}:raises-{type(e).__name__}:after={_hist_label(hist)}:{icls}",
                             f"{type(e).__name__}: {e} (history [{_hist_label(hist)}] on CTMCCredit(h={h}, a={a}, symmetric={sym}))",
                             {"a": a, "h": h, "history": list(hist)})
    sh.sample({"sub": "chain-copula", "model": icls, "h": h, "a": a, "default_states": n_default, "default_rate": sums["mass"],
               "box_intensity": ref})
    # ------------------------------------------------------------------------ the default region is the underlyings' rule
    # (the underlyings see only the thresholds and the states: one copula per margins / h / grid shape is the whole space)
    if spec["copula"]["kind"] == "independent" and case["fracs"] in (FRACS[:d], FRACS[::-1][:d]):
        _scripted_default_times_nd(sh, obs, grid, a, d)


# ----------------------------------------------------------------------------------------------------------------------
# driver
# ----------------------------------------------------------------------------------------------------------------------

_SUBS = {"one-dim": _one_dim, "cf-copula": _cf_copula, "chain-copula": _chain_copula}


def check_case(sh, case):
    import warnings

    obs = _Obs()
    with warnings.catch_warnings():
        warnings.simplefilter("ignore")
        _SUBS[case["sub"]](sh, case, obs)
        # determinism self-check: a fixed 1/8 of the cases is executed a second time on fresh objects
        if int(core.digest(case), 16) % 8 == 0:
            obs2 = _Obs()
            scratch = core.Shard()
            scratch.case = case
            _SUBS[case["sub"]](scratch, case, obs2)
            sh.count("determinism_reruns")
            if list(obs) != list(obs2):
                sh.violation("NONDETERMINISM", f"two executions of {case} observed different values", None)
