"""C19 - credit closed forms equal the default-region jump rate of the benchmarked chain.

Mode: lattice sweep (complete products, nothing sampled). Sub-checks ("sub" of a case):

 one-dim     one case per (1-d model spec, h).  Inside, the complete product
             thresholds a = f*l, f in {0.4, 0.5, 0.6} (l = left truncation of the credit grid)  x  symmetric flag {T, F}
             x recovery {0, 0.4} x maturity {1, 5} x spread {50, 300 bp} x h0 {h, 1e-6}.
             Model specs: mc.alphabets.model_specs plus "reinit" twins (same parameter values reached as the calibration
             helpers do: parameter object re-assigned, initialisation(), constructor): quick = first parameter set of each
             family, Levy and exponential; thorough = every spec.
 cf-copula   one case per (copula model spec, Levy / exponential margins, h): the closed forms on ALL threshold tuples
             (3^d), monotonicity along the threshold alphabet, the survival / spread / implied-spread maps, the CDS legs.
             Plus, per margin tuple, the model whose margins are all built by the reinit route (first copula).
 chain-copula one case per (copula model spec, h, threshold tuple, symmetric flag): the real MarkovChainLevyCopula on the
             real CTMCCredit grid (INVERSION on the symmetric grid, BINARYSEARCHTREEADAPTED on the asymmetric one, as
             scripts/benchmark/first_to_default.py does), the default-time underlyings on scripted jump paths.
             Quick: exponential margins, plus (first copula, unequal threshold tuple) plain Levy margins and reinit margins.
 twins       one case per (pair of Levy-copula models that differ in exactly ONE thing, h): both models alive in the process,
             asked ALTERNATELY at the SAME threshold vectors (all 3^d tuples of fractions of the less deep of the two left
             truncations) and, on the unequal tuple, through chains on credit grids of the same h / thresholds / flag (both
             flags; read base, twin, base again); every answer judged against the reference of ITS OWN model (oracles (i), (ii),
             (iv): theta, survival probability, first-to-default par spread, implied spread; default rate of the chain by both
             notions of rate). The one thing, enumerated completely:
               margin-parameter  every constructor parameter of every parameter class in turn (HEM sigma, p, eta1, eta2,
                                 intensity; Merton sigma, sigma_j, mu_j, intensity; VG sigma, nu, theta; CGMY c, g, m, y for
                                 y = 0.5 and y = 1.2), the names read from the constructor's signature (a parameter this
                                 module has no twin value for is reported as a cap); the other margin is a HEM;
                                 also the one-name closed forms CFLevyModel of the two margins, alternately;
               model-argument    spot, r, d of an exponential margin (the measure is the same: the answers must be, too;
                                 implied spread with the model's own r);
               copula            Clayton theta only, Clayton eta only; margins built anew or the SAME margin objects shared by
                                 both models (a copula re-calibrated on fixed margins);
               margin-order      the same margins in reversed order (thresholds not reversed).
             Then the copy.deepcopy / copy.copy / dill round trip of each MODEL answers like its original (16 ulps) and like
             the reference, the base model is asked again on a fresh pricer, and both originals are asked again after the
             chains (which work on truncated deep copies of them) were built. Follow-ups are skipped when the first,
             alternating answers were already wrong (reported once).
             Quick: d = 2 with the first copula, h = 0.1: exponential margins with the varied margin first and plain Levy
             margins with the varied margin second; d = 3: HEM p, CGMY y, copula theta, margin order. Thorough: both kinds x
             both positions, every parameter of HEM / VG in d = 3, every copula (HEM p, CGMY y), h = 0.05 (HEM).
 forms       argument forms and the caller's containers (no chain is built; same cases in both tiers unless stated):
             underlying         one case per (number of names 1..3, form of the threshold vector in list | tuple | list of
                                np.float64 | float64 array | int list | int64 array): NthDefaultTimes (every index) and
                                DefaultTimeNthUnderlying (every name) built, through every route of "underlying" below,
                                from ONE caller's container that is refilled for each rung of a ladder of threshold vectors
                                (base, lower, all names tied, reversed; integer-valued for the int forms) and finally
                                overwritten with -7; only then is every underlying evaluated, against the thresholds it was
                                BUILT with. Paths: built from the thresholds alone (no jump; every single jump of
                                {1.25 a_k, 0.75 a_k, 0}^d; ordered pairs of full corners; one path of 257 jumps whose last
                                jump is the first below the thresholds). The underlyings of every second rung are used once
                                before the refill. Container compared with a snapshot (type, dtype, values) after
                                construction / use.
             underlying-scalar  DefaultTime with the threshold as float | np.float64 | 0-d array | int | np.int64.
             pricer-1d          one case per 1-d model spec: CFLevyModel (_theta, survival_probability positional / keyword,
                                cds_spread, implied_cds_spread, implied_cds_threshold) and the 1-d CTMCCredit (axes,
                                truncations, origin, both flags) with the threshold as np.float64 | 0-d array | (threshold
                                -1: int | np.int64) against the Python float; maturity as int | np.float64 | vector (vectorised
                                = element-wise); recovery as np.float64 | int 0 | vector; pv / spread / h0 as numpy scalars.
             pricer-copula      one case per (copula model spec, Levy / exponential margins): CFLevyCopulaModel (all public
                                methods, positional and keyword, vector of maturities / recoveries) and the d-dimensional
                                CTMCCredit with the thresholds as list | tuple | list of np.float64 | float64 array, on the
                                unequal tuple, the tied tuple and (closed form only) (-1, -2, -3); ONE container per form
                                refilled between the calls (answer = that of the numbers it holds at the time of the call);
                                container compared with a snapshot after the calls; the grids built from it re-read after the
                                caller overwrote it.
             payoff             per interest rate {0.02, 0.05}: CDS / Product with recovery, spread, maturity, notional as
                                float | np.float64 | int where integer-valued, evaluated at default times given as float |
                                np.float64 | 0-d array | int (integer times on either side of the maturity), against (v).
             Oracles: absolute for the underlyings and the payoff ((v)); for the pricers and the grid "same answer as the usual
             form" (list of Python floats / Python float, itself judged by (i)-(iv)) within 16 ulps (axes: exactly).

Oracles
 (i)   box rate.  Sum over the chain states with at least one coordinate below its threshold of the state's jump rate
       (three notions of "rate of a state", each compared on its own: model.mass of the state's cell with the cell taken
       from grid.middle()/left_point()/right_point() exactly as samplingfactory does; create_q_vector (1-d); the sampler's
       own probability_to_jump_to_state * intensity_of_jumps / _compute_probability * intensity_of_jumps)
         = default intensity restricted to the truncation box:
       1-d:   CFLevyModel(model truncated to the grid's truncation)._theta(a), which must itself be nu([l, a]) (the
              margin's integrate, and quadrature of the margin's own density);
       d>=2:  inclusion-exclusion over I of the mass of {l_i <= x_i < a_i, i in I} x {l_j <= x_j <= r_j, j not in I} computed
              from the JOINT, untruncated measure with mc.oracle.ref_rectangle_mass (truncating the margins and re-applying
              the copula is a different measure and deliberately not the oracle: see "not judged" below).
       Pre-condition stated by the property, checked under its own key: the threshold is the grid's middle() of the two
       states around it.
 (ii)  un-restricted closed form.  CFLevyModel._theta(a) = nu((-inf, a]) (quadrature of the density, and nu.integrate);
       CFLevyCopulaModel._theta(a) = inclusion-exclusion over I of the mass of {x_i < a_i, i in I}, from
       model._mass_nd with -inf lower ends (free coordinates over (-inf, inf)) and, independently, from ref_rectangle_mass;
       theta - theta_box >= 0 (mass of the default region outside the box).
 (iii) theta is non-decreasing in each threshold along the alphabet (strictness is recorded, not demanded).
 (iv)  survival_probability = exp(-theta t); cds_spread / first_to_default_par_spread = (1-R) theta;
       implied_cds_threshold(cds_spread(a)) = a; cds_spread(implied_cds_threshold(s)) brackets s within 1e-10 in the
       threshold; implied_cds_spread(pv(s)) = s with pv(s) = (1-R) theta/(r+theta) (1-e^{-(r+theta)T}) - s (1-e^{-(r+theta)T})/(r+theta).
 (v)   CDS.evaluate(tau) * df(T) = (1-R) e^{-r tau} 1{tau <= T} - s (1 - e^{-r min(T, tau)})/r on scripted default times (also
       through Product.__call__ = notional * payoff, the engine's route), and its expectation under tau ~ Exp(theta)
       (deterministic quadrature of the real evaluate) = the closed-form pv, which implied_cds_spread maps back to s.
       DefaultTime / NthDefaultTimes / DefaultTimeNthUnderlying on scripted jump paths made of the chain's own states
       (no jump at all; one and two jumps; three in the thorough 1-d tier) = time of the first jump strictly below the
       threshold (n-th smallest for the n-th default): this is what makes "state below its threshold" the chain's default
       region.

Histories (the objects of (i)-(v) are also judged AFTER public operations on them; R, s, theta of the oracle are those the
object carries / the model it holds at the time of the call; the violation key ends in ":after=<op>+<op>"):
 payoff      ONE CDS object, priced before each operation; every sequence of <= 2 operations of
             PAYOFF_OPS = spread re-assigned | recovery_rate re-assigned | a second CDS with other values built and used in
             between | deepcopy | copy.copy | dill round trip (the copy replaces the payoff; the ORIGINAL is re-parametrised
             and used after the copy was taken) | update(LOG) + process(times, path) (the hooks Product calls): pointwise (v)
             after each history; the expectation / implied-spread part after the histories that change spread and / or recovery.
 pricer      ONE CFLevyModel / CFLevyCopulaModel, used at every threshold before each operation; every sequence of <= 2 of
             PRICER_OPS = public attribute `model` / `levy_copula_model` re-assigned to a second model (1-d: same family,
             donor parameters; copula: margins in reversed order) | a second pricer on the other model used in between |
             deepcopy | copy.copy | dill round trip (the copy replaces the pricer; the original is re-assigned the other model
             after the copy was taken) | all public methods called: theta, survival probability and par spread must be those
             of the model held now (reference: nu.integrate, checked against quadrature by (ii) / ref_rectangle_mass).
 chain       ONE chain on ONE credit grid with the shared model object, rates read before each operation; CHAIN_OPS = a second
             chain built on the same grid object | initialisation(product) (CDS on the (first-to-)default time, what
             Engine.price does) | deepcopy | reset_one_simulation_cost + reset_sampling_cost | a chain for another threshold
             built in between | the sampler draws 16 states (global numpy generator seeded and restored around the draw; the
             drawn values are not observed) | copy.copy | dill round trip (what a pool worker receives). 1-d: every sequence
             of <= 2 operations on fresh objects at the first threshold of the symmetric flag, every single operation
             elsewhere; d >= 2: one cumulative history (the operations in menu order, (i) re-judged after each) on the unequal
             threshold tuple (0.6, 0.5[, 0.4]) of every model / h / flag.
 underlying  each default-time class through: _value_log; value; value after update(LOG); value after update(LOG) then
             update(IDENDITY); value of the deepcopy / copy.copy / dill round trip of an updated object (the original switched
             back afterwards); Product.underlying_value (keywords), fresh, after Product.update(LOG) on a deepcopy, and on the
             dill round trip of that (d >= 2: all but the first two on the paths of full corner jumps only). A second
             object of the class with other thresholds (1-d: between a+eps and -h; d >= 2: the reversed tuple) is evaluated in
             between on every path and judged against its own thresholds. Every route compares the times / path arrays it
             hands over with copies taken before the call (the callee must not write into them).

Outside the alphabet (statement silent), counted and never an alarm:
 * argument forms the pinned tree rejects or for which nothing is promised: integer thresholds in CFLevyCopulaModel (TypeError
   in the tail integrals) and in CTMCCredit lists (beyond l for every model of the alphabet); float32 / object arrays; (1, n)
   and (n, 1) threshold arrays; a list as maturity; vectors of default times in CDS.evaluate; a 0-d array handed over as a
   SCALAR threshold and modified by the caller afterwards (DefaultTime keeps the object it is given);
 * a jump exactly equal to a threshold (no chain state is: the threshold is a cell boundary);
 * thresholds not strictly inside (l, -h): the credit axis l, a-eps, a+eps, -h is not increasing there (VG default, h = 0.1,
   f <= 0.5); same exclusion as C13;
 * spreads that no threshold in [-10, -h0] attains (finite-activity models with a small negative mass);
 * default time exactly equal to the maturity (a null event of the closed form), default time 0;
 * implied_cds_spread and the CDS legs for models without an interest rate (plain Levy models): the closed form reads model.r;
 * jumps within 1e-9 of a threshold in the scripted paths (log/exp round trip of DefaultTime.value);
 * grid.refine() on a credit grid (the threshold becomes a state: the statement's pre-condition "threshold on a cell
   boundary" is gone); private attributes of the payoff (_T, _df) re-assigned;
 * a model mutated IN PLACE while a pricer / copula model holds it (model.truncate_levy_measure after the pricer was built).
   Not judged: LevyCopulaModel.truncate_levy_measure truncates the margins' own measures but leaves the tail integrals the
   joint mass is built from (`_marginal_levy_measure`) untruncated. For the chain this is what makes (i) hold: its rates are
   the JOINT measure's mass of each cell of the box (agreement 1e-17 with ref_rectangle_mass), whereas the copula re-applied
   to truncated margins changes every cell (8e-4 relative in a 2-d HEM example). The by-product is that
   CFLevyCopulaModel(chain.model)._theta mixes truncated singles with untruncated pair terms (7e-4 above the chain's default
   rate); no library route evaluates a closed form on the chain's internal model, and the statement's "model restricted to
   the grid's truncation" is the restricted joint measure, so neither value is demanded of it.
"""
from __future__ import annotations

import contextlib
import copy
import itertools
import math
import os

import numpy as np

from mc import alphabets as A
from mc import core
from mc import oracle as O

PID = "C19"
LEVEL = "exploration"
RULE = (
    "complete product of (model spec incl. reinit twins x spatial step) and, inside each, of thresholds {0.4,0.5,0.6}*l (all "
    "tuples in d=2,3) x symmetric/asymmetric credit grid x recovery {0,0.4} x maturity {1,5} x spread {50,300bp}; every "
    "sequence of <= 2 operations of the payoff / pricer / 1-d chain menus and one cumulative history of the copula chain menu "
    "on re-used objects (menus include copy.copy / deepcopy / dill round trip); sub 'forms': complete product of (class taking "
    "thresholds or numbers x legal argument form x ladder of threshold vectors) with the caller's container refilled after "
    "construction / between calls; sub 'twins': complete product of (margin family x constructor parameter | model argument | "
    "copula parameter | margin order) as the ONE difference between two models alive together, asked alternately at all 3^d "
    "threshold tuples and through chains on both grid shapes, each against its own reference; a case is non-trivial when at least one chain default-rate sum, closed-form intensity or "
    "default time was compared with its reference; distinct = distinct case dict"
)
ASSUMPTIONS = [
    "the pathos pool that MarkovChainLevyCopula's constructor uses for the small-jump diffusion matrix of infinite-variation "
    "models (vol_adjustment_ij: 1 s in 2-d, > 200 s in 3-d, not observed by this property) is replaced by a stand-in whose "
    "results are 0.0; rates, intensity, model and sampler of the chain are the real ones",
    "reference rectangle mass shares the copula function and the margins' integrate with the library (checked in C09/C11); "
    "in one dimension the reference is quadrature of the margin's own density",
    "thresholds are fractions of the grid's left truncation; h in {0.1, 0.05}; dimension <= 3",
    "histories: at most two operations per object (copula chain: the eight operations of the menu once each, in menu order); the "
    "sampler's draw inside a chain history uses numpy's global generator, seeded before and restored after the draw",
    "twins: one other value per constructor parameter (TWIN_VALUES), the partner margin is a HEM, two models at a time",
    "forms: the ladders of the default-time underlyings are fixed threshold vectors (-0.2, -0.3, -0.25 and multiples; -2, -4, -3 "
    "for the integer forms), independent of any grid; the pricers' form comparisons are differential (usual form = reference)",
]
CHUNK = 8

FRACS = [0.4, 0.5, 0.6]
HS = [0.1, 0.05]
RECOVERIES = [0.0, 0.4]
MATURITIES = [1.0, 5.0]
SPREADS = [0.005, 0.03]
IMPLIED_SPREADS = SPREADS + [0.0, -0.01]  # implied_cds_spread brackets negative spreads on purpose (noisy Monte-Carlo pv)
INF = math.inf
RTOL = 1e-9
RTOL_Q = 1e-8


# ----------------------------------------------------------------------------------------------------------------------
# alphabet
# ----------------------------------------------------------------------------------------------------------------------

def _copula_model_specs(tier):
    thorough = tier == "thorough"
    pairs = [("hem", "hem2"), ("cgmy05", "cgmy12"), ("hem", "vg")]
    triples = [("hem", "hem2", "cgmy05"), ("cgmy05", "cgmy12", "hem2")]
    if thorough:
        pairs += [("vg", "cgmy12"), ("merton", "cgmy05")]
        triples += [("hem", "vg", "cgmy05")]
    out = []
    for c in A.copula_specs(tier):
        for m in pairs:
            out.append({"margins": list(m), "copula": c})
    for c in A.copula_specs(tier):
        for m in triples:
            out.append({"margins": list(m), "copula": c})
    return out


def _warm():
    """import the library once in the parent so that the forked workers do not each pay the 4 s import"""
    import rpylib.distribution.samplingfactory  # noqa: F401
    import rpylib.grid.spatial  # noqa: F401
    import rpylib.numerical.closedform.cflevycopula  # noqa: F401
    import rpylib.numerical.closedform.cflevymodel  # noqa: F401
    import rpylib.process.markovchain.markovchain  # noqa: F401
    import rpylib.process.markovchain.markovchainlevycopula  # noqa: F401
    import rpylib.product.payoff  # noqa: F401
    import rpylib.product.underlying  # noqa: F401
    import scipy.integrate  # noqa: F401


def cases(tier):
    _warm()
    thorough = tier == "thorough"
    out = []
    specs = A.model_specs(tier, families=("hem", "merton", "vg", "cgmy"))
    for ms in specs:
        for h in HS:
            out.append({"sub": "one-dim", "model": ms, "h": h})
    cms = _copula_model_specs(tier)
    for exp in (True, False):
        for cm in cms:
            for h in HS:
                out.append({"sub": "cf-copula", "model": dict(cm, exp=exp), "h": h})
    exps = (True, False) if thorough else (True,)
    for d in (2, 3):
        for exp in exps:
            for cm in cms:
                if len(cm["margins"]) != d:
                    continue
                for h in HS:
                    for fr in itertools.product(FRACS, repeat=d):
                        for sym in (True, False):
                            out.append({"sub": "chain-copula", "model": dict(cm, exp=exp), "h": h, "fracs": list(fr),
                                        "symmetric": sym})
    # ------------------------------------------------------------------ other construction routes / kinds of the same models, last
    # construction route "reinit" (parameter object re-assigned, initialisation(), constructor): quick = the first parameter set
    # of each family, Levy and exponential; thorough = every spec
    seen = set()
    for ms in A.with_reinit(specs):
        if ms.get("via") != "reinit":
            continue
        if not thorough:
            if (ms["family"], ms["exp"]) in seen:
                continue
            seen.add((ms["family"], ms["exp"]))
        for h in HS:
            out.append({"sub": "one-dim", "model": ms, "h": h})
    # copula models whose margins are all built by the reinit route: every margin tuple with the first copula
    twins = [dict(cm, via="reinit") for cm in cms if cm["copula"] == cms[0]["copula"]]
    for exp in (True, False):
        for cm in twins:
            for h in (HS if thorough else HS[:1]):
                out.append({"sub": "cf-copula", "model": dict(cm, exp=exp), "h": h})
    for cm in twins:
        for h in (HS if thorough else HS[:1]):
            for sym in (True, False):
                out.append({"sub": "chain-copula", "model": dict(cm, exp=True), "h": h, "fracs": FRACS[::-1][:len(cm["margins"])],
                            "symmetric": sym})
    if not thorough:  # plain Levy margins (the thorough tier has the full product): first copula, the unequal threshold tuple
        for cm in cms:
            if cm["copula"] != cms[0]["copula"]:
                continue
            for h in HS:
                for sym in (True, False):
                    out.append({"sub": "chain-copula", "model": dict(cm, exp=False), "h": h, "fracs": FRACS[::-1][:len(cm["margins"])],
                                "symmetric": sym})
    # ------------------------------------------------------------------ argument forms (cheap: no chain is built)
    for form in SCALAR_FORMS:
        out.append({"sub": "forms", "part": "underlying-scalar", "form": form})
    for d in (1, 2, 3):
        for form in VECTOR_FORMS:
            out.append({"sub": "forms", "part": "underlying", "d": d, "form": form})
    for ms in specs:
        out.append({"sub": "forms", "part": "pricer-1d", "model": ms})
    for exp in (True, False):
        for cm in cms:
            out.append({"sub": "forms", "part": "pricer-copula", "model": dict(cm, exp=exp)})
    for r in (0.02, 0.05):
        out.append({"sub": "forms", "part": "payoff", "r": r})
    # ------------------------------------------------------------------ twins: two models differing in exactly one thing, both alive
    out += _twin_cases(tier)
    return out


# ----------------------------------------------------------------------------------------------------------------------
# labels
# ----------------------------------------------------------------------------------------------------------------------

def _mclass(spec):
    fam = spec["family"]
    p = spec["params"]
    if fam == "cgmy":
        s = f"cgmy:y={p['y']:g}"
        if p["g"] == p["m"]:
            s += ":g=m"
    else:
        s = fam + (":alt" if p else ":default")
    return ("exp-" if spec.get("exp") else "") + s + ("[reinit]" if spec.get("via") == "reinit" else "")


def _cop_label(c):
    if c["kind"] == "clayton":
        return f"clayton({c['theta']:g},{c['eta']:g})"
    return c["kind"]


def _cclass(spec):
    return (f"d={len(spec['margins'])}:{'exp-' if spec.get('exp') else ''}{'+'.join(spec['margins'])}"
            f"{'[reinit]' if spec.get('via') == 'reinit' else ''}:{_cop_label(spec['copula'])}")


def _activity_class(nu):
    try:
        if nu.jump_of_finite_activity():
            return "finite-activity"
        if nu.jump_of_finite_variation():
            return "infinite-activity-finite-variation"
        return "infinite-variation"
    except Exception:
        return "activity-unknown"


def _make_copula_model(spec, reverse=False):
    """mc.alphabets.make_copula_model, plus: `via: "reinit"` builds every margin by the calibration helpers' route
    (mc.alphabets.make_model), `reverse` lists the margins in the opposite order (a second model of the class)"""
    from rpylib.model.utils import create_levy_copula_model

    models = []
    names = list(spec["margins"])[::-1] if reverse else list(spec["margins"])
    for name in names:
        ms = dict(A.MARGINS[name])
        if spec.get("exp"):
            ms = dict(ms, exp=True, r=0.02, d=0.0, spot=100.0)
        if spec.get("via") == "reinit":
            ms = dict(ms, via="reinit")
        models.append(A.make_model(ms))
    return create_levy_copula_model(models=models, copula=A.make_copula(spec["copula"]))


def _other_model_spec(spec):
    """a second model of the same family and kind with other parameter values everywhere (the donor set of mc.alphabets)"""
    out = {k: v for k, v in spec.items() if k != "via"}
    out["params"] = dict(A.DONOR_PARAMS[spec["family"]])
    return out


class _Obs(list):
    """library-observed floats of one execution, for the determinism self-check"""

    def add(self, *xs):
        for x in xs:
            try:
                self.append(float(x).hex())
            except Exception:
                self.append(repr(x))


def _ulps(*xs):
    """slack of an inequality between independently computed sums of a few terms of that magnitude"""
    return 64 * np.finfo(float).eps * max(abs(float(x)) for x in xs)


# ----------------------------------------------------------------------------------------------------------------------
# stand-in for the pathos pool of the copula chain's constructor (see ASSUMPTIONS)
# ----------------------------------------------------------------------------------------------------------------------

class _ZeroResult:
    def get(self, timeout=None):
        return 0.0


class _ZeroPool:
    def __init__(self, *a, **k):
        pass

    def __enter__(self):
        return self

    def __exit__(self, *a):
        return False

    def apply_async(self, func, args=(), kwds=None):
        return _ZeroResult()


class _ZeroMP:
    Pool = _ZeroPool


@contextlib.contextmanager
def _no_vol_adjustment_pool():
    import rpylib.process.markovchain.markovchainlevycopula as M

    old = getattr(M, "mp", None)
    M.mp = _ZeroMP
    try:
        yield
    finally:
        M.mp = old


# ----------------------------------------------------------------------------------------------------------------------
# shared pieces
# ----------------------------------------------------------------------------------------------------------------------

def _legs(theta, r, R, T):
    """the stated leg formulas (Garreau-Kercheval, continuous premium): default leg, fixed-leg annuity"""
    x = r + theta
    e = 1.0 - math.exp(-x * T)
    return (1.0 - R) * e * theta / x, e / x


def _pv_of_tau(tau, r, R, T, s):
    dl = (1.0 - R) * math.exp(-r * tau) if tau <= T else 0.0
    fl = s * (1.0 - math.exp(-r * min(T, tau))) / r
    return dl - fl


def _tau_menu(T):
    return [("before-maturity", 1e-3), ("before-maturity", 0.25 * T), ("before-maturity", 0.5 * T),
            ("before-maturity", math.nextafter(T, 0.0)), ("after-maturity", math.nextafter(T, INF)),
            ("after-maturity", 2.0 * T), ("never", INF)]


PAYOFF_OPS = ("spread", "recovery", "other-object", "deepcopy", "copy", "dill", "engine-hooks")
PAYOFF_EXPECTATION_HISTORIES = ((), ("spread",), ("recovery",), ("spread", "recovery"), ("recovery", "spread"))
NOTIONAL = 10_000.0


def _dill_round_trip(obj):
    """what a pathos pool worker receives"""
    import dill

    return dill.loads(dill.dumps(obj))


COPIERS = {"copy": copy.copy, "deepcopy": copy.deepcopy, "dill": _dill_round_trip}


def _histories(ops, depth):
    """every sequence of at most `depth` operations of the menu, shortest first (the empty history is the fresh object)"""
    out = [()]
    for n in range(1, depth + 1):
        out += list(itertools.product(ops, repeat=n))
    return out


def _hist_label(hist):
    return "+".join(hist)


def _other(menu, x):
    return menu[(menu.index(x) + 1) % len(menu)]


def _payoff_points(sh, obs, cds, df, r, R, T, s, hist, a0):
    """(v) pointwise: the payoff object in its CURRENT public state (R, s) on the scripted default times, through
    CDS.evaluate and through Product.__call__ (the engine's route: notional * payoff(tau))."""
    from rpylib.product.product import Product
    from rpylib.product.underlying import DefaultTime

    after = f":after={_hist_label(hist)}" if hist else ""
    df_T = float(df(T))
    product = Product(payoff_underlying=DefaultTime(default_level=a0), payoff=cds, maturity=T, notional=NOTIONAL)
    ok = True
    for tcls, tau in _tau_menu(T):
        exp_ = _pv_of_tau(tau, r, R, T, s)
        for via in ("evaluate", "Product"):
            if via == "evaluate":
                got = float(cds.evaluate(tau)) * df_T
                key = f"C19:payoff:CDS.evaluate:ne-leg-formulas:{tcls}{after}"
            else:
                got = float(product(tau)) / NOTIONAL * df_T
                key = f"C19:payoff:Product(CDS):ne-notional-times-leg-formulas:{tcls}{after}"
            obs.add(got)
            sh.count("evaluations")
            sh.count("payoff_points")
            if not core.close(got, exp_, rtol=RTOL, atol=1e-13):
                ok = False
                sh.violation(key, f"CDS(R={R}, s={s}, T={T}, r={r}) after [{_hist_label(hist)}], {via}({tau})*df(T) = {got!r}, "
                                  f"legs formula = {exp_!r}",
                             {"R": R, "T": T, "spread": s, "tau": tau, "r": r, "got": got, "expected": exp_, "history": list(hist),
                              "via": via})
    return ok


def _payoff_expectation(sh, obs, cds, df, r, R, T, s, hist, icls, thetas, pricer_spread):
    """(v) in expectation: E[payoff(tau)] df(T), tau ~ Exp(theta), by quadrature of the real evaluate on (0, T) plus the
    no-default atom = the closed-form pv, which implied_cds_spread maps back to the spread the payoff carries NOW."""
    from scipy.integrate import quad

    after = f":after={_hist_label(hist)}" if hist else ""
    df_T = float(df(T))
    for a, theta in thetas:
        f = lambda t: float(cds.evaluate(t)) * df_T * theta * math.exp(-theta * t)
        v, e = quad(f, 0.0, T, epsabs=0.0, epsrel=1e-12, limit=200)
        v += float(cds.evaluate(INF)) * df_T * math.exp(-theta * T)
        dl, fl = _legs(theta, r, R, T)
        ref = dl - s * fl
        scale = dl + s * fl
        sh.count("evaluations")
        if e > 1e-10 * scale:
            sh.count("oracle_inconclusive")
        elif not core.close(v, ref, rtol=RTOL_Q, scale=scale):
            sh.violation(f"C19:payoff:CDS.evaluate:expectation-ne-closed-form-pv:{icls}{after}",
                         f"E[CDS payoff] under Exp(theta={theta!r}) = {v!r}, closed-form legs give {ref!r} (R={R}, s={s}, T={T}, "
                         f"history [{_hist_label(hist)}])",
                         {"a": a, "theta": theta, "R": R, "T": T, "spread": s, "quad": v, "closed_form": ref, "history": list(hist)})
        else:
            # and the pricer maps the payoff's own expectation back to the contract spread
            s_imp = float(pricer_spread(v, a, R, T))
            obs.add(s_imp)
            sh.count("evaluations")
            if not core.close(s_imp, s, rtol=1e-7, atol=1e-8):
                sh.violation(f"C19:payoff:implied_cds_spread:expected-payoff-not-mapped-to-spread:{icls}{after}",
                             f"implied_cds_spread(E[CDS payoff]) = {s_imp!r}, spread carried by the payoff {s} (history [{_hist_label(hist)}])",
                             {"a": a, "R": R, "T": T, "spread": s, "pv": v, "implied": s_imp, "history": list(hist)})


def _check_cds_payoff(sh, obs, df, r, icls, thetas, pricer_spread):
    """(v): CDS.evaluate on scripted default times, and its expectation under Exp(theta) against the closed-form legs, on a
    fresh payoff and after EVERY history of at most two operations of PAYOFF_OPS on that one payoff object (the payoff is
    priced before each operation, as a spread ladder / par-spread search on a re-used product does).
    thetas: list of (a, theta) of the library's closed form; pricer_spread(pv, a, R, T) = implied_cds_spread."""
    from rpylib.process.process import ProcessRepresentation
    from rpylib.product.payoff import CDS

    a0 = thetas[0][0]
    a0 = float(a0[0]) if isinstance(a0, (tuple, list)) else float(a0)
    for R0, T, s0 in itertools.product(RECOVERIES, MATURITIES, SPREADS):
        fresh_ok = True
        for hist in _histories(PAYOFF_OPS, 2):
            if not fresh_ok:  # a payoff that is wrong when fresh is reported once, not once per history
                sh.count("histories_skipped_fresh_object_wrong")
                continue
            R, s = R0, s0
            try:
                cds = CDS(recovery_rate=R, spread=s, maturity=T, discounting=df)
                for op in hist:
                    float(cds.evaluate(0.5 * T)), float(cds.evaluate(2.0 * T)), float(cds(INF))  # "price" before the operation
                    if op == "spread":
                        s = _other(SPREADS, s)
                        cds.spread = s
                    elif op == "recovery":
                        R = _other(RECOVERIES, R)
                        cds.recovery_rate = R
                    elif op == "other-object":  # a second payoff of the class, other values everywhere, used in between
                        oth = CDS(recovery_rate=_other(RECOVERIES, R), spread=_other(SPREADS, s), maturity=_other(MATURITIES, T),
                                  discounting=lambda t: math.exp(-2.0 * r * t))
                        float(oth.evaluate(0.5 * T)), float(oth.evaluate(INF))
                    elif op in COPIERS:  # the copy replaces the payoff; the ORIGINAL is re-parametrised after the copy was taken
                        original, cds = cds, COPIERS[op](cds)
                        original.spread = _other(SPREADS, s)
                        original.recovery_rate = _other(RECOVERIES, R)
                        float(original.evaluate(0.5 * T))
                    elif op == "engine-hooks":  # what Product.update / Product.underlying_value call on the payoff
                        cds.update(ProcessRepresentation.LOG)
                        cds.process(np.array([0.0, T]), np.array([0.0, -0.1]))
                sh.cls("payoff-history-depth-" + str(len(hist)))
                ok = _payoff_points(sh, obs, cds, df, r, R, T, s, hist, a0)
                if not hist:
                    fresh_ok = ok
                if hist in PAYOFF_EXPECTATION_HISTORIES:
                    _payoff_expectation(sh, obs, cds, df, r, R, T, s, hist, icls, thetas, pricer_spread)
            except Exception as e:  # the library raising inside the alphabet
                sh.violation(f"C19:payoff:CDS:raises-{type(e).__name__}:{icls}", f"{type(e).__name__}: {e} (history [{_hist_label(hist)}])",
                             {"R": R, "T": T, "spread": s, "history": list(hist)})


def _check_formulas(sh, obs, comp, icls, pricer, a, theta, r, is_copula):
    """(iv) for one threshold (vector) a with the library's theta."""
    a_arg = list(a) if is_copula else a
    for t in MATURITIES:
        sp = float(pricer.survival_probability(a_arg, t))
        obs.add(sp)
        sh.count("evaluations")
        if not core.close(sp, math.exp(-theta * t), rtol=RTOL):
            sh.violation(f"C19:formula:{comp}.survival_probability:ne-exp(-theta*t):{icls}",
                         f"survival_probability({a_arg}, {t}) = {sp!r}, exp(-theta t) = {math.exp(-theta * t)!r}",
                         {"a": a_arg, "t": t, "theta": theta, "got": sp})
    for R in RECOVERIES:
        if is_copula:
            name = "first_to_default_par_spread"
            s0 = float(pricer.first_to_default_par_spread(levels_a=a_arg, recovery_rate=R))
        else:
            name = "cds_spread"
            s0 = float(pricer.cds_spread(level_a=a_arg, recovery_rate=R))
        obs.add(s0)
        sh.count("evaluations")
        if not core.close(s0, (1.0 - R) * theta, rtol=RTOL):
            sh.violation(f"C19:formula:{comp}.{name}:ne-(1-R)theta:{icls}",
                         f"{name}({a_arg}, R={R}) = {s0!r}, (1-R) theta = {(1.0 - R) * theta!r}",
                         {"a": a_arg, "R": R, "theta": theta, "got": s0})
        if r is None:
            continue
        for T, s in itertools.product(MATURITIES, IMPLIED_SPREADS):
            dl, fl = _legs(theta, r, R, T)
            pv = dl - s * fl
            try:
                s_imp = float(pricer.implied_cds_spread(pv=pv, level_a=a_arg, recovery_rate=R, maturity=T))
            except Exception as e:
                sh.violation(f"C19:formula:{comp}.implied_cds_spread:raises-{type(e).__name__}:{icls}", f"{type(e).__name__}: {e}",
                             {"a": a_arg, "R": R, "T": T, "spread": s, "pv": pv})
                continue
            obs.add(s_imp)
            sh.count("evaluations")
            if not core.close(s_imp, s, rtol=RTOL, atol=1e-10):
                sh.violation(f"C19:formula:{comp}.implied_cds_spread:not-inverse-of-pv:{icls}",
                             f"implied_cds_spread(pv(s={s})) = {s_imp!r} (a={a_arg}, R={R}, T={T}, theta={theta!r}, r={r})",
                             {"a": a_arg, "R": R, "T": T, "spread": s, "pv": pv, "implied": s_imp, "theta": theta, "r": r})


def _check_monotone(sh, comp, icls, d, theta_of):
    """(iii): theta_of maps a tuple of alphabet indices (one per coordinate; a larger index is a more negative threshold)
    to (thresholds, theta). Along every alphabet line theta must not increase when a threshold decreases."""
    for idx in sorted(theta_of):
        for k in range(d):
            nxt = tuple(i + 1 if j == k else i for j, i in enumerate(idx))
            if nxt not in theta_of:
                continue
            (a_hi, th_hi), (a_lo, th_lo) = theta_of[idx], theta_of[nxt]  # a_lo[k] < a_hi[k]
            sh.count("evaluations")
            sh.count("monotone_pairs")
            if th_lo > th_hi + _ulps(th_lo, th_hi):
                sh.violation(f"C19:theta:{comp}:not-monotone-in-threshold:{icls}",
                             f"theta{a_lo} = {th_lo!r} > theta{a_hi} = {th_hi!r} although threshold {k} was lowered",
                             {"a_low": a_lo, "theta_low": th_lo, "a_high": a_hi, "theta_high": th_hi, "coordinate": k})
            sh.cls("theta-strictly-increasing" if th_lo < th_hi else "theta-flat-between-alphabet-points")


PRICER_OPS = ("reassign", "other-pricer", "deepcopy", "copy", "dill", "formulas")


def _pricer_histories(sh, obs, comp, icls, attr, make_pricer, models, expected, a_list, r, is_copula, scales=None):
    """Histories on ONE closed-form pricer object. models = [model, other model]; the pricer holds models[which] in its public
    attribute `attr`; expected[which][i] = reference default intensity of models[which] at a_list[i] (computed without any
    pricer object; scales: sum of the absolute inclusion-exclusion terms, the scale of its rounding error). The pricer is used (all thresholds) before every operation; after the history its theta, survival
    probability and par spread must be those of the model it holds NOW.
      reassign      pricer.<attr> = the other model (public attribute re-assigned, as `payoff.spread = s2`)
      other-pricer  a second pricer of the class on the other model is built and used in between
      deepcopy / copy / dill   the pricer is replaced by its copy.deepcopy / copy.copy / dill round trip; the original is then
                    re-assigned the other model and used (the copy must still answer for the model it was copied with)
      formulas      every public method of the pricer is called in between"""
    R = RECOVERIES[-1]
    name = "first_to_default_par_spread" if is_copula else "cds_spread"
    arg = (lambda a: list(a)) if is_copula else (lambda a: a)

    def use(p):
        for a in a_list:
            float(p._theta(arg(a)))

    for hist in _histories(PRICER_OPS, 2)[1:]:
        which = 0
        try:
            p = make_pricer(models[0])
            for op in hist:
                use(p)
                if op == "reassign":
                    which = 1 - which
                    setattr(p, attr, models[which])
                elif op == "other-pricer":
                    use(make_pricer(models[1 - which]))
                elif op in COPIERS:  # the copy replaces the pricer; the ORIGINAL gets the other model after the copy was taken
                    original, p = p, COPIERS[op](p)
                    setattr(original, attr, models[1 - which])
                    use(original)
                elif op == "formulas":
                    a = arg(a_list[0])
                    float(p.survival_probability(a, MATURITIES[0]))
                    if is_copula:
                        s0 = float(p.first_to_default_par_spread(levels_a=a, recovery_rate=R))
                    else:
                        s0 = float(p.cds_spread(level_a=a, recovery_rate=R))
                        float(p.implied_cds_threshold(cds_spread=s0, recovery_rate=R, h0=1e-6))
                    if r is not None:
                        float(p.implied_cds_spread(pv=0.0, level_a=a, recovery_rate=R, maturity=MATURITIES[0]))
            sh.cls("pricer-history-depth-" + str(len(hist)))
            for i, a in enumerate(a_list):
                ref = expected[which][i]
                sc = None if scales is None else scales[which][i]
                th = float(p._theta(arg(a)))
                sp = float(p.survival_probability(arg(a), MATURITIES[0]))
                s0 = float(getattr(p, name)(arg(a), recovery_rate=R))
                obs.add(th, sp, s0)
                for what, got, exp_ in (("_theta", th, ref), ("survival_probability", sp, math.exp(-ref * MATURITIES[0])),
                                        (name, s0, (1.0 - R) * ref)):
                    sh.count("evaluations")
                    sh.count("pricer_history_comparisons")
                    if not core.close(got, exp_, rtol=RTOL, scale=None if sc is None else max(sc, abs(exp_))):
                        sh.violation(f"C19:history:{comp}.{what}:not-of-the-model-held-now:after={_hist_label(hist)}:{icls}",
                                     f"{comp} after [{_hist_label(hist)}] holds model #{which}: {what}({a}) = {got!r}, reference of that "
                                     f"model = {exp_!r}", {"a": a, "history": list(hist), "got": got, "expected": exp_, "holds": which})
        except Exception as e:
            sh.violation(f"C19:history:{comp}:raises-{type(e).__name__}:{icls}", f"{type(e).__name__}: {e} (history [{_hist_label(hist)}])",
                         {"history": list(hist)})


CHAIN_OPS = ("second-chain-same-grid", "initialisation", "deepcopy", "reset-cost", "other-chain", "sample", "copy", "dill")


def _credit_product(model, a, is_copula):
    """the product of the benchmark scripts: CDS on the (first-to-)default time"""
    from rpylib.product.payoff import CDS
    from rpylib.product.product import Product
    from rpylib.product.underlying import DefaultTime, NthDefaultTimes

    und = NthDefaultTimes(default_levels=list(a), index=1) if is_copula else DefaultTime(default_level=a)
    T = MATURITIES[0]
    return Product(payoff_underlying=und, payoff=CDS(recovery_rate=RECOVERIES[-1], spread=SPREADS[0], maturity=T, discounting=model.df),
                   maturity=T, notional=NOTIONAL)


def _chain_op(op, proc, grid, make_chain, make_other_grid, product):
    """one operation of CHAIN_OPS on the chain `proc` living on `grid`; returns the (chain, grid) to be read next.
      second-chain-same-grid  a second chain is built on the SAME grid object (and the same model object) and replaces the first
      initialisation          proc.initialisation(product) - what Engine.price does before simulating
      deepcopy / dill         the chain is replaced by its deepcopy / dill round trip (its own copy of grid, model and sampler;
                              dill is what the workers of the engines' pool receive)
      copy                    the chain is replaced by its copy.copy (sharing grid, model and sampler)
      reset-cost              proc.reset_one_simulation_cost() and the sampler's reset_sampling_cost()
      other-chain             a chain of the class for ANOTHER threshold (other grid object, same model object) is built, read
                              (intensity) and dropped in between
      sample                  the chain's sampler draws 16 states (global numpy generator seeded for the draw and restored;
                              the drawn values are not observed)"""
    if op == "second-chain-same-grid":
        return make_chain(grid), grid
    if op == "initialisation":
        proc.initialisation(product)
    elif op in COPIERS:
        proc = COPIERS[op](proc)
        grid = proc.grid
    elif op == "reset-cost":
        proc.reset_one_simulation_cost()
        proc.sampling.reset_sampling_cost()
    elif op == "other-chain":
        float(make_chain(make_other_grid()).intensity_of_jumps)
    elif op == "sample":
        state = np.random.get_state()
        try:
            np.random.seed(19)
            proc.sampling.sample(size=16)
        finally:
            np.random.set_state(state)
    else:
        raise ValueError(op)
    return proc, grid


# ----------------------------------------------------------------------------------------------------------------------
# one dimension
# ----------------------------------------------------------------------------------------------------------------------

def _cell(grid, st):
    """cell of the state at coordinate st, exactly as samplingfactory.probability_to_jump_to_state builds it"""
    val = grid[st]
    return grid.middle(grid.left_point(st), val), grid.middle(val, grid.right_point(st))


class _CallerArrayModified(Exception):
    """an entry point wrote into the arrays (times, path) the caller handed over"""


def _guarded(call, expo):
    """route: (times, log jump path) -> value; the callee gets exp(path) when `expo`; the arrays it gets are compared with
    copies taken before the call (the callee must not modify the caller's arrays)"""

    def fun(t, lp):
        x = np.exp(lp) if expo else lp
        t0, x0 = t.copy(), x.copy()
        out = call(t, x)
        if not (np.array_equal(t, t0) and np.array_equal(x, x0)):
            t[...] = t0  # (restored, so that the entries evaluated next on this path are judged on the path itself)
            x[...] = x0
            raise _CallerArrayModified()
        return out

    return fun


def _underlying_routes(make_und):
    """the ways a default time is obtained from ONE kind of underlying object: name -> callable(times, log jump path).
    Besides the two entry points on a fresh object: the object after Underlying.update(LOG) (what Product.update does for a
    log-represented process: `value` becomes `_value_log`), after update(LOG) then update(IDENDITY) (a product re-used with a
    process of the other representation), the deepcopy / copy.copy / dill round trip of an updated object (what the path
    managers / pool workers get; the original is switched back to IDENDITY after the copy was taken), and the engine's route
    Product.underlying_value (keyword arguments): fresh, after Product.update(LOG) on a deepcopy, and on the dill round trip of
    an updated product."""
    from rpylib.process.process import ProcessRepresentation as PR
    from rpylib.product.payoff import CDS
    from rpylib.product.product import Product

    u0 = make_und()
    u1 = make_und()
    u1.update(PR.LOG)
    u2 = make_und()
    u2.update(PR.LOG)
    u2.update(PR.IDENDITY)
    copies = {}
    for kind, copier in COPIERS.items():
        u = make_und()
        u.update(PR.LOG)
        copies[kind] = copier(u)
        if kind != "copy":  # (the shallow copy's `value` is the original's bound method: the original stays as it is)
            u.update(PR.IDENDITY)
    T = MATURITIES[0]
    p4 = Product(payoff_underlying=make_und(), maturity=T, notional=NOTIONAL,
                 payoff=CDS(recovery_rate=RECOVERIES[-1], spread=SPREADS[0], maturity=T, discounting=lambda t: math.exp(-0.02 * t)))
    p5 = copy.deepcopy(p4)
    p5.update(PR.LOG)
    p6 = _dill_round_trip(p5)
    return [("_value_log", _guarded(lambda t, x: u0._value_log(t, None, x), False)),
            ("value", _guarded(lambda t, x: u0.value(t, None, x), True)),
            ("update(LOG).value", _guarded(lambda t, x: u1.value(t, None, x), False)),
            ("update(LOG)+update(IDENDITY).value", _guarded(lambda t, x: u2.value(t, None, x), True)),
            ("update(LOG)+deepcopy.value", _guarded(lambda t, x: copies["deepcopy"].value(t, None, x), False)),
            ("Product.underlying_value", _guarded(lambda t, x: p4.underlying_value(times=t, path=x, jump_path=x), True)),
            ("Product.update(LOG).underlying_value", _guarded(lambda t, x: p5.underlying_value(times=t, path=x, jump_path=x), False)),
            ("update(LOG)+copy.value", _guarded(lambda t, x: copies["copy"].value(t, None, x), False)),
            ("update(LOG)+dill.value", _guarded(lambda t, x: copies["dill"].value(t, None, x), False)),
            ("Product.update(LOG)+dill.underlying_value", _guarded(lambda t, x: p6.underlying_value(times=t, path=x, jump_path=x), False))]


def _run_scripted(sh, obs, d, seqs, unds, full=None, scalar=False):
    """Scripted jump paths. seqs: sequences of jumps (each jump a d-vector of log jump sizes); unds: list of (class name, which
    (index of the default / of the name), thresholds (d floats), routes of _underlying_routes, key tag). Every entry is
    evaluated on every path through its first two routes, through the others on the paths made of jumps of `full` only (on
    every path when full is None). scalar: the class takes the 1-d path of the single name. Oracle (plain loop): time of the
    first jump STRICTLY below the threshold of the name; n-th smallest over the names for the n-th default."""
    thrs = []
    for u in unds:
        if list(u[2]) not in thrs:
            thrs.append(list(u[2]))
    for seq in seqs:
        n = len(seq)
        all_routes = full is None or all(c in full for c in seq)
        times = np.array([0.0] + [0.3 * (j + 1) for j in range(n)] + [0.3 * n + 0.5])
        jumps = np.array(seq, dtype=float).reshape(n, d).T if n else np.zeros((d, 0))  # (d, n)
        cum = np.cumsum(jumps, axis=1)
        logp = np.concatenate((np.zeros((d, 1)), cum, cum[:, -1:] if n else np.zeros((d, 1))), axis=1)
        firsts_of = {}
        for thr in thrs:
            if np.any(np.abs(jumps - np.array(thr)[:, None]) < 1e-9):
                continue  # log / exp round trip of `value` next to a threshold: outside the alphabet
            firsts = []
            for k in range(d):
                f = next((j for j in range(n) if jumps[k, j] < thr[k]), None)
                firsts.append(INF if f is None else float(times[f + 1]))
            firsts_of[tuple(thr)] = firsts
        for name, which, thr, routes, tag in unds:
            firsts = firsts_of.get(tuple(thr))
            if firsts is None:
                sh.count("excluded_jump_at_threshold")
                continue
            exp_ = sorted(firsts)[which - 1] if name == "NthDefaultTimes" else firsts[which - 1]
            entry_ok = True
            for k_route, (via, fun) in enumerate(routes if all_routes else routes[:2]):
                if k_route >= 2 and not entry_ok:
                    break  # wrong already on the fresh object: reported once, not once per route
                shown = jumps.tolist() if n <= 4 else f"{n} jumps, the last ones {jumps[:, -2:].tolist()}"
                try:
                    got = float(fun(times, logp[0] if scalar else logp))
                except _CallerArrayModified:
                    entry_ok = False
                    sh.violation(f"C19:default-time:{name}:caller-path-modified:via={via}{tag}",
                                 f"{name}({thr}, {which}).{via} wrote into the times / path arrays of its caller (jumps {shown})",
                                 {"a": thr, "which": which, "jumps": jumps[:, :8].tolist(), "n_jumps": n})
                    continue
                obs.add(got)
                sh.count("evaluations")
                sh.count("scripted_paths")
                if got != exp_:
                    entry_ok = False
                    sh.violation(f"C19:default-time:{name}:ne-first-jump-below-threshold:via={via}{tag}",
                                 f"{name}({thr}, {which}).{via} on jumps {shown} at times {times[:6].tolist()} = {got}, expected {exp_}",
                                 {"a": thr, "which": which, "jumps": jumps[:, :8].tolist(), "n_jumps": n, "times": times[:9].tolist(),
                                  "got": got, "expected": exp_})


def _scripted_default_times_1d(sh, obs, grid, a, o, thorough):
    from rpylib.product.underlying import DefaultTime

    ax = [float(x) for x in grid.axes[0]]
    states = [x for k, x in enumerate(ax) if k != o and abs(x - a) > 1e-9]
    # a second object of the class with another threshold (between the states a+eps and -h), used in between on every path
    a_b = 0.5 * (ax[2] + ax[3])
    unds = [("DefaultTime", 1, [a], _underlying_routes(lambda: DefaultTime(default_level=a)), ""),
            ("DefaultTime", 1, [a_b], _underlying_routes(lambda: DefaultTime(default_level=a_b))[:1], ":second-object")]
    seqs = [tuple((x,) for x in seq) for n in range(0, (3 if thorough else 2) + 1)  # n = 0: the path without any jump
            for seq in itertools.product(states, repeat=n)]
    _run_scripted(sh, obs, 1, seqs, unds, full=None, scalar=True)


def _one_dim(sh, case, obs):
    from rpylib.distribution.sampling import SamplingMethod
    from rpylib.distribution.samplingfactory import create_q_vector
    from rpylib.grid import spatial as S
    from rpylib.grid.grid import Coordinates
    from rpylib.numerical.closedform.cflevymodel import CFLevyModel
    from rpylib.process.markovchain.markovchain import MarkovChainProcess
    from rpylib.product.underlying import DefaultTime

    spec, h = case["model"], float(case["h"])
    thorough = os.environ.get("VERIF_TIER") == "thorough"
    icls = "d=1:" + _mclass(spec)
    model = A.make_model(spec)
    nu = model.levy_triplet.nu
    sh.cls("d=1")
    sh.cls(_activity_class(nu))
    sh.cls("exponential-model" if spec.get("exp") else "levy-model")
    r = float(spec["r"]) if spec.get("exp") else None
    l, rr = S.compute_truncation(model=model, h=h)
    l, rr = float(l), float(rr)
    cf = CFLevyModel(model)
    theta_of = {}
    lib_thetas = []
    deep_histories_at = None  # the chain histories of depth 2 are run at the first threshold inside the alphabet
    for i, fr in enumerate(FRACS):
        a = float(fr * l)
        if not (l < a < -h):
            sh.count("excluded_threshold_outside_(l,-h)")
            sh.cls("threshold-outside-(l,-h)-excluded")
            continue
        # ---------------------------------------------------------------- references (independent of the chain)
        q_all, e_all = O.integrate_density(nu, -INF, a)
        # ---------------------------------------------------------------- (ii) un-restricted closed form
        try:
            theta = float(cf._theta(a))
        except Exception as e:
            sh.violation(f"C19:theta:CFLevyModel:raises-{type(e).__name__}:{icls}", f"_theta({a}): {type(e).__name__}: {e}", {"a": a})
            continue
        obs.add(theta)
        sh.outcome(("theta", float(theta).hex()))
        theta_of[(i,)] = ((a,), theta)
        lib_thetas.append((a, theta))
        sh.count("evaluations")
        sh.nontriv()
        if e_all > 1e-9 * abs(q_all):
            sh.count("oracle_inconclusive")
        elif not core.close(theta, q_all, rtol=RTOL_Q):
            sh.violation(f"C19:theta:CFLevyModel:ne-union-mass:oracle=quadrature:{icls}",
                         f"_theta({a}) = {theta!r}, quadrature of the density over (-inf, a] = {q_all!r} (+-{e_all:.1e})",
                         {"a": a, "theta": theta, "quadrature": q_all, "err": e_all})
        # ---------------------------------------------------------------- (i) box intensity of the truncated model
        box_cache = {}

        def box_refs(tl, tr):
            """closed form of the model truncated to the grid's own truncation [tl, tr], checked against nu([tl, a])"""
            if (tl, tr) in box_cache:
                return box_cache[(tl, tr)]
            q_box, e_box = O.integrate_density(nu, tl, a)
            i_box = float(nu.integrate(tl, a))
            trunc = copy.deepcopy(model)
            trunc.truncate_levy_measure(truncations=(tl, tr))
            theta_box = float(CFLevyModel(trunc)._theta(a))
            obs.add(theta_box)
            sh.count("evaluations", 3)
            if not core.close(theta_box, i_box, rtol=RTOL):
                sh.violation(f"C19:box-rate:CFLevyModel:truncated-theta-ne-nu[l,a]:oracle=integrate:{icls}",
                             f"CFLevyModel(model truncated to [{tl},{tr}])._theta({a}) = {theta_box!r}, nu.integrate(l, a) = {i_box!r}",
                             {"a": a, "l": tl, "r": tr, "theta_box": theta_box, "nu[l,a]": i_box})
            conclusive = e_box <= 1e-9 * abs(q_box)
            if not conclusive:
                sh.count("oracle_inconclusive")
            elif not core.close(theta_box, q_box, rtol=RTOL_Q):
                sh.violation(f"C19:box-rate:CFLevyModel:truncated-theta-ne-nu[l,a]:oracle=quadrature:{icls}",
                             f"CFLevyModel(truncated)._theta({a}) = {theta_box!r}, quadrature of the density over [l, a] = {q_box!r}",
                             {"a": a, "l": tl, "theta_box": theta_box, "quadrature": q_box, "err": e_box})
            if theta - theta_box < -_ulps(theta, theta_box):
                sh.violation(f"C19:theta:CFLevyModel:below-box-intensity:{icls}",
                             f"theta({a}) = {theta!r} < intensity restricted to the box = {theta_box!r}",
                             {"a": a, "theta": theta, "theta_box": theta_box})
            box_cache[(tl, tr)] = (theta_box, q_box if conclusive else None)
            return box_cache[(tl, tr)]

        # ---------------------------------------------------------------- the chains on the credit grid
        for sym in (True, False):
            try:
                grid = S.CTMCCredit(h=h, level_a=a, model=model, symmetric_grid=sym)
                proc = MarkovChainProcess(model=model, method=SamplingMethod.INVERSION, grid=grid)
            except Exception as e:
                sh.violation(f"C19:box-rate:MarkovChainProcess:raises-{type(e).__name__}:{icls}",
                             f"building the chain on CTMCCredit(h={h}, a={a}): {type(e).__name__}: {e}", {"a": a, "h": h, "symmetric": sym})
                continue
            ax = [float(x) for x in grid.axes[0]]
            o = int(getattr(grid.origin_coordinate, "value", 4))
            sh.cls("eps-bound-by-left-truncation" if abs(l - a) < abs(a + h) else "eps-bound-by-central-cell")
            # pre-condition: threshold on the boundary between the two states around it
            below = max(k for k, x in enumerate(ax) if x < a)
            mid = float(grid.middle(ax[below], ax[below + 1]))
            sh.count("evaluations")
            if abs(mid - a) > _ulps(a):
                sh.violation(f"C19:grid:CTMCCredit:threshold-not-on-cell-boundary:{icls}",
                             f"middle({ax[below]}, {ax[below + 1]}) = {mid!r}, threshold {a!r}", {"a": a, "axis": ax})
            tl, tr = (float(x) for x in grid.truncations[0])  # the box of the oracle is the grid's own truncation
            if not all(x < y for x, y in zip(ax, ax[1:])):
                sh.violation("C19:grid:CTMCCredit:axis-not-increasing:d=1",
                             f"CTMCCredit(h={h}, level_a={a}) axis = {ax} is not increasing", {"a": a, "h": h, "axis": ax, "model": icls})
                sh.count("skipped_malformed_grid")
                continue
            try:
                theta_box, q_box = box_refs(tl, tr)
            except Exception as e:
                sh.violation(f"C19:box-rate:CFLevyModel:raises-{type(e).__name__}:{icls}", f"truncated _theta({a}): {type(e).__name__}: {e}", {"a": a})
                continue
            und = DefaultTime(default_level=a)

            def chain_sums(proc, grid, judge_underlying=False):
                """the three notions of 'total rate of the states below the threshold' of one chain object"""
                q_vec = create_q_vector(proc.model.levy_triplet.nu, grid)
                closure = getattr(proc.sampling, "probability_to_jump_to_state", None)
                lam = float(proc.intensity_of_jumps)
                sums = {"mass": 0.0, "q-vector": 0.0}
                if closure is not None:
                    sums["sampler"] = 0.0
                n_default = 0
                for k, x in enumerate(float(y) for y in grid.axes[0]):
                    if k == o:
                        continue
                    if judge_underlying:
                        fires = float(und._value_log(np.array([0.0, 1.0]), None, np.array([0.0, x]))) == 1.0
                        if fires != (x < a):
                            sh.violation("C19:default-time:DefaultTime:ne-first-jump-below-threshold:via=_value_log",
                                         f"single jump {x} with threshold {a}: default fired = {fires}", {"a": a, "jump": x})
                    if not x < a:
                        continue
                    n_default += 1
                    lo, hi = _cell(grid, Coordinates(k))
                    sums["mass"] += float(proc.model.mass(lo, hi))
                    sums["q-vector"] += float(q_vec[k])
                    if closure is not None:
                        sums["sampler"] += float(closure(k - o)) * lam
                return sums, n_default

            def judge_sums(sums, n_default, hist):
                after = f":after={_hist_label(hist)}" if hist else ""
                ok = True
                for via, tot in sums.items():
                    obs.add(tot)
                    sh.count("evaluations")
                    sh.count("box_rate_comparisons")
                    if not core.close(tot, theta_box, rtol=RTOL):
                        ok = False
                        sh.violation(f"C19:box-rate:MarkovChainProcess:default-rate-ne-box-intensity:via={via}:{icls}{after}",
                                     f"sum of rates of the {n_default} states below a={a} = {tot!r}, closed form of the truncated model = {theta_box!r} "
                                     f"(axis {ax}, history [{_hist_label(hist)}])",
                                     {"a": a, "h": h, "symmetric": sym, "axis": ax, "rate": tot, "theta_box": theta_box, "via": via,
                                      "history": list(hist)})
                    if q_box is not None and not core.close(tot, q_box, rtol=RTOL_Q):
                        ok = False
                        sh.violation(f"C19:box-rate:MarkovChainProcess:default-rate-ne-quadrature-of-density:via={via}:{icls}{after}",
                                     f"sum of rates of the states below a={a} = {tot!r}, quadrature of nu over [l, a] = {q_box!r} "
                                     f"(history [{_hist_label(hist)}])",
                                     {"a": a, "h": h, "symmetric": sym, "axis": ax, "rate": tot, "quadrature": q_box, "via": via,
                                      "history": list(hist)})
                return ok

            try:
                sums, n_default = chain_sums(proc, grid, judge_underlying=True)
            except Exception as e:  # the library raising on a well-formed credit grid
                sh.violation(f"C19:box-rate:MarkovChainProcess:raises-{type(e).__name__}:{icls}",
                             f"rates of the states of the chain on CTMCCredit(h={h}, a={a}): {type(e).__name__}: {e}", {"a": a, "h": h, "axis": ax})
                continue
            sh.count("default_states", n_default)
            sh.outcome(("box", float(sums["mass"]).hex()))
            fresh_ok = judge_sums(sums, n_default, ())
            if not fresh_ok:  # a chain that is wrong when fresh is reported once, not once per history
                sh.count("histories_skipped_fresh_object_wrong")
            # ------------------------------------------------------------ histories on the ONE chain / grid / model just used
            a_oth = float(_other(FRACS, fr) * l)
            for hist in (_histories(CHAIN_OPS, 2 if (sym and deep_histories_at in (None, a)) else 1)[1:] if fresh_ok else []):
                deep_histories_at = a if sym else deep_histories_at
                try:
                    g = S.CTMCCredit(h=h, level_a=a, model=model, symmetric_grid=sym)
                    pr = MarkovChainProcess(model=model, method=SamplingMethod.INVERSION, grid=g)
                    for op in hist:
                        chain_sums(pr, g)  # the chain is read before every operation
                        pr, g = _chain_op(op, pr, g, lambda grid_: MarkovChainProcess(model=model, method=SamplingMethod.INVERSION, grid=grid_),
                                          lambda: S.CTMCCredit(h=h, level_a=a_oth, model=model, symmetric_grid=sym)
                                          if l < a_oth < -h else S.CTMCCredit(h=h, level_a=a, model=model, symmetric_grid=sym),
                                          _credit_product(model, a, is_copula=False))
                    sh.cls("chain-history-depth-" + str(len(hist)))
                    s2, n2 = chain_sums(pr, g)
                    sh.count("evaluations")
                    if n2 != n_default or [float(x) for x in g.axes[0]] != ax:
                        sh.violation(f"C19:history:CTMCCredit:states-changed:after={_hist_label(hist)}:d=1",
                                     f"after [{_hist_label(hist)}] the axis is {[float(x) for x in g.axes[0]]}, it was {ax}",
                                     {"a": a, "h": h, "history": list(hist), "model": icls})
                        continue
                    judge_sums(s2, n2, hist)
                except Exception as e:
                    sh.violation(f"C19:history:MarkovChainProcess:raises-{type(e).__name__}:after={_hist_label(hist)}:{icls}",
                                 f"{type(e).__name__}: {e} (history [{_hist_label(hist)}] on CTMCCredit(h={h}, a={a}, symmetric={sym}))",
                                 {"a": a, "h": h, "history": list(hist)})
            if sym:
                _scripted_default_times_1d(sh, obs, grid, a, o, thorough)
            sh.sample({"sub": "one-dim", "model": A.model_label(spec), "h": h, "a": a, "axis": ax, "default_rate": sums["mass"],
                       "theta_box": theta_box, "theta": theta})
        # ---------------------------------------------------------------- (iv)
        try:
            _check_formulas(sh, obs, "CFLevyModel", icls, cf, a, theta, r, is_copula=False)
            for R in RECOVERIES:
                s0 = float(cf.cds_spread(level_a=a, recovery_rate=R))
                for h0 in (h, 1e-6):
                    a_imp = float(cf.implied_cds_threshold(cds_spread=s0, recovery_rate=R, h0=h0))
                    obs.add(a_imp)
                    sh.count("evaluations")
                    if not core.close(a_imp, a, rtol=0.0, atol=1e-10):
                        sh.violation(f"C19:formula:CFLevyModel.implied_cds_threshold:not-inverse-of-cds_spread:{icls}",
                                     f"implied_cds_threshold(cds_spread({a}), R={R}, h0={h0}) = {a_imp!r}", {"a": a, "R": R, "h0": h0, "got": a_imp})
        except Exception as e:
            sh.violation(f"C19:formula:CFLevyModel:raises-{type(e).__name__}:{icls}", f"{type(e).__name__}: {e}", {"a": a})
    # -------------------------------------------------------------------- spread -> threshold -> spread
    h0 = 1e-6
    for R, s in itertools.product(RECOVERIES, SPREADS):
        try:
            lo_s = float(cf.cds_spread(level_a=-10.0, recovery_rate=R))
            hi_s = float(cf.cds_spread(level_a=-h0, recovery_rate=R))
            if not (lo_s < s < hi_s):
                sh.count("excluded_spread_not_attainable")
                sh.cls("spread-not-attainable-excluded")
                continue
            a_s = float(cf.implied_cds_threshold(cds_spread=s, recovery_rate=R, h0=h0))
            obs.add(a_s)
            dlt = 1e-10
            s_lo = float(cf.cds_spread(level_a=a_s - dlt, recovery_rate=R))
            s_hi = float(cf.cds_spread(level_a=a_s + dlt, recovery_rate=R))
            sh.count("evaluations")
            sh.outcome(("implied-threshold", float(a_s).hex()))
            if not (s_lo - _ulps(s) <= s <= s_hi + _ulps(s)) or not (-10.0 <= a_s <= -h0):
                sh.violation(f"C19:formula:CFLevyModel.implied_cds_threshold:spread-not-reproduced:{icls}",
                             f"a* = implied_cds_threshold({s}, R={R}) = {a_s!r}; cds_spread(a* -+ 1e-10) = [{s_lo!r}, {s_hi!r}] does not bracket {s}",
                             {"spread": s, "R": R, "a_star": a_s, "bracket": [s_lo, s_hi]})
        except Exception as e:
            sh.violation(f"C19:formula:CFLevyModel.implied_cds_threshold:raises-{type(e).__name__}:{icls}", f"{type(e).__name__}: {e}",
                         {"spread": s, "R": R})
    _check_monotone(sh, "CFLevyModel", icls, 1, theta_of)
    # -------------------------------------------------------------------- histories on one pricer object
    if lib_thetas:
        try:
            model2 = A.make_model(_other_model_spec(spec))
            a_list = [a for a, _ in lib_thetas]
            expected = [[float(m.levy_triplet.nu.integrate(-INF, a)) for a in a_list] for m in (model, model2)]
        except Exception as e:
            sh.violation(f"C19:history:CFLevyModel:raises-{type(e).__name__}:{icls}", f"references: {type(e).__name__}: {e}", None)
        else:
            fresh_ok = True
            for (a, theta), ref in zip(lib_thetas, expected[0]):  # the reference of the held model is the one (ii) judged
                sh.count("evaluations")
                if not core.close(theta, ref, rtol=RTOL):
                    fresh_ok = False
                    sh.violation(f"C19:theta:CFLevyModel:ne-union-mass:oracle=integrate:{icls}",
                                 f"_theta({a}) = {theta!r}, nu.integrate(-inf, a) = {ref!r}", {"a": a, "theta": theta, "integrate": ref})
            if fresh_ok:  # a pricer that is wrong when fresh is reported once, not once per history
                _pricer_histories(sh, obs, "CFLevyModel", icls, "model", CFLevyModel, [model, model2], expected, a_list, r, False)
            else:
                sh.count("histories_skipped_fresh_object_wrong")
    # -------------------------------------------------------------------- (v)
    if r is not None and lib_thetas:
        _check_cds_payoff(sh, obs, model.df, r, icls, lib_thetas,
                          lambda pv, a, R, T: cf.implied_cds_spread(pv=pv, level_a=a, recovery_rate=R, maturity=T))
    elif r is None:
        sh.count("excluded_no_interest_rate")


# ----------------------------------------------------------------------------------------------------------------------
# copulas: closed forms
# ----------------------------------------------------------------------------------------------------------------------

def _ie(d, term):
    """inclusion-exclusion over the non-empty subsets I of range(d); term(I) = mass of the intersection"""
    tot, sabs = 0.0, 0.0
    for n in range(1, d + 1):
        for I in itertools.combinations(range(d), n):
            v = float(term(I))
            tot += v if n % 2 else -v
            sabs += abs(v)
    return tot, sabs


def _box_intensity_ref(copula, nus, box, a):
    d = len(a)
    lo = [box[k][0] for k in range(d)]
    return _ie(d, lambda I: O.ref_rectangle_mass(copula, nus, lo, [a[k] if k in I else box[k][1] for k in range(d)]))


def _union_mass_ref(copula, nus, a):
    d = len(a)
    return _ie(d, lambda I: O.ref_rectangle_mass(copula, nus, [-INF] * d, [a[k] if k in I else INF for k in range(d)]))


def _union_mass_lib(model, a):
    d = len(a)
    return _ie(d, lambda I: model._mass_nd([-INF] * d, [a[k] if k in I else INF for k in range(d)]))


def _cf_copula(sh, case, obs):
    from rpylib.grid import spatial as S
    from rpylib.numerical.closedform.cflevycopula import CFLevyCopulaModel

    spec, h = case["model"], float(case["h"])
    icls = _cclass(spec)
    model = _make_copula_model(spec)
    d = model.dimension()
    nus = [m.levy_triplet.nu for m in model.models]
    sh.cls(f"d={d}")
    sh.cls("copula-" + spec["copula"]["kind"])
    sh.cls("exponential-model" if spec.get("exp") else "levy-model")
    for nu in nus:
        sh.cls(_activity_class(nu))
    r = 0.02 if spec.get("exp") else None
    l, rr = (float(x) for x in S.compute_truncation(model=model, h=h))
    box = [(l, rr)] * d
    cf = CFLevyCopulaModel(model)
    theta_of = {}
    lib_thetas = []
    for idx in itertools.product(range(len(FRACS)), repeat=d):
        a = tuple(float(FRACS[i] * l) for i in idx)
        if not all(l < x < -h for x in a):
            sh.count("excluded_threshold_outside_(l,-h)")
            continue
        try:
            theta = float(cf._theta(list(a)))
        except Exception as e:
            sh.violation(f"C19:theta:CFLevyCopulaModel:raises-{type(e).__name__}:{icls}", f"_theta({a}): {type(e).__name__}: {e}", {"a": a})
            continue
        obs.add(theta)
        sh.outcome(("theta", float(theta).hex()))
        theta_of[idx] = (a, theta)
        if len(set(idx)) == d or len(set(idx)) == 1:
            lib_thetas.append((a, theta))
        sh.nontriv()
        ref, sabs = _union_mass_ref(model.copula, nus, a)
        sh.count("evaluations")
        if not core.close(theta, ref, rtol=RTOL, scale=sabs):
            sh.violation(f"C19:theta:CFLevyCopulaModel:ne-union-mass:oracle=ref-rectangle:{icls}",
                         f"_theta({a}) = {theta!r}, inclusion-exclusion of the reference rectangle mass over the half-spaces = {ref!r}",
                         {"a": a, "theta": theta, "reference": ref})
        try:
            lib, sabs2 = _union_mass_lib(model, a)
            obs.add(lib)
            sh.count("evaluations")
            if not core.close(theta, lib, rtol=RTOL, scale=sabs2):
                sh.violation(f"C19:theta:CFLevyCopulaModel:ne-union-mass:oracle=mass_nd:{icls}",
                             f"_theta({a}) = {theta!r}, inclusion-exclusion of model._mass_nd over the half-spaces = {lib!r}",
                             {"a": a, "theta": theta, "mass_nd": lib})
        except Exception as e:
            sh.violation(f"C19:theta:LevyCopulaModel._mass_nd:raises-{type(e).__name__}:{icls}", f"half-space rectangles for {a}: {type(e).__name__}: {e}", {"a": a})
        tbox, sabs3 = _box_intensity_ref(model.copula, nus, box, a)
        sh.count("evaluations")
        if theta - tbox < -RTOL * sabs3:
            sh.violation(f"C19:theta:CFLevyCopulaModel:below-box-intensity:{icls}",
                         f"theta({a}) = {theta!r} < intensity restricted to the box [{l},{rr}]^d = {tbox!r}", {"a": a, "theta": theta, "theta_box": tbox})
        sh.cls("default-mass-outside-box>0" if theta > tbox else "default-mass-outside-box=0")
        if (a, theta) in lib_thetas:
            try:
                _check_formulas(sh, obs, "CFLevyCopulaModel", icls, cf, a, theta, r, is_copula=True)
            except Exception as e:
                sh.violation(f"C19:formula:CFLevyCopulaModel:raises-{type(e).__name__}:{icls}", f"{type(e).__name__}: {e}", {"a": a})
    _check_monotone(sh, "CFLevyCopulaModel", icls, d, theta_of)
    if lib_thetas:
        try:
            model2 = _make_copula_model(spec, reverse=True)
            nus2 = [m.levy_triplet.nu for m in model2.models]
            a_list = [a for a, _ in lib_thetas[:2]]
            refs = [[_union_mass_ref(m.copula, n, a) for a in a_list] for m, n in ((model, nus), (model2, nus2))]
            expected = [[x[0] for x in row] for row in refs]
            scales = [[x[1] for x in row] for row in refs]
        except Exception as e:
            sh.violation(f"C19:history:CFLevyCopulaModel:raises-{type(e).__name__}:{icls}", f"references: {type(e).__name__}: {e}", None)
        else:
            if all(core.close(th, ref_, rtol=RTOL, scale=sc) for (_, th), ref_, sc in zip(lib_thetas[:2], expected[0], scales[0])):
                _pricer_histories(sh, obs, "CFLevyCopulaModel", icls, "levy_copula_model", CFLevyCopulaModel, [model, model2], expected,
                                  a_list, r, True, scales)
            else:  # a pricer that is wrong when fresh was reported by (ii): once, not once per history
                sh.count("histories_skipped_fresh_object_wrong")
    if r is not None and lib_thetas:
        _check_cds_payoff(sh, obs, model.df, r, icls, lib_thetas[:2],
                          lambda pv, a, R, T: cf.implied_cds_spread(pv=pv, level_a=list(a), recovery_rate=R, maturity=T))
    if theta_of:
        a0, t0 = theta_of[min(theta_of)]
        sh.sample({"sub": "cf-copula", "model": icls, "h": h, "a": a0, "theta": t0})


# ----------------------------------------------------------------------------------------------------------------------
# copulas: the chain on the credit grid
# ----------------------------------------------------------------------------------------------------------------------

def _scripted_default_times_nd(sh, obs, grid, a, d):
    from rpylib.product.underlying import DefaultTimeNthUnderlying, NthDefaultTimes

    a = [float(x) for x in a]
    a_rev = a[::-1]
    o = [int(c) for c in grid.origin_coordinate]
    axes = [[float(x) for x in ax] for ax in grid.axes]
    # (name, index, thresholds, routes, tag). The last objects of each class carry OTHER thresholds (the reversed tuple) and are
    # used in between on every path: a leak of one object's thresholds into another object of the class shows on either
    unds = [("NthDefaultTimes", n, a, _underlying_routes(lambda: NthDefaultTimes(default_levels=list(a), index=n)), "") for n in range(1, d + 1)]
    unds += [("DefaultTimeNthUnderlying", k, a, _underlying_routes(lambda: DefaultTimeNthUnderlying(default_levels=list(a), underlying_index=k)), "")
             for k in range(1, d + 1)]
    if a_rev != a:
        unds.append(("NthDefaultTimes", 1, a_rev, _underlying_routes(lambda: NthDefaultTimes(default_levels=list(a_rev), index=1))[:1],
                     ":second-object"))
        unds.append(("DefaultTimeNthUnderlying", 1, a_rev,
                     _underlying_routes(lambda: DefaultTimeNthUnderlying(default_levels=list(a_rev), underlying_index=1))[:1], ":second-object"))
    # menu: the path without any jump; every chain state as a single jump; every ordered pair of "corner" states (each
    # coordinate just below / just above its threshold, or no move)
    singles = [tuple(axes[k][i] for k, i in enumerate(idx)) for idx in itertools.product(*[range(len(ax)) for ax in axes])
               if list(idx) != o]
    corner_axis = []
    for k in range(d):
        below = max(x for x in axes[k] if x < a[k])
        above = min(x for x in axes[k] if x > a[k])
        corner_axis.append([below, above, 0.0])
    corners = [c for c in itertools.product(*corner_axis) if any(x != 0.0 for x in c)]
    seqs = [()] + [(s,) for s in singles] + list(itertools.product(corners, repeat=2))
    # the routes through update() / copies / Product concern the state of the underlying object, not the path: they are
    # evaluated on the sequences of at most two "full corner" jumps (every coordinate just below or just above its threshold)
    full = set(c for c in corners if all(x != 0.0 for x in c))
    _run_scripted(sh, obs, d, seqs, unds, full=full)


def _chain_default_sums(proc, grid, a, o):
    """the notions of 'total rate of the states with a coordinate below its threshold' of one copula chain object on its credit
    grid (o = origin coordinate as a tuple): {"mass": sum of chain.model.mass(cell), "sampler": sum of the sampler's own
    probability * intensity}, number of default states, axes"""
    from rpylib.grid.grid import Coordinates

    axes_ = [[float(x) for x in ax] for ax in grid.axes]
    lam = float(proc.intensity_of_jumps)
    samp = proc.sampling
    closure = getattr(samp, "probability_to_jump_to_state", None)
    bucket_p = getattr(samp, "_compute_probability", None)
    lam_s = float(getattr(samp, "intensity_of_jumps", lam))
    sums = {"mass": 0.0}
    if closure is not None or bucket_p is not None:
        sums["sampler"] = 0.0
    n_default = 0
    for idx in itertools.product(*[range(len(ax)) for ax in axes_]):
        if idx == o:
            continue
        if not any(axes_[k][i] < a[k] for k, i in enumerate(idx)):
            continue
        n_default += 1
        lo, hi = _cell(grid, Coordinates(idx))
        sums["mass"] += float(proc.model.mass(lo, hi))
        if closure is not None:
            sums["sampler"] += float(closure(tuple(i - c for i, c in zip(idx, o)))) * lam
        elif bucket_p is not None:
            sums["sampler"] += float(bucket_p(tuple(lo), tuple(hi))) * lam_s
    return sums, n_default, axes_


def _chain_copula(sh, case, obs):
    from rpylib.distribution.sampling import SamplingMethod
    from rpylib.grid import spatial as S
    from rpylib.grid.grid import Coordinates
    from rpylib.process.markovchain.markovchainlevycopula import MarkovChainLevyCopula

    spec, h, sym = case["model"], float(case["h"]), bool(case["symmetric"])
    icls = _cclass(spec) + (":sym" if sym else ":asym")
    comp = "MarkovChainLevyCopula"
    model = _make_copula_model(spec)
    d = model.dimension()
    nus = [m.levy_triplet.nu for m in model.models]
    l, rr = (float(x) for x in S.compute_truncation(model=model, h=h))
    a = [float(f * l) for f in case["fracs"]]
    if not all(l < x < -h for x in a):
        sh.count("excluded_threshold_outside_(l,-h)")
        sh.outcome("excluded")
        return
    sh.cls(f"d={d}")
    sh.cls("credit-symmetric" if sym else "credit-asymmetric")
    sh.cls("copula-" + spec["copula"]["kind"])
    for nu in nus:
        sh.cls(_activity_class(nu))
    method = SamplingMethod.INVERSION if sym else SamplingMethod.BINARYSEARCHTREEADAPTED
    sh.cls("sampler-" + method.name)
    try:
        grid = S.CTMCCredit(h=h, level_a=list(a), model=model, symmetric_grid=sym)
        with _no_vol_adjustment_pool():
            proc = MarkovChainLevyCopula(levy_copula_model=model, grid=grid, method=method)
    except Exception as e:
        sh.violation(f"C19:box-rate:{comp}:raises-{type(e).__name__}:{icls}",
                     f"building the chain on CTMCCredit(h={h}, a={a}, symmetric={sym}): {type(e).__name__}: {e}", {"a": a})
        return
    axes = [[float(x) for x in ax] for ax in grid.axes]
    o = tuple(int(c) for c in grid.origin_coordinate)
    box = [(float(t[0]), float(t[1])) for t in grid.truncations]
    # pre-condition of everything below: the axes are increasing (cells lo < hi). The thresholds are inside (l, -h), so a
    # failure here is the constructor's (the mirrored states of the symmetric grid are not confined to the right truncation)
    malformed = False
    for k in range(d):
        bad = [i for i in range(len(axes[k]) - 1) if not axes[k][i] < axes[k][i + 1]]
        sh.count("evaluations")
        if bad:
            malformed = True
            side = "mirror-states-beyond-right-truncation" if axes[k][bad[0]] > 0 else "negative-side"
            sh.violation(f"C19:grid:CTMCCredit:axis-not-increasing:{side}:{'sym' if sym else 'asym'}",
                         f"CTMCCredit(h={h}, level_a={a}, symmetric_grid={sym}) axis {k} = {axes[k]} is not increasing "
                         f"(compute_truncation = ({l}, {rr}))", {"a": a, "h": h, "axis": axes[k], "l": l, "r": rr, "model": icls})
    if malformed:
        sh.count("skipped_malformed_grid")
        sh.outcome("malformed-grid")
        return
    for k in range(d):
        sh.cls("eps-bound-by-left-truncation" if abs(box[k][0] - a[k]) < abs(a[k] + h) else "eps-bound-by-central-cell")
        below = max(i for i, x in enumerate(axes[k]) if x < a[k])
        mid = float(grid.middle(axes[k][below], axes[k][below + 1]))
        sh.count("evaluations")
        if abs(mid - a[k]) > _ulps(a[k]):
            sh.violation(f"C19:grid:CTMCCredit:threshold-not-on-cell-boundary:{icls}",
                         f"axis {k}: middle({axes[k][below]}, {axes[k][below + 1]}) = {mid!r}, threshold {a[k]!r}", {"a": a, "axis": axes[k]})
    # ------------------------------------------------------------------------ (i)
    def chain_sums(proc, grid):
        return _chain_default_sums(proc, grid, a, o)

    try:
        sums, n_default, _ = chain_sums(proc, grid)
    except Exception as e:  # the library raising on a well-formed credit grid
        sh.violation(f"C19:box-rate:{comp}:raises-{type(e).__name__}:{icls}",
                     f"rates of the states of the chain on CTMCCredit(h={h}, a={a}, symmetric={sym}): {type(e).__name__}: {e}", {"a": a, "h": h})
        return
    sh.count("default_states", n_default)
    ref, sabs = _box_intensity_ref(model.copula, nus, box, a)
    sh.nontriv()
    sh.outcome(("box", float(sums["mass"]).hex()))

    def judge_sums(sums, n_default, hist):
        after = f":after={_hist_label(hist)}" if hist else ""
        ok = True
        for via, tot in sums.items():
            obs.add(tot)
            sh.count("evaluations")
            sh.count("box_rate_comparisons")
            if not core.close(tot, ref, rtol=RTOL, scale=sabs):
                ok = False
                sh.violation(f"C19:box-rate:{comp}:default-rate-ne-box-intensity:via={via}:{icls}{after}",
                             f"sum of rates of the {n_default} default states = {tot!r}, inclusion-exclusion of the joint measure on the box = {ref!r} "
                             f"(a={a}, h={h}, history [{_hist_label(hist)}])",
                             {"a": a, "h": h, "symmetric": sym, "axes": axes, "rate": tot, "box_intensity": ref, "via": via, "history": list(hist)})
        return ok

    fresh_ok = judge_sums(sums, n_default, ())
    if not fresh_ok:  # a chain that is wrong when fresh is reported once, not once per history
        sh.count("histories_skipped_fresh_object_wrong")
    # ------------------------------------------------------------------------ one cumulative history on the chain / grid / model just used:
    # the operations of CHAIN_OPS one after another, the rates re-read after each
    # (object state does not depend on where the thresholds are: the unequal threshold tuple of each model / h / grid shape)
    if fresh_ok and case["fracs"] == FRACS[::-1][:d]:
        a_oth = list(a)[::-1]
        g, pr = grid, proc  # the chain read above; the operations accumulate on it in the order of the menu
        for n_ops in range(1, len(CHAIN_OPS) + 1):
            hist = CHAIN_OPS[:n_ops]
            try:
                with _no_vol_adjustment_pool():
                    for op in hist[-1:]:
                        pr, g = _chain_op(op, pr, g, lambda grid_: MarkovChainLevyCopula(levy_copula_model=model, grid=grid_, method=method),
                                          lambda: S.CTMCCredit(h=h, level_a=a_oth, model=model, symmetric_grid=sym),
                                          _credit_product(model, a, is_copula=True))
                sh.cls("chain-history-depth-" + str(len(hist)))
                s2, n2, axes2 = chain_sums(pr, g)
                sh.count("evaluations")
                if n2 != n_default or axes2 != axes:
                    sh.violation(f"C19:history:CTMCCredit:states-changed:after={_hist_label(hist)}:d={d}",
                                 f"after [{_hist_label(hist)}] the axes are {axes2}, they were {axes}", {"a": a, "h": h, "history": list(hist), "model": icls})
                    continue
                if not judge_sums(s2, n2, hist):
                    break  # the later operations would repeat the same finding
            except Exception as e:
                sh.violation(f"C19:history:{comp}:raises-{type(e).__name__}:after={_hist_label(hist)}:{icls}",
                             f"{type(e).__name__}: {e} (history [{_hist_label(hist)}] on CTMCCredit(h={h}, a={a}, symmetric={sym}))",
                             {"a": a, "h": h, "history": list(hist)})
    sh.sample({"sub": "chain-copula", "model": icls, "h": h, "a": a, "default_states": n_default, "default_rate": sums["mass"],
               "box_intensity": ref})
    # ------------------------------------------------------------------------ the default region is the underlyings' rule
    # (the underlyings see only the thresholds and the states: one copula per margins / h / grid shape is the whole space)
    if spec["copula"]["kind"] == "independent" and case["fracs"] in (FRACS[:d], FRACS[::-1][:d]):
        _scripted_default_times_nd(sh, obs, grid, a, d)


# ----------------------------------------------------------------------------------------------------------------------
# argument forms: the same thresholds / numbers in every legal form; the caller's containers before and after
# ----------------------------------------------------------------------------------------------------------------------

VECTOR_FORMS = ("list", "tuple", "list-of-np.float64", "float64-array", "int-list", "int64-array")
PRICER_VECTOR_FORMS = ("list", "tuple", "list-of-np.float64", "float64-array")  # compared with a fresh list per call
SCALAR_FORMS = ("float", "np.float64", "0-d-array", "int", "np.int64")
MUTABLE_FORMS = ("list", "list-of-np.float64", "float64-array", "int-list", "int64-array")
FORM_RTOL = 16 * np.finfo(float).eps  # a vectorised and a scalar evaluation of the same expression
BRENTQ_ATOL = 1e-11  # roots of the same function from the same bracket: a few times brentq's default xtol (2e-12)


def _container(form, values):
    """the numbers `values` as the caller's container of that form"""
    if form == "list":
        return [float(x) for x in values]
    if form == "tuple":
        return tuple(float(x) for x in values)
    if form == "list-of-np.float64":
        return [np.float64(x) for x in values]
    if form == "float64-array":
        return np.array([float(x) for x in values], dtype=np.float64)
    if form == "int-list":
        return [int(x) for x in values]
    if form == "int64-array":
        return np.array([int(x) for x in values], dtype=np.int64)
    raise ValueError(form)


def _refill(form, buf, values):
    """the caller writes other numbers into ITS container (in place where the form is mutable, else a new object)"""
    if form not in MUTABLE_FORMS:
        return _container(form, values)
    buf[:] = _container(form, values)
    return buf


def _scalar(form, x):
    if form == "float":
        return float(x)
    if form == "np.float64":
        return np.float64(x)
    if form == "0-d-array":
        return np.array(float(x))
    if form == "int":
        return int(x)
    if form == "np.int64":
        return np.int64(x)
    raise ValueError(form)


def _snapshot(buf):
    """type, dtype and content of a caller's container"""
    if isinstance(buf, np.ndarray):
        return ("ndarray", str(buf.dtype), buf.shape, [float(x) for x in np.ravel(buf)])
    if isinstance(buf, (list, tuple)):
        return (type(buf).__name__, [(type(x).__name__, float(x)) for x in buf])
    return (type(buf).__name__, float(buf))


def _ladder(d, integer):
    """threshold vectors of d names: a base, a lower rung, all names tied, the names in reversed order. With the corner jumps
    1.25 a (below) / 0.75 a (above) of a rung, every other rung and the poison (-7) time at least one path differently."""
    base = [-2.0, -4.0, -3.0][:d] if integer else [-0.20, -0.30, -0.25][:d]
    lower = [-3.0, -6.0, -5.0][:d] if integer else [1.5 * x for x in base]
    rungs = [base, lower, [-1.0 if integer else -0.12] * d, base[::-1]]
    out = []
    for r in rungs:
        if r not in out:
            out.append(r)
    return out


def _corner_seqs(thr):
    """path menu built from the thresholds alone: no jump; every single jump of {1.25 a_k, 0.75 a_k, 0}^d; every ordered pair of
    full corners; one path of 257 jumps (beyond 256) hovering above the thresholds whose LAST jump takes every name below"""
    d = len(thr)
    corners = [c for c in itertools.product(*[[1.25 * a, 0.75 * a, 0.0] for a in thr]) if any(x != 0.0 for x in c)]
    full = [c for c in corners if all(x != 0.0 for x in c)]
    above = tuple(0.75 * a for a in thr)
    back = tuple(-x for x in above)
    below = tuple(1.25 * a for a in thr)
    seqs = [()] + [(c,) for c in corners] + list(itertools.product(full, repeat=2)) + [tuple([above, back] * 128 + [below])]
    return seqs, set(full) | {back}


def _und_classes(d):
    from rpylib.product.underlying import DefaultTimeNthUnderlying, NthDefaultTimes

    out = [("NthDefaultTimes", n, (lambda levels, n=n: NthDefaultTimes(default_levels=levels, index=n))) for n in range(1, d + 1)]
    out += [("DefaultTimeNthUnderlying", k, (lambda levels, k=k: DefaultTimeNthUnderlying(default_levels=levels, underlying_index=k)))
            for k in range(1, d + 1)]
    return out


def _forms_underlying(sh, case, obs):
    """Every default-time class that takes a threshold vector, thresholds handed over in the case's form. The caller keeps ONE
    container (where the form is mutable), fills it for every rung of a ladder, builds the underlyings of the rung from it
    (through every route of _underlying_routes), and finally overwrites it with yet other thresholds; only then are the
    underlyings evaluated, each against the thresholds it was BUILT with (array-like terms are taken at construction). The
    underlyings of every second rung are also used once before the container is refilled. The container is compared with a
    snapshot after construction and after use (the callee must not write into it)."""
    d, form = int(case["d"]), case["form"]
    integer = form.startswith("int")
    mutable = form in MUTABLE_FORMS
    tag = f":form={form}" + (":caller-refilled-its-container-afterwards" if mutable else "")
    sh.cls(f"names={d}")
    sh.cls("form-" + form)
    rungs = _ladder(d, integer)
    t0 = np.array([0.0, 0.5])
    p0 = np.zeros((d, 2))
    buf = _container(form, rungs[0])
    built = []
    for i, rung in enumerate(rungs):
        if i:
            buf = _refill(form, buf, rung)
        snap = _snapshot(buf)
        unds = []
        for name, which, make in _und_classes(d):
            try:
                unds.append((name, which, [float(x) for x in rung], _underlying_routes(lambda: make(buf)), tag))
            except Exception as e:
                sh.violation(f"C19:forms:{name}:raises-{type(e).__name__}:form={form}", f"{name}({buf!r}, {which}): {type(e).__name__}: {e}",
                             {"levels": [float(x) for x in rung], "form": form})
        if i % 2:  # used before the caller refills its container: the path without any jump
            for name, which, thr, routes, _ in unds:
                got = float(routes[0][1](t0, p0))
                sh.count("evaluations")
                if got != INF:
                    sh.violation(f"C19:default-time:{name}:ne-first-jump-below-threshold:via=_value_log{tag}",
                                 f"{name}({thr}, {which}) on the path without any jump = {got}", {"a": thr, "which": which, "got": got})
        sh.count("evaluations")
        if _snapshot(buf) != snap:
            sh.violation(f"C19:forms:default-time-underlyings:caller-container-modified:form={form}",
                         f"the caller's thresholds {snap} read {_snapshot(buf)} after the underlyings were built from them / used",
                         {"before": snap, "after": _snapshot(buf)})
            buf = _refill(form, buf, rung)
        built.append((rung, unds))
    buf = _refill(form, buf, [-7.0] * d)  # the caller re-uses its container for something else
    sh.nontriv()
    for rung, unds in built:
        seqs, full = _corner_seqs(rung)
        try:
            _run_scripted(sh, obs, d, seqs, unds, full=full)
        except Exception as e:
            sh.violation(f"C19:forms:default-time-underlyings:raises-{type(e).__name__}:form={form}",
                         f"thresholds {rung} given as {form}: {type(e).__name__}: {e}", {"levels": rung, "form": form})
    sh.outcome(("forms-underlying", d, form))
    sh.sample({"sub": "forms", "part": "underlying", "names": d, "form": form, "ladder": rungs, "container_now": _snapshot(buf)})


def _forms_underlying_scalar(sh, case, obs):
    """DefaultTime: the threshold as Python float / numpy scalar / 0-d array / (integer-valued thresholds) Python int / numpy
    integer. (A 0-d array handed over as `default_level: float` is not modified afterwards: the scalar classes keep the object
    they are given, and the statement says nothing about a number that is a mutable array.)"""
    from rpylib.product.underlying import DefaultTime

    form = case["form"]
    integer = form in ("int", "np.int64")
    tag = f":form={form}"
    sh.cls("names=1")
    sh.cls("form-" + form)
    sh.nontriv()
    for (a,) in _ladder(1, integer):
        x = _scalar(form, a)
        snap = _snapshot(x)
        try:
            unds = [("DefaultTime", 1, [float(a)], _underlying_routes(lambda: DefaultTime(default_level=x)), tag)]
            seqs, full = _corner_seqs([float(a)])
            _run_scripted(sh, obs, 1, seqs, unds, full=full, scalar=True)
        except Exception as e:
            sh.violation(f"C19:forms:DefaultTime:raises-{type(e).__name__}:form={form}", f"DefaultTime({x!r}): {type(e).__name__}: {e}",
                         {"level": float(a), "form": form})
        sh.count("evaluations")
        if _snapshot(x) != snap:
            sh.violation(f"C19:forms:DefaultTime:caller-container-modified:form={form}", f"the caller's threshold {snap} reads {_snapshot(x)} afterwards",
                         {"before": snap, "after": _snapshot(x)})
    sh.outcome(("forms-underlying-scalar", form))


def _same(sh, obs, key, what, got, ref, rtol=FORM_RTOL, atol=0.0, detail=None):
    """differential oracle: the answer for another legal form of an argument = the answer for the usual form (itself judged by
    (ii), (iv), (v)); arrays element-wise"""
    g = np.ravel(np.asarray(got, dtype=float))
    r = np.ravel(np.asarray(ref, dtype=float))
    sh.count("evaluations")
    sh.count("form_comparisons")
    obs.add(*g.tolist())
    if g.shape != r.shape or not all(core.close(x, y, rtol=rtol, atol=atol) for x, y in zip(g, r)):
        sh.violation(key, f"{what} = {g.tolist()!r}, the usual form of the arguments gives {r.tolist()!r}",
                     dict(detail or {}, got=g.tolist(), usual=r.tolist()))
        return False
    return True


def _axes_of(grid):
    """what a chain reads of a grid: axes, truncations, position of the origin"""
    o = grid.origin_coordinate
    o = getattr(o, "value", o)
    return ([[float(x) for x in ax] for ax in grid.axes], [[float(x) for x in t] for t in grid.truncations],
            [int(c) for c in np.ravel(np.asarray(o))])


def _forms_pricer_1d(sh, case, obs):
    """CFLevyModel and the 1-d CTMCCredit: threshold as float (usual) / np.float64 / 0-d array / int / np.int64 (integer-valued
    thresholds: -1, the un-restricted closed form only unless l < -1); maturity as int / np.float64 / vector of maturities
    (vectorised = element-wise); recovery as np.float64 / int 0 / vector; present value and spread as numpy scalars."""
    from rpylib.grid import spatial as S
    from rpylib.numerical.closedform.cflevymodel import CFLevyModel

    spec = case["model"]
    icls = "d=1:" + _mclass(spec)
    model = A.make_model(spec)
    cf = CFLevyModel(model)
    r = float(spec["r"]) if spec.get("exp") else None
    h = HS[0]
    l, rr = (float(x) for x in S.compute_truncation(model=model, h=h))
    a_list = [float(fr * l) for fr in FRACS if l < fr * l < -h] + [-1.0]
    sh.nontriv()
    for a in a_list:
        inside = l < a < -h
        R, T, s = RECOVERIES[-1], MATURITIES[-1], SPREADS[0]
        try:
            th = float(cf._theta(a))
            sp = [float(cf.survival_probability(a, t)) for t in MATURITIES]
            cs = [float(cf.cds_spread(level_a=a, recovery_rate=x)) for x in RECOVERIES]
            pv = None
            if r is not None:
                dl, fl = _legs(th, r, R, T)
                pv = dl - s * fl
                si = float(cf.implied_cds_spread(pv=pv, level_a=a, recovery_rate=R, maturity=T))
            grids = {sym: _axes_of(S.CTMCCredit(h=h, level_a=a, model=model, symmetric_grid=sym)) for sym in (True, False)} if inside else {}
        except Exception as e:
            sh.violation(f"C19:forms:CFLevyModel:raises-{type(e).__name__}:usual-form:{icls}", f"{type(e).__name__}: {e}", {"a": a})
            continue
        sh.outcome(("forms-theta", float(th).hex()))
        for form in SCALAR_FORMS[1:]:
            if form in ("int", "np.int64") and a != int(a):
                continue
            x = _scalar(form, a)
            snap = _snapshot(x)
            key = lambda what: f"C19:forms:CFLevyModel.{what}:ne-usual-form:threshold-as-{form}:{icls}"
            try:
                _same(sh, obs, key("_theta"), f"_theta({x!r})", cf._theta(x), th, detail={"a": a})
                _same(sh, obs, key("survival_probability"), f"survival_probability({x!r}, t)", [cf.survival_probability(x, t) for t in MATURITIES], sp,
                      detail={"a": a})
                _same(sh, obs, key("survival_probability"), f"survival_probability(level_a={x!r}, t=t)",
                      [cf.survival_probability(level_a=x, t=t) for t in MATURITIES], sp, detail={"a": a})
                _same(sh, obs, key("cds_spread"), f"cds_spread({x!r}, R)", [cf.cds_spread(x, y) for y in RECOVERIES], cs, detail={"a": a})
                if pv is not None:
                    _same(sh, obs, key("implied_cds_spread"), f"implied_cds_spread(pv, {x!r}, R, T)", cf.implied_cds_spread(pv, x, R, T), si,
                          atol=BRENTQ_ATOL, detail={"a": a})
                for sym, ref in grids.items():
                    sh.count("evaluations")
                    got = _axes_of(S.CTMCCredit(h=h, level_a=x, model=model, symmetric_grid=sym))
                    if got != ref:
                        sh.violation(f"C19:forms:CTMCCredit:ne-usual-form:threshold-as-{form}:d=1",
                                     f"CTMCCredit(h={h}, level_a={x!r}, symmetric={sym}) has axes {got[0]}, with the Python float {ref[0]}",
                                     {"a": a, "model": icls, "got": got, "usual": ref})
            except Exception as e:
                sh.violation(f"C19:forms:CFLevyModel:raises-{type(e).__name__}:threshold-as-{form}:{icls}", f"{type(e).__name__}: {e}", {"a": a})
            sh.count("evaluations")
            if _snapshot(x) != snap:
                sh.violation(f"C19:forms:CFLevyModel:caller-container-modified:threshold-as-{form}", f"{snap} reads {_snapshot(x)} afterwards", {"a": a})
        # the other arguments, the threshold in its usual form
        key = lambda what, arg: f"C19:forms:CFLevyModel.{what}:ne-usual-form:{arg}:{icls}"
        try:
            ts = np.array(MATURITIES)
            _same(sh, obs, key("survival_probability", "t-as-int"), "survival_probability(a, int t)",
                  [cf.survival_probability(a, int(t)) for t in MATURITIES], sp, detail={"a": a})
            _same(sh, obs, key("survival_probability", "t-as-np.float64"), "survival_probability(a, np.float64 t)",
                  [cf.survival_probability(a, np.float64(t)) for t in MATURITIES], sp, detail={"a": a})
            _same(sh, obs, key("survival_probability", "t-as-vector"), "survival_probability(a, vector of maturities)",
                  cf.survival_probability(a, ts), sp, detail={"a": a})
            sh.count("evaluations")
            if ts.tolist() != MATURITIES:
                sh.violation("C19:forms:CFLevyModel.survival_probability:caller-container-modified:t-as-vector", f"maturities read {ts.tolist()} afterwards", None)
            Rs = np.array(RECOVERIES)
            _same(sh, obs, key("cds_spread", "R-as-vector"), "cds_spread(a, vector of recoveries)", cf.cds_spread(a, Rs), cs, detail={"a": a})
            _same(sh, obs, key("cds_spread", "R-as-np.float64"), "cds_spread(a, np.float64 R)", [cf.cds_spread(a, np.float64(y)) for y in RECOVERIES], cs,
                  detail={"a": a})
            _same(sh, obs, key("cds_spread", "R-as-int"), "cds_spread(a, 0)", cf.cds_spread(a, int(RECOVERIES[0])), cs[0], detail={"a": a})
            sh.count("evaluations")
            if Rs.tolist() != RECOVERIES:
                sh.violation("C19:forms:CFLevyModel.cds_spread:caller-container-modified:R-as-vector", f"recoveries read {Rs.tolist()} afterwards", None)
            if pv is not None:
                for nm, v in (("np.float64", np.float64(pv)), ("0-d-array", np.array(pv))):
                    _same(sh, obs, key("implied_cds_spread", "pv-as-" + nm), f"implied_cds_spread({nm} pv, int T)",
                          cf.implied_cds_spread(pv=v, level_a=a, recovery_rate=np.float64(R), maturity=int(T)), si, atol=BRENTQ_ATOL, detail={"a": a})
            if inside and cs[-1] > 0.0:
                ai = float(cf.implied_cds_threshold(cds_spread=cs[-1], recovery_rate=R, h0=1e-6))
                _same(sh, obs, key("implied_cds_threshold", "spread-as-np.float64"), "implied_cds_threshold(np.float64 spread)",
                      cf.implied_cds_threshold(np.float64(cs[-1]), np.float64(R), np.float64(1e-6)), ai, atol=BRENTQ_ATOL, detail={"a": a})
        except Exception as e:
            sh.violation(f"C19:forms:CFLevyModel:raises-{type(e).__name__}:other-arguments:{icls}", f"{type(e).__name__}: {e}", {"a": a})


def _forms_pricer_copula(sh, case, obs):
    """CFLevyCopulaModel and the d-dimensional CTMCCredit: the threshold vector as list (usual) / tuple / list of numpy scalars /
    float64 array; thresholds: the unequal tuple, the tied tuple, the integer-valued vector (-1, -2, -3) (closed form only: it
    is below l). The caller's container is compared with a snapshot after every call; ONE container per mutable form is
    refilled with each threshold vector in turn (the answer must be that of the numbers it holds at the time of the call), and
    the credit grid built from it must not change when the container is refilled afterwards."""
    from rpylib.grid import spatial as S
    from rpylib.numerical.closedform.cflevycopula import CFLevyCopulaModel

    spec = case["model"]
    icls = _cclass(spec)
    model = _make_copula_model(spec)
    d = model.dimension()
    cf = CFLevyCopulaModel(model)
    r = 0.02 if spec.get("exp") else None
    h = HS[0]
    l, rr = (float(x) for x in S.compute_truncation(model=model, h=h))
    vectors = [[float(f * l) for f in FRACS[::-1][:d]], [float(FRACS[1] * l)] * d, [-1.0, -2.0, -3.0][:d]]
    R, T, s = RECOVERIES[-1], MATURITIES[-1], SPREADS[0]
    sh.nontriv()
    usual = []
    for a in vectors:
        inside = all(l < x < -h for x in a)
        try:
            th = float(cf._theta(list(a)))
            ref = {"_theta": th, "survival_probability": [float(cf.survival_probability(list(a), t)) for t in MATURITIES],
                   "first_to_default_par_spread": [float(cf.first_to_default_par_spread(levels_a=list(a), recovery_rate=x)) for x in RECOVERIES]}
            if r is not None:
                dl, fl = _legs(th, r, R, T)
                ref["pv"] = dl - s * fl
                ref["implied_cds_spread"] = float(cf.implied_cds_spread(pv=ref["pv"], level_a=list(a), recovery_rate=R, maturity=T))
            ref["grids"] = {sym: _axes_of(S.CTMCCredit(h=h, level_a=list(a), model=model, symmetric_grid=sym)) for sym in (True, False)} if inside else {}
            usual.append(ref)
        except Exception as e:
            sh.violation(f"C19:forms:CFLevyCopulaModel:raises-{type(e).__name__}:usual-form:{icls}", f"{type(e).__name__}: {e}", {"a": a})
            return
        sh.outcome(("forms-theta", float(th).hex()))
    for form in PRICER_VECTOR_FORMS:
        mutable = form in MUTABLE_FORMS
        buf = _container(form, vectors[0])
        kept = []  # (grid built from the caller's container, reference)
        for i, (a, ref) in enumerate(zip(vectors, usual)):
            if i:
                buf = _refill(form, buf, a)  # one container, refilled
            snap = _snapshot(buf)
            key = lambda what: (f"C19:forms:CFLevyCopulaModel.{what}:ne-usual-form:thresholds-as-{form}"
                                f"{':container-refilled-between-calls' if mutable and i else ''}:{icls}")
            try:
                _same(sh, obs, key("_theta"), f"_theta({buf!r})", cf._theta(buf), ref["_theta"], detail={"a": a})
                _same(sh, obs, key("survival_probability"), f"survival_probability({buf!r}, t)", [cf.survival_probability(buf, t) for t in MATURITIES],
                      ref["survival_probability"], detail={"a": a})
                _same(sh, obs, key("survival_probability"), f"survival_probability(levels_a={buf!r}, t=vector of maturities)",
                      cf.survival_probability(levels_a=buf, t=np.array(MATURITIES)), ref["survival_probability"], detail={"a": a})
                _same(sh, obs, key("first_to_default_par_spread"), f"first_to_default_par_spread({buf!r}, R)",
                      [cf.first_to_default_par_spread(buf, x) for x in RECOVERIES], ref["first_to_default_par_spread"], detail={"a": a})
                _same(sh, obs, key("first_to_default_par_spread"), f"first_to_default_par_spread({buf!r}, vector of recoveries)",
                      cf.first_to_default_par_spread(buf, np.array(RECOVERIES)), ref["first_to_default_par_spread"], detail={"a": a})
                if r is not None:
                    _same(sh, obs, key("implied_cds_spread"), f"implied_cds_spread(np.float64 pv, {buf!r}, R, int T)",
                          cf.implied_cds_spread(np.float64(ref["pv"]), buf, R, int(T)), ref["implied_cds_spread"], atol=BRENTQ_ATOL, detail={"a": a})
                for sym, gref in ref["grids"].items():
                    g = S.CTMCCredit(h=h, level_a=buf, model=model, symmetric_grid=sym)
                    kept.append((g, gref, sym, list(a)))
                    sh.count("evaluations")
                    if _axes_of(g) != gref:
                        sh.violation(f"C19:forms:CTMCCredit:ne-usual-form:thresholds-as-{form}:d={d}",
                                     f"CTMCCredit(h={h}, level_a={buf!r}, symmetric={sym}) has axes {_axes_of(g)[0]}, with a list {gref[0]}",
                                     {"a": a, "model": icls, "got": _axes_of(g), "usual": gref})
            except Exception as e:
                sh.violation(f"C19:forms:CFLevyCopulaModel:raises-{type(e).__name__}:thresholds-as-{form}:{icls}", f"{type(e).__name__}: {e}", {"a": a})
            sh.count("evaluations")
            if _snapshot(buf) != snap:
                sh.violation(f"C19:forms:CFLevyCopulaModel:caller-container-modified:thresholds-as-{form}",
                             f"the caller's thresholds {snap} read {_snapshot(buf)} after the calls", {"a": a, "model": icls})
                buf = _refill(form, buf, a)
        buf = _refill(form, buf, [-7.0] * d)
        for g, gref, sym, a in kept:  # the grids built from the container, after the caller has refilled it
            sh.count("evaluations")
            if _axes_of(g) != gref:
                sh.violation(f"C19:forms:CTMCCredit:thresholds-not-taken-at-construction:thresholds-as-{form}:d={d}",
                             f"CTMCCredit(level_a={a}, symmetric={sym}) has axes {_axes_of(g)[0]} after the caller refilled its container; they were {gref[0]}",
                             {"a": a, "model": icls, "got": _axes_of(g), "at_construction": gref})


def _forms_payoff(sh, case, obs):
    """CDS payoff and Product: recovery / spread / maturity / notional as float (usual) / np.float64 / int where integer-valued;
    the default time as float / np.float64 / 0-d array / int (integer-valued times on either side of the maturity). Oracle:
    the stated leg formulas, as in (v)."""
    from rpylib.product.payoff import CDS
    from rpylib.product.product import Product
    from rpylib.product.underlying import DefaultTime

    r = float(case["r"])
    sh.nontriv()
    df = lambda t: math.exp(-r * t)
    num_forms = {"float": float, "np.float64": np.float64, "int-where-integer": lambda x: int(x) if float(x) == int(x) else float(x)}
    tau_forms = {"float": float, "np.float64": np.float64, "0-d-array": lambda x: np.array(float(x)), "int": int}
    for (fname, conv), R, T, s in itertools.product(num_forms.items(), RECOVERIES, MATURITIES, SPREADS):
        try:
            cds = CDS(recovery_rate=conv(R), spread=conv(s), maturity=conv(T), discounting=df)
            product = Product(payoff_underlying=DefaultTime(default_level=-0.2), payoff=cds, maturity=conv(T), notional=conv(NOTIONAL))
            df_T = float(df(T))
            menu = [(c, tau) for c, tau in _tau_menu(T)] + [("integer-time", 1.0), ("integer-time", 2.0), ("integer-time", 7.0)]
            for tcls, tau in menu:
                if tau == T:
                    continue  # default exactly at the maturity: outside the alphabet
                exp_ = _pv_of_tau(tau, r, R, T, s)
                for tname, tconv in tau_forms.items():
                    if tname == "int" and (math.isinf(tau) or tau != int(tau)):
                        continue
                    x = tconv(tau)
                    for via, got in (("CDS.evaluate", float(cds.evaluate(x)) * df_T), ("Product(CDS)", float(product(x)) / NOTIONAL * df_T)):
                        obs.add(got)
                        sh.count("evaluations")
                        sh.count("form_comparisons")
                        if not core.close(got, exp_, rtol=RTOL, atol=1e-13):
                            sh.violation(f"C19:forms:{via}:ne-leg-formulas:numbers-as-{fname}:default-time-as-{tname}:{tcls}",
                                         f"CDS(R={conv(R)!r}, s={conv(s)!r}, T={conv(T)!r}) {via}({x!r})*df(T) = {got!r}, legs formula = {exp_!r}",
                                         {"R": R, "T": T, "spread": s, "tau": tau, "r": r, "got": got, "expected": exp_})
        except Exception as e:
            sh.violation(f"C19:forms:CDS:raises-{type(e).__name__}:numbers-as-{fname}", f"{type(e).__name__}: {e}", {"R": R, "T": T, "spread": s})
    sh.outcome(("forms-payoff", r))


_FORM_PARTS = {"underlying": _forms_underlying, "underlying-scalar": _forms_underlying_scalar, "pricer-1d": _forms_pricer_1d,
               "pricer-copula": _forms_pricer_copula, "payoff": _forms_payoff}


def _forms(sh, case, obs):
    sh.cls("forms-" + case["part"])
    _FORM_PARTS[case["part"]](sh, case, obs)


# ----------------------------------------------------------------------------------------------------------------------
# twins: two models that differ in exactly ONE thing, alive together, asked alternately at the SAME thresholds
# ----------------------------------------------------------------------------------------------------------------------

# the other value of every constructor parameter of the parameter classes (different from the library defaults and from every
# parameter set of mc.alphabets); y of CGMY: base + 0.2 (stays on the same side of 1)
TWIN_VALUES = {
    "hem": {"sigma": 0.08, "p": 0.35, "eta1": 14.0, "eta2": 32.0, "intensity": 4.5},
    "merton": {"sigma": 0.08, "sigma_j": 0.08, "mu_j": 0.04, "intensity": 4.5},
    "vg": {"sigma": 0.13, "nu": 0.09, "theta": -0.05},
    "cgmy": {"c": 0.6, "g": 11.0, "m": 13.0, "y": None},
}
TWIN_MODEL_ARGS = {"spot": 80.0, "r": 0.05, "d": 0.01}  # constructor arguments of the exponential models
TWIN_PARTNER = {"hem": "hem2", "merton": "hem", "vg": "hem", "cgmy05": "hem", "cgmy12": "hem"}
TWIN_COPULAS = [  # (base, twin): Clayton theta only, Clayton eta only
    ({"kind": "clayton", "theta": 0.7, "eta": 0.3}, {"kind": "clayton", "theta": 3.0, "eta": 0.3}),
    ({"kind": "clayton", "theta": 0.7, "eta": 0.3}, {"kind": "clayton", "theta": 0.7, "eta": 1.0}),
]
MODEL_COPIERS = ("deepcopy", "copy", "dill")


def _twin_cases(tier):
    thorough = tier == "thorough"
    cop0 = TWIN_COPULAS[0][0]
    out = []

    def add(margins, copula, exp, vary, h=HS[0], chain=True):
        out.append({"sub": "twins", "margins": list(margins), "copula": copula, "exp": exp, "h": h, "vary": vary, "chain": chain})

    exps = (True, False) if thorough else (True,)
    for name in ("hem", "merton", "vg", "cgmy05", "cgmy12"):
        fam = A.MARGINS[name]["family"]
        for exp in (True, False):
            for pos in ((0, 1) if thorough else ((0,) if exp else (1,))):
                margins = (name, TWIN_PARTNER[name]) if pos == 0 else (TWIN_PARTNER[name], name)
                for par in TWIN_VALUES[fam]:
                    add(margins, cop0, exp, {"kind": "margin-parameter", "position": pos, "name": par})
    for arg in TWIN_MODEL_ARGS:
        add(("hem", "hem2"), cop0, True, {"kind": "model-argument", "position": 0, "name": arg})
    for base, twin in TWIN_COPULAS:
        for shared in (False, True):
            for exp in exps:
                add(("hem", "vg"), base, exp, {"kind": "copula", "other": twin, "shared_margins": shared})
    for exp in exps:
        add(("hem", "hem2"), cop0, exp, {"kind": "margin-order"})
        add(("cgmy05", "cgmy12"), cop0, exp, {"kind": "margin-order"})
    # three names: one parameter of one margin (the jump-direction weight / the activity index), the copula, the order
    triples = [(("hem", "hem2", "cgmy05"), 0, "p"), (("cgmy05", "cgmy12", "hem2"), 1, "y")]
    if thorough:
        triples += [(("hem", "hem2", "cgmy05"), 1, par) for par in TWIN_VALUES["hem"]]
        triples += [(("hem", "vg", "cgmy05"), 1, par) for par in TWIN_VALUES["vg"]]
    for margins, pos, par in triples:
        add(margins, cop0, True, {"kind": "margin-parameter", "position": pos, "name": par})
    add(("hem", "hem2", "cgmy05"), cop0, True, {"kind": "copula", "other": TWIN_COPULAS[0][1], "shared_margins": False})
    add(("hem", "hem2", "cgmy05"), cop0, True, {"kind": "margin-order"})
    if thorough:
        for c in A.copula_specs(tier):
            if c == cop0:
                continue
            add(("hem", "hem2"), c, True, {"kind": "margin-parameter", "position": 0, "name": "p"})
            add(("cgmy05", "hem"), c, True, {"kind": "margin-parameter", "position": 0, "name": "y"})
        for h in HS[1:]:
            for par in TWIN_VALUES["hem"]:
                add(("hem", "hem2"), cop0, True, {"kind": "margin-parameter", "position": 0, "name": par}, h=h)
    return out


def _margin_spec(name, exp):
    """the margin `name` of mc.alphabets with EVERY constructor parameter written out (read from the model built with the
    alphabet's spec), so that a twin can replace exactly one of them"""
    import inspect

    ms = dict(A.MARGINS[name])
    if exp:
        ms = dict(ms, exp=True, r=0.02, d=0.0, spot=100.0)
    m = A.make_model(ms)
    par = (m.levy_model if exp else m).parameters
    names = [n for n in inspect.signature(type(par).__init__).parameters if n != "self"]
    return dict(ms, params={n: getattr(par, n) for n in names})


def _twin_models(sh, case):
    """(base model, twin model, label of the difference). Every margin object is built for its model alone unless the case says
    `shared_margins` (a copula re-calibrated on the same margin objects)."""
    from rpylib.model.utils import create_levy_copula_model

    exp, vary = bool(case["exp"]), case["vary"]
    base = [_margin_spec(n, exp) for n in case["margins"]]
    twin = [dict(ms, params=dict(ms["params"])) for ms in base]
    cop_b, cop_t = case["copula"], case["copula"]
    kind = vary["kind"]
    if kind == "margin-parameter":
        ms = twin[vary["position"]]
        fam, name = ms["family"], vary["name"]
        missing = sorted(set(ms["params"]) - set(TWIN_VALUES[fam]))
        if missing:  # a constructor parameter this alphabet does not know of: say so, do not pretend completeness
            sh.cap(f"twins: constructor parameter(s) {missing} of the {fam} parameters have no twin value")
        if name not in ms["params"]:
            raise A.OutsideAlphabet(f"{fam} parameters have no constructor parameter {name}")
        value = TWIN_VALUES[fam][name]
        ms["params"][name] = float(ms["params"][name]) + 0.2 if value is None else value
        label = f"{fam}.{name}@{vary['position']}"
    elif kind == "model-argument":
        twin[vary["position"]][vary["name"]] = TWIN_MODEL_ARGS[vary["name"]]
        label = f"{twin[vary['position']]['family']}-model.{vary['name']}@{vary['position']}"
    elif kind == "copula":
        cop_t = vary["other"]
        diff = [k for k in sorted(set(cop_b) | set(cop_t)) if cop_b.get(k) != cop_t.get(k)]
        label = "copula." + "+".join(diff) + (":shared-margin-objects" if vary.get("shared_margins") else "")
    elif kind == "margin-order":
        twin = twin[::-1]
        label = "margin-order"
    else:
        raise ValueError(kind)
    margins_b = [A.make_model(ms) for ms in base]
    try:
        margins_t = margins_b if (kind == "copula" and vary.get("shared_margins")) else [A.make_model(ms) for ms in twin]
    except ValueError as e:  # a value the parameter class rejects is not a model
        raise A.OutsideAlphabet(f"twin {label}: {e}")
    m_b = create_levy_copula_model(models=margins_b, copula=A.make_copula(cop_b))
    m_t = create_levy_copula_model(models=margins_t, copula=A.make_copula(cop_t))
    return m_b, m_t, label


def _twin_margins(sh, case, obs, models, nus, levels, icls, label):
    """the one-name closed forms of the margin that differs between the twins (CFLevyModel on the base margin and on the twin
    margin, alternately at the same thresholds), each against nu((-inf, a]) of its own measure"""
    from rpylib.numerical.closedform.cflevymodel import CFLevyModel

    vary = case["vary"]
    if vary["kind"] not in ("margin-parameter", "model-argument"):
        return
    pos = vary["position"]
    T, R = MATURITIES[0], RECOVERIES[-1]
    pricers = [CFLevyModel(model.models[pos]) for model in models]
    for a in levels:
        for w in (0, 1):
            ref = float(nus[w][pos].integrate(-INF, a))
            got = [("_theta", float(pricers[w]._theta(a)), ref),
                   ("survival_probability", float(pricers[w].survival_probability(a, T)), math.exp(-ref * T)),
                   ("cds_spread", float(pricers[w].cds_spread(level_a=a, recovery_rate=R)), (1.0 - R) * ref)]
            for what, val, exp_ in got:
                obs.add(val)
                sh.count("evaluations")
                sh.count("twin_comparisons")
                if not core.close(val, exp_, rtol=RTOL):
                    sh.violation(f"C19:twins:CFLevyModel.{what}:ne-reference-of-its-own-model:asked-alternately:{('base', 'twin')[w]}:{icls}",
                                 f"margin {pos} of the {('base', 'twin')[w]} model: {what}({a}) = {val!r}, nu((-inf, a]) reference of that "
                                 f"margin = {exp_!r} (difference: {label})", {"a": a, "got": val, "expected": exp_, "difference": label})


def _twins(sh, case, obs):
    """Two Levy-copula models that differ in exactly one constructor parameter of one margin | one constructor argument of an
    exponential margin | one copula parameter | the order of the margins, both alive in the process, asked alternately at the SAME
    threshold vectors / on credit grids of the same h and thresholds; each answer is judged against the reference of ITS OWN
    model (inclusion-exclusion of mc.oracle.ref_rectangle_mass, which never touches the copula model object). Then the
    copy.deepcopy / copy.copy / dill round trip of each model must answer like its original, and the originals must answer as
    before after chains (which work on truncated deep copies) were built on them."""
    from rpylib.distribution.sampling import SamplingMethod
    from rpylib.grid import spatial as S
    from rpylib.numerical.closedform.cflevycopula import CFLevyCopulaModel
    from rpylib.process.markovchain.markovchainlevycopula import MarkovChainLevyCopula

    h = float(case["h"])
    try:
        models = list(_twin_models(sh, case))
    except A.OutsideAlphabet as e:
        sh.count("excluded_twin_outside_alphabet")
        sh.note(str(e))
        sh.outcome("excluded")
        return
    label = models.pop()
    d = models[0].dimension()
    spec = {"margins": case["margins"], "copula": case["copula"], "exp": case["exp"]}
    icls = f"vary={label}:{_cclass(spec)}"
    sh.cls("twins-" + case["vary"]["kind"])
    sh.cls(f"twins-d={d}")
    who = ("base", "twin")
    nus = [[m.levy_triplet.nu for m in model.models] for model in models]
    cops = [model.copula for model in models]
    rs = [float(model.models[0].r) if case["exp"] else None for model in models]
    ls = [float(S.compute_truncation(model=model, h=h)[0]) for model in models]
    l = max(ls)  # the SAME thresholds for both models, inside (l, -h) of either
    tuples = [tuple(float(f * l) for f in fr) for fr in itertools.product(FRACS, repeat=d)]
    tuples = [a for a in tuples if all(l < x < -h for x in a)]
    if not tuples:
        sh.count("excluded_threshold_outside_(l,-h)")
        sh.outcome("excluded")
        return
    a_uneq = tuple(float(f * l) for f in FRACS[::-1][:d])
    refs = {}

    def ref_of(w, a):
        if (w, a) not in refs:
            refs[(w, a)] = _union_mass_ref(cops[w], nus[w], a)
        return refs[(w, a)]

    def judge(w, a, pricer, comp, how, full):
        """theta, survival probability, par spread (and, full, the implied spread) of `pricer`, which holds models[w] or a copy"""
        ref, sabs = ref_of(w, a)
        T, R = MATURITIES[0], RECOVERIES[-1]
        got = [("_theta", float(pricer._theta(list(a))), ref),
               ("survival_probability", float(pricer.survival_probability(list(a), T)), math.exp(-ref * T)),
               ("first_to_default_par_spread", float(pricer.first_to_default_par_spread(levels_a=list(a), recovery_rate=R)), (1.0 - R) * ref)]
        if full and rs[w] is not None:
            s = SPREADS[-1]
            dl, fl = _legs(ref, rs[w], R, MATURITIES[-1])
            got.append(("implied_cds_spread", float(pricer.implied_cds_spread(pv=dl - s * fl, level_a=list(a), recovery_rate=R,
                                                                             maturity=MATURITIES[-1])), s))
        sh.nontriv()
        for what, val, exp_ in got:
            obs.add(val)
            sh.count("evaluations")
            sh.count("twin_comparisons")
            if not core.close(val, exp_, rtol=RTOL, scale=max(sabs, abs(exp_)), atol=1e-10 if what == "implied_cds_spread" else 0.0):
                wrong.append(w)
                sh.violation(f"C19:twins:{comp}.{what}:ne-reference-of-its-own-model:{how}:{who[w]}:{icls}",
                             f"{who[w]} model ({how}): {what}({list(a)}) = {val!r}, reference of that model = {exp_!r}; the other model "
                             f"(difference: {label}) has theta = {ref_of(1 - w, a)[0]!r}",
                             {"a": list(a), "which": who[w], "got": val, "expected": exp_, "theta_of_the_other_model": ref_of(1 - w, a)[0],
                              "difference": label, "how": how})
        return got[0][1]

    comp = "CFLevyCopulaModel"
    wrong = []
    try:
        _twin_margins(sh, case, obs, models, nus, sorted(set(x for a in tuples for x in a)), icls, label)
        pricers = [CFLevyCopulaModel(model) for model in models]
        thetas = {}
        for a in tuples:
            for w in (0, 1):
                thetas[(w, a)] = judge(w, a, pricers[w], comp, "asked-alternately", a == a_uneq)
        sh.outcome(("twin-thetas", float(thetas[(0, tuples[0])]).hex(), float(thetas[(1, tuples[0])]).hex()))
        sh.cls("twins-measures-differ" if ref_of(0, tuples[0])[0] != ref_of(1, tuples[0])[0] else "twins-measures-equal")
        if wrong:  # reported above: once, not once more per copy / re-read
            sh.count("twin_follow_ups_skipped_first_answers_wrong")
            return
        # the first model again, on a fresh pricer, after the second one answered at the same thresholds
        for a in tuples[:1] + ([a_uneq] if a_uneq in tuples[1:] else []):
            judge(0, a, CFLevyCopulaModel(models[0]), comp, "asked-again-after-the-other", False)
        # copies of each model answer like the original (and like the reference of that model)
        for w in (0, 1):
            for how in MODEL_COPIERS:
                a = a_uneq if a_uneq in tuples else tuples[0]
                th = judge(w, a, CFLevyCopulaModel(COPIERS[how](models[w])), comp, "model-" + how, False)
                sh.count("evaluations")
                if not core.close(th, thetas[(w, a)], rtol=FORM_RTOL):
                    sh.violation(f"C19:twins:{comp}._theta:copy-ne-original:model-{how}:{who[w]}:{icls}",
                                 f"theta({list(a)}) of the {how} of the {who[w]} model = {th!r}, of the original = {thetas[(w, a)]!r}",
                                 {"a": list(a), "copy": th, "original": thetas[(w, a)], "how": how})
    except Exception as e:
        sh.violation(f"C19:twins:{comp}:raises-{type(e).__name__}:{icls}", f"{type(e).__name__}: {e}", {"case": case})
        return
    sh.sample({"sub": "twins", "difference": label, "model": _cclass(spec), "a": list(tuples[0]),
               "theta_base": thetas[(0, tuples[0])], "theta_twin": thetas[(1, tuples[0])]})
    # ------------------------------------------------------------------------ the chains of both models on credit grids of the same
    # h and thresholds, both alive, read alternately (base, twin, base again)
    if not case.get("chain") or a_uneq not in tuples:
        return
    comp = "MarkovChainLevyCopula"
    a = list(a_uneq)
    for sym in (True, False):
        method = SamplingMethod.INVERSION if sym else SamplingMethod.BINARYSEARCHTREEADAPTED
        tag = "sym" if sym else "asym"
        try:
            grids = [S.CTMCCredit(h=h, level_a=list(a), model=model, symmetric_grid=sym) for model in models]
            if any(not ax[i] < ax[i + 1] for g in grids for ax in ([float(x) for x in ax_] for ax_ in g.axes) for i in range(len(ax) - 1)):
                sh.count("skipped_malformed_grid")  # reported by the chain-copula sub-check under its own key
                continue
            with _no_vol_adjustment_pool():
                procs = [MarkovChainLevyCopula(levy_copula_model=model, grid=g, method=method) for model, g in zip(models, grids)]
            for w, how in ((0, "read-first"), (1, "read-after-the-other"), (0, "read-again-after-the-other")):
                g = grids[w]
                box = [(float(t[0]), float(t[1])) for t in g.truncations]
                ref, sabs = _box_intensity_ref(cops[w], nus[w], box, a)
                sums, n_default, _ = _chain_default_sums(procs[w], g, a, tuple(int(c) for c in g.origin_coordinate))
                sh.nontriv()
                for via, tot in sums.items():
                    obs.add(tot)
                    sh.count("evaluations")
                    sh.count("twin_comparisons")
                    if not core.close(tot, ref, rtol=RTOL, scale=sabs):
                        sh.violation(f"C19:twins:{comp}:default-rate-ne-box-intensity-of-its-own-model:via={via}:{how}:{who[w]}:{tag}:{icls}",
                                     f"{who[w]} model ({how}): sum of the rates of the {n_default} default states = {tot!r}, inclusion-exclusion "
                                     f"of its joint measure on the box = {ref!r} (a={a}, h={h}, difference: {label})",
                                     {"a": a, "h": h, "symmetric": sym, "rate": tot, "box_intensity": ref, "via": via, "which": who[w],
                                      "difference": label})
        except Exception as e:
            sh.violation(f"C19:twins:{comp}:raises-{type(e).__name__}:{tag}:{icls}", f"{type(e).__name__}: {e} (a={a}, h={h})", {"case": case})
            continue
    # the originals after chains (which deep-copy and truncate the model) were built on them
    try:
        for w in (0, 1):
            judge(w, a_uneq, CFLevyCopulaModel(models[w]), "CFLevyCopulaModel", "after-chains-were-built-on-the-model", False)
    except Exception as e:
        sh.violation(f"C19:twins:CFLevyCopulaModel:raises-{type(e).__name__}:{icls}", f"{type(e).__name__}: {e} (after the chains)", {"case": case})


# ----------------------------------------------------------------------------------------------------------------------
# driver
# ----------------------------------------------------------------------------------------------------------------------

_SUBS = {"one-dim": _one_dim, "cf-copula": _cf_copula, "chain-copula": _chain_copula, "forms": _forms, "twins": _twins}


def check_case(sh, case):
    import warnings

    obs = _Obs()
    with warnings.catch_warnings():
        warnings.simplefilter("ignore")
        _SUBS[case["sub"]](sh, case, obs)
        # determinism self-check: a fixed 1/8 of the cases is executed a second time on fresh objects
        if int(core.digest(case), 16) % 8 == 0:
            obs2 = _Obs()
            scratch = core.Shard()
            scratch.case = case
            _SUBS[case["sub"]](scratch, case, obs2)
            sh.count("determinism_reruns")
            if list(obs) != list(obs2):
                sh.violation("NONDETERMINISM", f"two executions of {case} observed different values", None)
