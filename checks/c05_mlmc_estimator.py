"""C05 - the multilevel estimator is the sum of per-level means over exactly the simulated samples.

Mode: stateless choice explorer (core.ChoiceExplorer) over complete runs of the real multilevel Engine.price and
Engine.price_with_constant_mc_paths_and_level, closed by the scripted coupling of mc/mlmc_driver.py.

Alphabet  environment answer per (level, batch): the statistical regime of the samples of that batch
          (default / zero variance / large variance / zero mean / persistent mean), which steers the adaptive loop through
          "add samples", "within 1 %", "converged", "add level", "maximum level reached", "no sample asked for".
Bound     all choice sequences with at most D deviations from the default regime (D <= 1 on every configuration, <= 2 on a
          stated sub-lattice, <= 3 in thorough on four configurations; see cases()) for every
          configuration of the lattice {initial_level, maximum_level, initial_mc_paths, rmse, rates given/regressed,
          control variates none/one, payoff scalar/2-vector, discount factor, notional}; horizon 40 batches per level.
Options   nb_of_processes in {1, 2, 3, None}: for every value but 1 the engine takes its multiprocessing branch
          (pool.map_async + callback); the pool is mlmc_driver.SimulatedPool (workers = per-chunk dill copies of the task,
          results in index order, one callback in the parent). Subs "adaptive-pool" / "fixed-pool": the given-rates half of
          the quick lattice (quick; the whole quick lattice in thorough) with one deviation and 2 processes, its sub-lattice
          {no cv, scalar, rmse 0.5, N0 5, rates given} with None (and 3 in thorough), in thorough the two deep
          configurations with two deviations; the fixed-level variant with 2 and None (quick: None only where its chunks
          differ from those of 2 processes, i.e. more than two samples per level, and not for the round-4 additions). activate_spot_statistics=True (the path managers also evaluate the modelled underlying): fixed-level
          (4 levels / one level with one sample), adaptive with and without the pool (sub "adaptive-options": one
          deviation for the spot option, the numpy integers and the 3-vector with control variates; default regimes only,
          in quick, for the pool twin of the spot option and the scalar / one-element strikes).
Sizes     degenerate: initial_mc_paths = 0 (fixed-level: no sample anywhere; adaptive, sub "adaptive-degenerate": the engine's
          "initial number of paths probably too low" exit; judged: counts, stored rows, accessors, reads do not raise;
          price() of a level without sample is read, not judged; a tree that refuses the size is counted
          `degenerate-size-rejected`), initial_mc_paths = 1 (fixed-level; adaptive: every variance is 0 and the run walks
          to the maximum level with one sample per level), initial level = maximum level, a single level (fixed (0,0)).
          large: fixed-level with 8 levels (7 of them added by one extend) and with 33 samples (pool chunks of several
          items); sub "adaptive-big": arrays of 1100 rows topped up to about 5 000 / 5 700 / 5 800 rows in four passes (one
          deviation; through the pool with none) and, one run, to about 80 000 / 91 000 / 93 000 rows (beyond 2**15 and
          2**16 rows, 3-4 passes beyond).
Costs     the cost of one simulation per level, as the scripted coupling reports it after every pass (mc/mlmc_driver.COST_KINDS):
          2**l integer VALUED (the historical one: Python float; and as Python int), 0.37 2**l (numpy float64, the kind the
          library's chains return: intensity (dimension + log states)), tiny (0.0137 1.5**l: a whole pass costs less than
          1), large (3.3e9 2**l + 0.25: beyond the 32-bit integers), huge (1.7e19 2**l: a pass beyond 2**63), irregular
          (a table neither monotone nor geometric in the level, ints among the floats), measured (0.37 2**l (1 + b/4) for
          the samples of pass b: a cost that differs from pass to pass, reset by reset_one_simulation_cost), the int 0 of
          LevyProcess (fixed-level variant only). Subs "adaptive-costs" / "fixed-costs": every kind on a fresh engine,
          single process (thorough: also 2 / None processes, regressed rates, control variates); every other case that is
          not shared with C06 (sub "adaptive" keeps 2**l) gets the i-th kind of an odd-length menu in rotation, so that
          every kind meets the pool, the second pricing, the engine copies, the degenerate sizes and both entry points.
Scales    notional 1e-6 and 1e7 (rmse scaled with it) next to the usual 2.5: fixed-level, its pool twin, adaptive.
Forms     the given convergence rates as Python floats / Python ints (the scripts' form) / numpy float64; rmse and the
          discount factor as numpy float64;
          payoff dimension and form of the strike: Forward (scalar), Vanilla with a float strike, a list of one, a list / a
          tuple of two, a numpy array of three strikes; the integer arguments (initial_level, maximum_level,
          initial_mc_paths) as Python ints or numpy int64 / int32 scalars; the accessors with numpy integer level / start /
          end.
Oracle    reference model = plain list of (fine, coarse) per level appended at every simulate call. After every
          set_mlmc_results and at return: Nl[l] == len(ref[l]); the rows of level l's payoff array are exactly the
          discounted notional-scaled payoffs of ref[l], in order (no placeholder row, nothing missing / duplicated /
          overwritten); coarse == 0 at level 0; price(no cv) == sum_l mean(fine-coarse) (tolerance: 1e-11 relative plus the
          forward error bound n u mean|x| of summing the two columns); set_mlmc_results leaves the Nl / sum_cost arrays it is
          given unchanged; at return the public accessors simulation_payoff_with_fine_process / _coarse_process give the
          reference rows: whole, with start / end, at the exact ties of the range (end 0, start = end, start = n, end = n,
          start 0, negative start) and with numpy integer arguments; Nl, ml, vl, mean_level_l, var_level_l, kurtosis,
          consistency_check equal PLAIN NUMPY statistics of the reference
          lists (independent of the library's moment helpers; tolerances = forward error bounds of the non-centred-moment
          formulas, a few ulps of mean^2; consistency_check elements whose denominator is not determined to 1e-3 by those
          bounds are counted `cc-degenerate`, not judged).
          Costs: the reference tally counts the samples simulated in every pass of every level; the exact (rational) work
          of level l = sum over its passes of (cost reported for that pass) x (samples simulated in it). The sum_cost
          array handed to every set_mlmc_results (both entry points) and, at return and on every copy, cl = work / N_l and
          cost = total work are compared with it in rational arithmetic, tolerance 2 u (2 passes + levels + 2) relative
          (the roundings of the engine's own accumulation; no absolute slack: a truncated or dropped fraction of a pass
          is an error whatever its size); an integer-typed array with the right values is accepted.
Reading   the reported quantities are lazy and memoised, so the ORDER of the reads is part of the history:
histories   (a) every run: the returned results object is read in the canonical order;
            (b) every run: a second results object of the run (set_mlmc_results again, what the engine does before
                returning) is left unread and read - scripts' order: consistency_check first - only after the NEXT run of
                the case has been priced and read (another engine / statistics / results object used in between);
            (c) first run of every case (first shard, no control variates): all 30 ordered pairs (q1, q2) of the six moment-based quantities read first, the
                rest after in canonical order, each on a fresh results object;
            (d) subs "*-orders": all 720 orders of the six quantities, for three configurations (adaptive with late
                levels, fixed-level, adaptive through the pool), sharded by the first quantity.
          (c) is not repeated in the "fixed-pool" cases (the results object never sees the pool; "fixed" has the same
          configurations).
Copies    first run of every case (first shard):
            (e) results objects (no control variates; not in "fixed-pool", as (c)): {copy.copy, copy.deepcopy, dill round trip} x {nothing / ml and vl
                (what the engine reads) / everything read on the original before the copy}: the copy, read in the scripts'
                order, reports the reference values and the original's Nl, cl, cost; the original read afterwards too;
            (f) statistics object at return, copied (copy / deepcopy / dill) while its results object is unread: the copy
                passes the whole oracle of the return point (rows, price, accessors, reported quantities);
            (g) statistics object MID-RUN: at each of the first four set_mlmc_results of the run a deepcopy / dill copy
                (alternating) is put aside; after the run has finished each must still pass the whole oracle against the
                samples simulated up to its own observation point (the later passes must not reach into it).
Engine    subs "*-reprice": the Engine object has priced before (prior = adaptive run with another rmse, or fixed-level
histories run; all regimes default; of the same product or of ANOTHER one: a 2-vector of calls with another notional);
          the run under test is its SECOND pricing and must report its own samples only.
          subs "*-engine-copy": the Engine object that prices is a deepcopy / dill round trip of the constructed one
          ("fresh"), of one that has priced before ("after-prior"), or a copy taken inside the prior pricing of the
          original, used after the original has finished ("midrun-of-prior"); adaptive (six kind x moment combinations, two through the pool;
          quick: one deviation for deepcopy:after-prior and dill:midrun-of-prior, default regimes for the others) and
          fixed-level (four).
With control variates: stored payoff and control rows, price(no cv), Nl, cl, cost as above; of the adjusted samples only
          the bookkeeping (one adjusted row per simulated sample; price() = sum of the per-level means of the adjusted rows).
Not covered: the random streams of the pool workers (C08), real coupling processes (C03), spot statistics plots and the
          values stored in the spot statistics, the
          values of the control-variate adjusted samples and the results computed from them (C07), NonCenteredMoments read
          directly in an order MLMCResults never uses (ncm_third / ncm_fourth first raise TypeError on the pinned tree: not a
          reported quantity), results objects of earlier passes of the same run read after later passes (they alias the
          engine's Nl / sum_cost arrays; the statement is about what a run reports - a COPY of such an object is judged,
          (g)), the adaptive algorithm with initial_level < 2 (Engine.price raises IndexError in the bias test before
          anything is reported: C06's exclusion), the fixed-level variant with initial_level > maximum_level (not a
          multilevel configuration), initial_mc_paths given as a float or a numpy uint64 (the pinned tree
          raises TypeError), a zero one-simulation cost in the adaptive algorithm (the allocation divides by it: C06's open
          finding), one-simulation costs that are negative / nan / not numbers, MLMCStatistics.mc_stddev (C07), the engine's branch for more than 10 million
          paths at level 0 (a logging branch, out of any budget).
"""
from __future__ import annotations

import itertools
import math

import numpy as np

from mc import core
from mc import mlmc_driver as D

PID = "C05"
LEVEL = "model_checking"
RULE = (
    "every configuration of the stated lattice x every sequence of regime answers with at most D deviations from the "
    "default, x the stated values of nb_of_processes; one evaluation = one level (or one reported quantity, or one accessor "
    "call) compared at one observation point of a complete run of the real Engine.price (or the fixed-level variant); every "
    "run's results are read in the canonical order and, on a second results object, after the next run; the first run of "
    "a case is read in all 30 first-pair orders, the '-orders' cases in all 720 orders; on the first run of a case copies "
    "(copy / deepcopy / dill) of the results object (read in part before), of the returned statistics object and of the "
    "statistics object at each of its first four mid-run observation points are judged like the originals; every case not "
    "shared with C06 carries one of the stated one-simulation cost kinds (integer valued, fractional, tiny, large, huge, "
    "irregular, measured per pass, zero) and the accumulated cost handed over at every observation point, cl and cost are "
    "compared with the exact rational work of the simulated samples; a configuration is "
    "non-trivial when its runs produced at least two distinct loop trajectories (sequence of (levels, Nl) at each "
    "set_mlmc_results) or, for the fixed-level variant, at least one compared level or, for an '-orders' case, its 120 "
    "orders were compared or, with initial_mc_paths = 0 or the default regimes only (bound 0), the run returned and its levels were "
    "compared; states = distinct loop trajectories, transitions = choice points taken"
)
ASSUMPTIONS = [
    "the coupling process is a scripted stand-in (mc/mlmc_driver.py) implementing the interface the engine uses; the "
    "engine, statistics, path managers, product and control variates are the real ones",
    "nb_of_processes != 1 runs the engine's pool branch on a simulated pool (mc/mlmc_driver.SimulatedPool: per-chunk dill "
    "copies of the task, chunks run one after the other in index order, results in index order, callback in the parent); "
    "the random streams of real workers are the subject of C08",
    "horizon: a run is stopped after 40 batches at one level and reported under C06",
]
CHUNK = 1
HORIZON = 40
# the six reported quantities computed lazily (and memoised) from the moments of the samples, in the canonical reading order
QUANT = ("ml", "vl", "mean_level_l", "var_level_l", "kurtosis", "consistency_check")
# the order in which the library's convergence scripts read them (consistency_check first)
SCRIPTS_ORDER = ("consistency_check", "kurtosis", "var_level_l", "vl", "mean_level_l", "ml")
U = 2.220446049250313e-16
# the cost kinds (mc/mlmc_driver.COST_KINDS) rotated through the cases: adaptive subs (no zero cost: the allocation with a
# zero-cost level is C06's open finding; "huge" in the "adaptive-costs" cases), fixed-level subs, the "adaptive-big" cases
# (their sizes are tuned on costs proportional to 2**l)
ADAPTIVE_COSTS = ("frac", "pow2", "tiny", "measured", "large", "irregular", "pow2-int")
FIXED_COSTS = ("frac", "pow2", "tiny", "zero-int", "measured", "large", "irregular", "pow2-int", "huge")
BIG_COSTS = ("frac", "pow2", "large")


# (start, end, class) of the calls of the public accessors of the stored samples; "n" = the number of samples of the level.
# "start-end-tie": the exact ties of the range (end 0, start = end, start = n, end = n, start 0 given explicitly, negative
# start); "numpy-int-arguments": level / start / end given as numpy integer scalars.
ACCESSOR_MENU = (
    (None, None, "whole"), (1, None, "start-end"), (None, -1, "start-end"), (0, 1, "start-end"), (1, 3, "start-end"),
    (None, 0, "start-end-tie"), (2, 2, "start-end-tie"), ("n", None, "start-end-tie"), (None, "n", "start-end-tie"),
    (0, None, "start-end-tie"), (-2, None, "start-end-tie"), (0, 2, "numpy-int-arguments"),
)


class Horizon(Exception):
    pass


class CopyRefused(Exception):
    pass


class _Truncated:
    """The reference model as it was when a mid-run copy was taken: the first counts[l] samples of every level."""

    def __init__(self, rec, counts, batch_sizes=None):
        self.samples = {l: list(rec.samples.get(l, []))[:n] for l, n in counts.items()}
        self.regime_log = list(rec.regime_log)
        self.batch_sizes = batch_sizes if batch_sizes is not None else {l: list(v) for l, v in rec.batch_sizes.items()}


def copy_of(obj, kind):
    """A copy of a library object through one of the public copy protocols."""
    import copy

    if kind == "copy":
        return copy.copy(obj)
    if kind == "deepcopy":
        return copy.deepcopy(obj)
    if kind == "dill":
        import dill

        return dill.loads(dill.dumps(obj))
    raise ValueError(kind)


def configs(thorough):
    out = []
    for L0 in (2, 3):
        for dmax in ((0, 1, 3) if thorough else (0, 1, 2)):
            for N0 in ((2, 5, 16) if thorough else (2, 5)):
                for rmse in (0.5, 0.3):
                    for rates in ("given", "regressed"):
                        for cv in ("none", "one"):
                            for payoff in ("forward", "call2"):
                                if not thorough:
                                    # quick: a stated sub-lattice
                                    if cv == "one" and payoff == "call2":
                                        continue
                                    if (cv, payoff) != ("none", "forward") and (rates == "regressed" or N0 == 2):
                                        continue
                                    if rmse == 0.3 and not (L0 == 2 and dmax == 1 and N0 == 5 and rates == "given"
                                                            and cv == "none" and payoff == "forward"):
                                        continue
                                out.append({"sub": "adaptive", "L0": L0, "Lmax": L0 + dmax, "N0": N0, "rmse": rmse,
                                            "rates": rates, "cv": cv, "payoff": payoff, "df": 0.9, "notional": 2.5})
    return out


def is_deep(c, thorough):
    """The sub-lattice explored one deviation deeper."""
    base = c["cv"] == "none" and c["payoff"] == "forward" and c["rmse"] == 0.5 and c["L0"] == 2
    if thorough:
        return base and c["N0"] in (2, 5) and c["Lmax"] - c["L0"] in (1, 3)
    return base and ((c["N0"], c["Lmax"] - c["L0"], c["rates"]) in ((2, 1, "given"), (5, 2, "regressed")))


def cases(tier):
    thorough = tier == "thorough"
    out = []
    if not thorough:
        for c in configs(False):
            out.append(dict(c, bound=1, shard=[0, 1]))
        for c in configs(False):
            if is_deep(c, False):
                for i in range(8):
                    out.append(dict(c, bound=2, shard=[i, 8]))
    else:
        # thorough: the full lattice with one deviation, a stated sub-lattice with two, four configurations with three
        for c in configs(True):
            out.append(dict(c, bound=1, shard=[0, 1]))
        for c in configs(True):
            if (c["rmse"] == 0.5 and c["N0"] in (2, 5)
                    and (c["cv"], c["payoff"]) in (("none", "forward"), ("one", "forward"), ("none", "call2"))):
                for i in range(4):
                    out.append(dict(c, bound=2, shard=[i, 4]))
        for c in configs(True):
            if is_deep(c, True) and c["rates"] == "given":
                for i in range(16):
                    out.append(dict(c, bound=3, shard=[i, 16]))
    # fixed-level variant; initial_level <= maximum_level (a configuration with initial_level > maximum_level is not a
    # meaningful multilevel configuration and is outside the alphabet)
    fixed = []
    for (L0, Lmax) in ((0, 0), (0, 1), (1, 1), (2, 3), (1, 3)):
        for N0 in (1, 2, 7):
            for cv in ("none", "one"):
                for payoff in ("forward", "call2"):
                    fixed.append({"sub": "fixed", "L0": L0, "Lmax": Lmax, "N0": N0, "cv": cv, "payoff": payoff, "df": 0.9,
                                  "notional": 2.5, "bound": 2 if thorough else 1, "shard": [0, 1]})
    # degenerate size: no sample at all (one run each; judged: counts, stored rows, accessors, nothing raises when read)
    for (L0, Lmax) in ((0, 0), (1, 3)):
        for cv in ("none", "one"):
            for payoff in ("forward", "call2"):
                fixed.append({"sub": "fixed", "L0": L0, "Lmax": Lmax, "N0": 0, "cv": cv, "payoff": payoff, "df": 0.9,
                              "notional": 2.5, "bound": 1, "shard": [0, 1]})
    # payoff dimension and the form of the strike argument: scalar float / list of one / tuple of two / array of three
    for (L0, Lmax, N0) in (((0, 1, 2), (2, 3, 2), (1, 3, 7)) if thorough else ((0, 1, 2), (2, 3, 2))):
        for cv in ("none", "one"):
            for payoff in ("calls", "call1", "call2t", "call3"):
                if not thorough and (L0, cv) == (2, "one") and payoff in ("calls", "call2t"):
                    continue
                fixed.append({"sub": "fixed", "L0": L0, "Lmax": Lmax, "N0": N0, "cv": cv, "payoff": payoff, "df": 0.9,
                              "notional": 2.5, "bound": 1, "shard": [0, 1]})
    # many levels (all but the first added by one extend) and a sample size beyond the chunk size of the simulated pool;
    # the integer arguments as numpy scalars; the spot-statistics option of the configuration
    for extra in ({"L0": 0, "Lmax": 7, "N0": 3}, {"L0": 2, "Lmax": 5, "N0": 33}, {"L0": 1, "Lmax": 3, "N0": 7, "ints": "int64", "df_form": "npfloat"},
                  {"L0": 0, "Lmax": 1, "N0": 2, "ints": "int32"}, {"L0": 1, "Lmax": 3, "N0": 7, "spot": True},
                  {"L0": 0, "Lmax": 0, "N0": 1, "spot": True}, {"L0": 1, "Lmax": 3, "N0": 7, "notional": 1e-6},
                  {"L0": 1, "Lmax": 3, "N0": 7, "notional": 1e7}):
        for payoff in ("forward", "call2"):
            if not thorough and (extra["Lmax"], payoff) in ((7, "call2"), (5, "forward")):
                continue
            if not thorough and (extra.get("notional"), payoff) in ((1e-6, "call2"), (1e7, "forward")):
                continue
            fixed.append(dict({"sub": "fixed", "cv": "none", "payoff": payoff, "df": 0.9, "notional": 2.5, "bound": 1,
                               "shard": [0, 1]}, **extra))
    out += fixed
    # NOTE: C06 re-uses the cases above whose sub is exactly "adaptive"; everything below has another sub.
    # the multiprocessing branch of compute_level_l (nb_of_processes != 1, None included) on the simulated pool
    for c in configs(False):
        if thorough or c["rates"] == "given":
            out.append(dict(c, sub="adaptive-pool", procs=2, bound=1, shard=[0, 1]))
    for c in configs(False):
        if c["cv"] == "none" and c["payoff"] == "forward" and c["rmse"] == 0.5 and c["N0"] == 5 and c["rates"] == "given":
            for procs in ((None, 3) if thorough else (None,)):
                out.append(dict(c, sub="adaptive-pool", procs=procs, bound=1, shard=[0, 1]))
    if thorough:
        for c in configs(False):
            if is_deep(c, False):
                n = 8
                for i in range(n):
                    out.append(dict(c, sub="adaptive-pool", procs=2 if c["N0"] == 2 else None, bound=2, shard=[i, n]))
    for c in fixed:
        historic = (c["N0"] > 0 and c["payoff"] in ("forward", "call2") and not (c.get("ints") or c.get("spot")) and c["Lmax"] <= 3
                    and c["notional"] == 2.5)
        # (with one or two items the chunks of None = 3 workers are those of 2 workers)
        for procs in ((2, None) if (thorough or (historic and c["N0"] > 2)) else (2,)):
            out.append(dict(c, sub="fixed-pool", procs=procs))
    # histories on a re-used Engine object: it has priced before (adaptive with another rmse / fixed-level), all regimes default
    # (quick: the i-th configuration with prior i mod 2 and, for i mod 3 == 2, a prior pricing of ANOTHER product - a
    # 2-vector of calls with another notional -; thorough: the product configurations x priors x {same, other product})
    i = -1
    for c in configs(False):
        if c["cv"] == "none" and c["payoff"] == "forward" and c["rmse"] == 0.5 and c["N0"] == 5 and c["rates"] == "given":
            i += 1
            for j, prior in enumerate(("adaptive", "fixed")):
                for other in (False, True):
                    if thorough or (j == i % 2 and other == (i % 3 == 2)):
                        extra = {"prior_payoff": "call2"} if other else {}
                        out.append(dict(c, sub="adaptive-reprice", prior=prior, bound=1, shard=[0, 1], **extra))
            if (c["L0"], c["Lmax"]) == (2, 3):
                out.append(dict(c, sub="adaptive-pool-reprice", prior="adaptive", procs=2, bound=1, shard=[0, 1]))
    for c in fixed:
        if c["N0"] == 7 and c["cv"] == "none" and c["payoff"] == "forward":
            for prior in (("fixed", "adaptive") if c["L0"] >= 2 else ("fixed",)):
                out.append(dict(c, sub="fixed-reprice", prior=prior, **({"prior_payoff": "call2"} if c.get("spot") else {})))
    # accumulation beyond the usual small-size thresholds of an allocation policy: levels whose arrays hold more than 1024 /
    # 4096 rows (and, one run, more than 2**15 / 2**16 rows) topped up three or four times
    big = {"sub": "adaptive-big", "L0": 2, "Lmax": 3, "N0": 1100, "rmse": 0.08, "rates": "regressed", "cv": "none",
           "payoff": "forward", "df": 0.9, "notional": 2.5, "shard": [0, 1]}
    out.append(dict(big, bound=1))
    out.append(dict(big, bound=0, procs=2))
    out.append(dict(big, bound=0, rmse=0.02))
    if thorough:
        out.append(dict(big, bound=1, cv="one"))
        out.append(dict(big, bound=1, payoff="call2", procs=None))
    # degenerate sizes of the adaptive algorithm: no initial sample (the engine's "initial number of paths too low" exit) and
    # one initial sample (every level variance is 0: the run adds levels with their single mandatory sample up to the maximum)
    for N0 in (0, 1):
        for (L0, Lmax) in ((2, 2), (2, 4)):
            for (cv, payoff) in (("none", "forward"), ("one", "forward"), ("none", "call2")):
                for procs in (1, 2):
                    if (cv, payoff) != ("none", "forward") and (procs == 2 or Lmax == 2) and not thorough:
                        continue
                    c = {"sub": "adaptive-degenerate", "L0": L0, "Lmax": Lmax, "N0": N0, "rmse": 0.5, "rates": "given", "cv": cv,
                         "payoff": payoff, "df": 0.9, "notional": 2.5, "bound": 1, "shard": [0, 1]}
                    out.append(dict(c, procs=procs) if procs != 1 else c)
    # options and argument forms of the adaptive entry point: spot statistics, numpy integer scalars, payoff dimensions
    c0 = {"L0": 2, "Lmax": 3, "N0": 5, "rmse": 0.5, "rates": "given", "cv": "none", "payoff": "forward", "df": 0.9,
          "notional": 2.5, "bound": 1, "shard": [0, 1]}
    for extra in ({"spot": True}, {"spot": True, "procs": 2, "payoff": "call2", "bound": 0}, {"ints": "int64"},
                  {"rates": "given-int"}, {"rates": "given-np", "rmse_form": "npfloat", "df_form": "npfloat", "bound": 0},
                  {"notional": 1e-6, "rmse": 2e-7}, {"notional": 1e7, "rmse": 2e6, "payoff": "call2", "bound": 0},
                  {"payoff": "call3", "cv": "one"}, {"payoff": "calls", "bound": 0}, {"payoff": "call1", "procs": 2, "bound": 0}):
        c = dict(c0, sub="adaptive-options", **extra)
        out.append(dict(c, bound=1) if thorough else c)
    # copies of the Engine object: the engine that prices is a deepcopy / dill round trip of the constructed one, of one that
    # has priced before, or one taken while the original was pricing (used after the original has finished)
    for kind, when, prior, procs in (("deepcopy", "fresh", None, 1), ("dill", "fresh", None, 2), ("deepcopy", "after-prior", "adaptive", 1),
                                     ("dill", "after-prior", "fixed", 1), ("deepcopy", "midrun-of-prior", "adaptive", 2),
                                     ("dill", "midrun-of-prior", "adaptive", 1)):
        c = dict(c0, sub="adaptive-engine-copy", engine_copy=f"{kind}:{when}")
        if not thorough and (kind, when) not in (("deepcopy", "after-prior"), ("dill", "midrun-of-prior")):
            c["bound"] = 0
        if prior:
            c["prior"] = prior
        if procs != 1:
            c["procs"] = procs
        out.append(c)
    for kind, when, prior in (("deepcopy", "fresh", None), ("dill", "fresh", None), ("dill", "after-prior", "fixed"),
                              ("deepcopy", "midrun-of-prior", "adaptive")):
        c = {"sub": "fixed-engine-copy", "L0": 2, "Lmax": 3, "N0": 7, "cv": "none", "payoff": "forward", "df": 0.9, "notional": 2.5,
             "bound": 1, "shard": [0, 1], "engine_copy": f"{kind}:{when}"}
        if prior:
            c["prior"] = prior
        out.append(c)
    # every order of reading the six moment-based reported quantities (sharded by the first one)
    base = {"L0": 2, "Lmax": 4, "N0": 5, "rmse": 0.3, "rates": "given", "cv": "none", "payoff": "forward", "df": 0.9,
            "notional": 2.5, "bound": 0, "shard": [0, 1]}
    for extra in ({"sub": "adaptive-orders"}, {"sub": "fixed-orders", "L0": 1, "Lmax": 3, "N0": 7},
                  {"sub": "adaptive-pool-orders", "procs": 2}):
        for q in QUANT:
            out.append(dict(base, **extra, orders_first=q))
    # one-simulation costs per level (mc/mlmc_driver.COST_KINDS): every value class and form, adaptive and fixed-level, on a fresh
    # engine, single process ...
    cc = {"L0": 2, "Lmax": 4, "N0": 5, "rmse": 0.5, "rates": "given", "cv": "none", "payoff": "forward", "df": 0.9,
          "notional": 2.5, "bound": 1, "shard": [0, 1]}
    cf = {"L0": 1, "Lmax": 3, "N0": 7, "cv": "none", "payoff": "forward", "df": 0.9, "notional": 2.5, "bound": 1, "shard": [0, 1]}
    for kind in ADAPTIVE_COSTS + ("huge",):
        if kind != "pow2":
            out.append(dict(cc, sub="adaptive-costs", cost=kind))
            if thorough:
                for procs in (2, None):
                    out.append(dict(cc, sub="adaptive-costs", cost=kind, procs=procs))
                out.append(dict(cc, sub="adaptive-costs", cost=kind, N0=2, Lmax=3, rates="regressed"))
                out.append(dict(cc, sub="adaptive-costs", cost=kind, cv="one", procs=2))
    for kind in FIXED_COSTS:
        if kind != "pow2":
            out.append(dict(cf, sub="fixed-costs", cost=kind))
            if thorough:
                out.append(dict(cf, sub="fixed-costs", cost=kind, procs=2))
                out.append(dict(cf, sub="fixed-costs", cost=kind, cv="one", payoff="call2", procs=None))
    # ... and, in rotation, on every case above that is not shared with C06 (sub "adaptive" keeps the historical costs): the
    # i-th case of a sub gets the i-th cost kind of the menu (mod its length; the menus have odd lengths, the enumerated
    # dimensions of the subs have periods 2, 3, 4, 6)
    seen = {}
    for c in out:
        if c["sub"] in ("adaptive", "adaptive-costs", "fixed-costs"):
            continue
        menu = ADAPTIVE_COSTS if c["sub"].startswith("adaptive") else FIXED_COSTS
        if c["sub"] == "adaptive-big":
            menu = BIG_COSTS
        i = seen.get(c["sub"], 0)
        seen[c["sub"]] = i + 1
        if menu[i % len(menu)] != "pow2":
            c["cost"] = menu[i % len(menu)]
    return out


# ----------------------------------------------------------------------------------------------------------------------

def build_engine(case, chooser):
    from rpylib.montecarlo.configuration import ConfigurationMultiLevel, ConvergenceRates
    from rpylib.montecarlo.multilevel.engine import Engine

    rec = D.Recorder(chooser)
    # argument form of the discount factor the fine process returns: Python float (usual) or numpy float64
    df = np.float64(case["df"]) if case.get("df_form") == "npfloat" else case["df"]
    coupling = D.ScriptedCoupling(rec, df=df, cost=case.get("cost", "pow2"))
    product = D.make_product(case["payoff"], notional=case["notional"])
    cv = D.make_control_variates(case["cv"], notional=case["notional"], dim=D.payoff_dim(case["payoff"]))
    # argument form of the given rates: Python floats (usual), Python ints (as in the library's scripts), numpy float64
    rk = case.get("rates", "given")
    if rk == "given":
        rates = ConvergenceRates(alpha=1.0, beta=2.0, gamma=1.0)
    elif rk == "given-int":
        rates = ConvergenceRates(alpha=1, beta=2, gamma=1)
    elif rk == "given-np":
        rates = ConvergenceRates(alpha=np.float64(1.0), beta=np.float64(2.0), gamma=np.float64(1.0))
    else:
        rates = ConvergenceRates()
    # argument form of the integer arguments: Python int (usual) or numpy integer scalars
    as_int = {"python": int, "int64": np.int64, "int32": np.int32}[case.get("ints", "python")]
    kw = {}
    if case.get("spot"):
        kw["activate_spot_statistics"] = True  # public option: the path managers also evaluate the modelled underlying
    conf = ConfigurationMultiLevel(
        convergence_rates=rates,
        initial_level=as_int(case.get("L0", 2)),
        maximum_level=as_int(case["Lmax"]),
        initial_mc_paths=as_int(case["N0"]),
        seed=None,
        control_variates=cv,
        nb_of_processes=case.get("procs", 1),
        **kw,
    )
    eng = Engine(configuration=conf, coupling_process=coupling)
    return eng, rec, product, coupling


def ref_arrays(case, rec, level):
    """Reference payoff rows of one level: shape (n, dim, 2)."""
    lst = rec.samples.get(level, [])
    dim = D.payoff_dim(case["payoff"])
    out = np.zeros((len(lst), dim, 2))
    if lst:
        fc = np.array(lst, dtype=float)
        out[:, :, 0] = D.payoff_ref_rows(case["payoff"], case["notional"], case["df"], fc[:, 0])
        if level > 0:
            out[:, :, 1] = D.payoff_ref_rows(case["payoff"], case["notional"], case["df"], fc[:, 1])
    return out


def cv_ref_arrays(case, rec, level):
    lst = rec.samples.get(level, [])
    n = len(lst)
    dim = D.payoff_dim(case["payoff"])
    nt, df = case["notional"], case["df"]
    fc = np.array(lst, dtype=float).reshape(n, 2)
    if level == 0:
        out = np.zeros((n, 1, dim))
        out[:, 0, :] = (nt * (fc[:, 0] - 0.125) * df)[:, None]
    else:
        out = np.zeros((n, 1, dim, 2))
        out[:, 0, :, 0] = (nt * (fc[:, 0] - 0.125) * df)[:, None]
        out[:, 0, :, 1] = (nt * (fc[:, 1] - 0.125) * df)[:, None]
    return out


def compare_state(sh, case, rec, stats, Nl, sum_cost, where, variant, final=None):
    """The C05 oracle on one observation point. Returns a short trajectory token."""
    tag = f"{variant}:{where}"
    cvk = "cv" if case["cv"] != "none" else "nocv"
    dimk = f"dim{D.payoff_dim(case['payoff'])}"
    Nl = np.asarray(Nl)
    nlev = len(Nl)
    ref_fine, ref_coarse = [], []
    for level in range(nlev):
        ref = ref_arrays(case, rec, level)
        n_ref = ref.shape[0]
        late = "late-level" if level > case.get("L0", case["Lmax"]) else "initial-level"
        if int(Nl[level]) != n_ref:
            sh.violation(f"C05:{variant}:Nl-differs-from-simulated-count:{late}",
                         f"{tag}: level {level}: reported Nl={int(Nl[level])} but {n_ref} samples were simulated",
                         {"Nl": Nl.tolist(), "simulated": {l: len(v) for l, v in rec.samples.items()}, "regimes": rec.regime_log})
        mcs = stats.mc_statistics[level] if level < len(stats.mc_statistics) else None
        if mcs is None:
            sh.violation(f"C05:{variant}:no-statistics-for-level", f"{tag}: level {level} has no statistics object", None)
            continue
        got = np.asarray(mcs._payoff_statistics.stats)
        if got.shape[0] != n_ref:
            first = got[0].tolist() if got.shape[0] else None
            kind = "zero-placeholder-row-first" if (got.shape[0] == n_ref + 1 and not np.any(got[0])) else "row-count"
            sh.violation(f"C05:{variant}:stored-rows-differ-from-simulated:{kind}:{late}",
                         f"{tag}: level {level}: {got.shape[0]} stored rows, {n_ref} simulated samples (first row {first})",
                         {"regimes": rec.regime_log, "Nl": Nl.tolist()})
        m = min(got.shape[0], n_ref)
        g = got[:m] if got.shape[0] == n_ref else (got[1:m + 1] if got.shape[0] == n_ref + 1 else got[:m])
        if g.shape != ref[:g.shape[0]].shape:
            sh.violation(f"C05:{variant}:stored-row-shape:{dimk}", f"{tag}: level {level}: shape {got.shape} vs reference {ref.shape}", None)
        else:
            r = ref[:g.shape[0]]
            if g.size and not np.array_equal(g, r):
                bad = np.argwhere(~np.isclose(g, r, rtol=1e-12, atol=0.0))
                if bad.size:
                    i = tuple(int(v) for v in bad[0])
                    comp = "coarse" if i[2] == 1 else "fine"
                    l0 = "level0" if level == 0 else "level>0"
                    # classify: is the stored matrix the transpose of the reference (fine/coarse axis vs component axis)?
                    transposed = g.shape[1] == 2 and np.allclose(g[i[0]].T, r[i[0]], rtol=1e-12)
                    cls = "fine-coarse-axis-swapped-with-payoff-component" if transposed else "value"
                    sh.violation(f"C05:{variant}:stored-row-differs-from-sample:{cls}:{comp}:{l0}:{dimk}",
                                 f"{tag}: level {level} row {i[0]} component {i[1]} {comp}: stored {g[i]} but the simulated sample gives {r[i]}",
                                 {"stored_row": g[i[0]].tolist(), "reference_row": r[i[0]].tolist(), "regimes": rec.regime_log})
        sh.count("evaluations")
        # control-variate rows
        if case["cv"] != "none":
            gcv = np.asarray(mcs._control_variates_statistics.stats)
            rcv = cv_ref_arrays(case, rec, level)
            if gcv.shape != rcv.shape or (gcv.size and not np.allclose(gcv, rcv, rtol=1e-12, atol=0.0)):
                sh.violation(f"C05:{variant}:control-variate-rows-differ:{'level0' if level == 0 else 'level>0'}:{dimk}",
                             f"{tag}: level {level}: stored control-variate rows {gcv.shape} differ from the samples {rcv.shape}",
                             {"stored": gcv[:3].tolist(), "reference": rcv[:3].tolist()})
        ref_fine.append(ref[:, 0, 0])
        ref_coarse.append(ref[:, 0, 1])
    work = ref_work(sh, case, rec, nlev, variant)
    if sum_cost is not None:
        # the accumulated cost the engine hands over = the work of exactly the samples simulated so far, level by level
        compare_cost(sh, "sum_cost", np.asarray(sum_cost), work, rec, f"C05:{variant}:sum_cost-differs-from-the-work-of-the-simulated-samples"
                     f"{cost_suffix(case)}", tag, {"Nl": Nl.tolist(), "regimes": rec.regime_log})
    # price without control variates: sum of per-level means of component 0
    try:
        p = stats.price(no_control_variates=True)
        # price() subtracts the column means of the stored rows: forward error bound of the recursive summation of n terms,
        # n u mean|x| per column (the columns are large - unique ids - and their difference small)
        sum_bound = U * sum(f.size * float(np.mean(np.abs(f)) + np.mean(np.abs(c))) for f, c in zip(ref_fine, ref_coarse) if f.size)
        p_ref = sum((float(np.mean(f - c)) if f.size else 0.0) for f, c in zip(ref_fine, ref_coarse))
        if not all(f.size for f in ref_fine):
            # a level without any sample (initial_mc_paths = 0) has no sample mean: price() is read (it must not raise on a
            # returned object) but its value is not judged
            sh.count("price-not-judged:level-without-sample")
        elif not core.close(p, p_ref, rtol=1e-11, atol=1e-13 + sum_bound):
            sh.violation(f"C05:{variant}:price-differs-from-sum-of-level-means:{cvk}:{dimk}",
                         f"{tag}: price(no cv) = {p!r} but sum of per-level sample means = {p_ref!r}",
                         {"Nl": Nl.tolist(), "regimes": rec.regime_log})
    except Exception as e:  # noqa
        sh.violation(f"C05:{variant}:price-raises:{type(e).__name__}", f"{tag}: {e!r}", None)
    # the derived statistics, against plain numpy statistics of the reference lists
    res = stats.mlmc_results
    if res is not None and case["cv"] == "none" and all(f.size for f in ref_fine) and where != "return":
        # cheap intermediate comparison of the two quantities that steer the loop (numpy formulas, rtol 1e-9)
        with np.errstate(all="ignore"):
            ml_ref = np.array([abs(float(np.mean(f - c))) for f, c in zip(ref_fine, ref_coarse)])
            vl_ref = np.array([max(0.0, float(np.mean((f - c - np.mean(f - c)) ** 2))) for f, c in zip(ref_fine, ref_coarse)])
            for name, b in (("ml", ml_ref), ("vl", vl_ref)):
                a = np.asarray(getattr(res, name), dtype=float)
                scale = float(np.max(np.abs(b))) if b.size else 0.0
                if a.shape != b.shape or not np.allclose(a, b, rtol=1e-9, atol=1e-9 * scale + 1e-300):
                    sh.violation(f"C05:{variant}:reported-{name}-not-from-the-simulated-samples",
                                 f"{tag}: reported {name} = {a.tolist()} but the simulated samples give {b.tolist()}",
                                 {"Nl": Nl.tolist(), "regimes": rec.regime_log})
    if where == "return":
        # the public accessors of the stored samples, whole and with the start / end options
        for level in range(min(nlev, len(stats.mc_statistics))):
            ref = ref_arrays(case, rec, level)
            n_l = ref.shape[0]
            for comp, col, fun in (("fine", 0, stats.simulation_payoff_with_fine_process),
                                   ("coarse", 1, stats.simulation_payoff_with_coarse_process)):
                for (a0, b0, kind) in ACCESSOR_MENU:
                    a0 = n_l if a0 == "n" else a0
                    b0 = n_l if b0 == "n" else b0
                    lv = level
                    if kind == "numpy-int-arguments":
                        lv, a0, b0 = np.int64(level), np.int64(a0), np.int32(b0)
                    try:
                        g = np.asarray(fun(lv, a0, b0, no_control_variates=True), dtype=float)
                    except Exception as e:  # noqa
                        sh.violation(f"C05:{variant}:payoff-accessor-raises:{comp}:{kind}:{type(e).__name__}", f"{tag}: {e!r}", None)
                        continue
                    r = ref[a0:b0, 0, col]
                    sh.count("evaluations")
                    if g.shape != r.shape or (g.size and not np.allclose(g, r, rtol=1e-12, atol=0.0)):
                        sh.violation(f"C05:{variant}:payoff-accessor-differs-from-samples:{comp}:{kind}",
                                     f"{tag}: level {level}: simulation_payoff_with_{comp}_process(start={a0}, end={b0}) = "
                                     f"{g[:4].tolist()}... ({g.shape}) but the simulated samples give {r[:4].tolist()}... ({r.shape})",
                                     {"Nl": Nl.tolist(), "regimes": rec.regime_log})
    if res is not None and all(f.size for f in ref_fine) and where == "return":
        # counts and costs (whatever the control variates)
        detail = {"Nl": Nl.tolist(), "regimes": rec.regime_log}
        with np.errstate(all="ignore"):
            n_ref = np.array([float(len(f)) for f in ref_fine])
            for name, b in (("cl", [w / len(f) for w, f in zip(work, ref_fine)]), ("cost", [sum(work)])):
                try:
                    a = np.asarray(getattr(res, name))
                except Exception as e:  # noqa
                    sh.violation(f"C05:{variant}:reported-{name}-raises:{type(e).__name__}{cost_suffix(case)}", f"{tag}: {e!r}", detail)
                    continue
                if name == "cost" and a.shape == ():
                    a = a.reshape(1)
                compare_cost(sh, name, a, b, rec, f"C05:{variant}:reported-{name}-not-from-the-simulated-samples{cost_suffix(case)}",
                             tag, detail)
        if not np.array_equal(np.asarray(res.Nl, dtype=float), n_ref):
            sh.violation(f"C05:{variant}:reported-Nl-not-the-simulated-counts",
                         f"{tag}: mlmc_results.Nl = {np.asarray(res.Nl).tolist()} but simulated {[len(f) for f in ref_fine]}", None)
    if case["cv"] != "none" and where == "return":
        # the control-variate adjusted samples (what price() and the results use then): one row per simulated sample, and
        # price() is the sum of the per-level means of exactly those rows (their values are the subject of C07)
        try:
            p_cv, p_sum, p_big = stats.price(), 0.0, 64.0
            for level in range(min(nlev, len(stats.mc_statistics))):
                gf = np.asarray(stats.simulation_payoff_with_fine_process(level), dtype=float)
                gc = np.asarray(stats.simulation_payoff_with_coarse_process(level), dtype=float)
                n_ref = len(rec.samples.get(level, []))
                sh.count("evaluations")
                if gf.shape != (n_ref,) or gc.shape != (n_ref,):
                    sh.violation(f"C05:{variant}:cv-adjusted-rows-differ-from-simulated-count:{'level0' if level == 0 else 'level>0'}",
                                 f"{tag}: level {level}: {gf.shape[0]} adjusted fine rows, {gc.shape[0]} coarse, {n_ref} simulated samples",
                                 {"regimes": rec.regime_log})
                if gf.size:
                    p_sum += float(np.mean(gf) - np.mean(gc))
                    p_big += float(np.max(np.abs(gf)) + np.max(np.abs(gc))) * max(64, gf.size)  # summation bound, as above
            if not core.close(float(np.ravel(p_cv)[0]), p_sum, rtol=1e-10, atol=U * p_big):
                sh.violation(f"C05:{variant}:cv-adjusted-price-differs-from-sum-of-level-means:{dimk}",
                             f"{tag}: price() = {p_cv!r} but the per-level means of the adjusted samples sum to {p_sum!r}",
                             {"regimes": rec.regime_log})
        except Exception as e:  # noqa
            sh.violation(f"C05:{variant}:cv-adjusted-price-raises:{type(e).__name__}", f"{tag}: {e!r}", None)
    if res is not None and case["cv"] == "none" and all(f.size for f in ref_fine) and where == "return":
        refm = ref_moments(ref_fine, ref_coarse)
        detail = {"Nl": Nl.tolist(), "regimes": rec.regime_log}
        wrong = compare_reported(sh, res, refm, QUANT, f"C05:{variant}:reported-%s-not-from-the-simulated-samples", tag, detail)
        if final is not None:
            # a quantity already wrong in the canonical order is not judged again by the reading-history sub-checks
            final["refm"], final["wrong"] = refm, tuple(sorted(wrong))
    return (nlev, tuple(int(x) for x in Nl))


def cost_suffix(case):
    """Input class of the one-simulation costs in the violation keys (none for the historical integer-valued 2**l)."""
    kind = case.get("cost", "pow2")
    return "" if kind == "pow2" else f":{kind}-costs"


def ref_work(sh, case, rec, nlev, variant):
    """Exact work per level of the samples in the reference model: list of Fractions (mc/mlmc_driver.reference_work on the
    tally of the samples simulated per batch)."""
    sizes = getattr(rec, "batch_sizes", {})
    for level in range(nlev):
        if sum(sizes.get(level, ())) != len(rec.samples.get(level, [])):
            sh.violation(f"C05:{variant}:harness:batch-tally-differs-from-the-sample-list",
                         f"level {level}: batches {sizes.get(level)} but {len(rec.samples.get(level, []))} samples", None)
    return D.reference_work(case.get("cost", "pow2"), sizes, nlev)


def compare_cost(sh, name, got, work, rec, key, tag, detail):
    """A reported cost array against the exact work (Fractions). The engine accumulates cost * paths pass after pass in
    floating point: one rounding per product and per addition, all terms non-negative, so the relative error is at most
    (2 passes + levels + 2) u; judged with twice that bound, compared exactly in rational arithmetic."""
    from fractions import Fraction

    sh.count("evaluations")
    passes = max([len(v) for v in getattr(rec, "batch_sizes", {}).values()] or [0])
    rel = Fraction(2 * U * (2 * passes + len(work) + 2))
    ok = got.shape == (len(work),) and got.dtype.kind in "fiu"
    if ok:
        for a, w in zip(got.tolist(), work):
            if not (math.isfinite(a) and abs(Fraction(a) - w) <= rel * w):
                ok = False
    if not ok:
        sh.violation(key, f"{tag}: {name} = {got.tolist()} ({got.dtype}) but the work of the simulated samples gives "
                     f"{[float(w) for w in work]}", detail)


def ref_moments(ref_fine, ref_coarse):
    """Plain numpy statistics of the reference samples, with forward error bounds of the library's route (non-centred moments
    rebuilt from central ones and subtracted again): name -> (values, absolute tolerances)."""
    vals = {k: [] for k in ("ml", "vl", "mean_level_l", "var_level_l", "kurtosis")}
    tols = {k: [] for k in vals}
    with np.errstate(all="ignore"):
        for f, c in zip(ref_fine, ref_coarse):
            d = f - c
            big = float(max(np.max(np.abs(f)), np.max(np.abs(c)), 0.0))
            delta = 8 * U * big  # absolute uncertainty of one fine-minus-coarse sample (the stored rows agree to 1e-12 rel.)
            mu = float(np.mean(d))
            v = float(np.mean((d - mu) ** 2))
            m4 = float(np.mean((d - mu) ** 4))
            sd = math.sqrt(v)
            mf = float(np.mean(f))
            vf = float(np.mean((f - mf) ** 2))
            den = max(1.0, v) ** 2
            vals["ml"].append(abs(mu))
            tols["ml"].append(delta + 1e-10 * abs(mu))
            vals["vl"].append(v)
            tols["vl"].append(16 * U * (mu * mu + v) + 4 * delta * (sd + delta) + 1e-9 * v)
            vals["mean_level_l"].append(mf)
            tols["mean_level_l"].append(8 * U * big + 1e-10 * abs(mf))
            vals["var_level_l"].append(vf)
            tols["var_level_l"].append(16 * U * (mf * mf + vf) + 1e-9 * vf)
            vals["kurtosis"].append(m4 / den)
            tols["kurtosis"].append((64 * U * (abs(mu) + sd) ** 4 + 8 * delta * (abs(mu) + sd + delta) ** 3) / den + 1e-9 * m4 / den)
        out = {k: (np.array(vals[k]), np.array(tols[k])) for k in vals}
        # consistency_check (levels 1..): (ml_l - mean_l + mean_0) / (3 (sqrt vl_l + sqrt var_l + sqrt var_0))
        (ml, tml), (vl, tvl), (me, tme), (va, tva) = (out[k] for k in ("ml", "vl", "mean_level_l", "var_level_l"))
        num = ml[1:] - me[1:] + me[:1]
        tnum = tml[1:] + tme[1:] + tme[:1]

        def lo_hi(x, t):
            return np.sqrt(np.maximum(x - t, 0.0)), np.sqrt(x + t)

        l1, h1 = lo_hi(vl[1:], tvl[1:])
        l2, h2 = lo_hi(va[1:], tva[1:])
        l3, h3 = lo_hi(va[:1], tva[:1])
        lo, hi = 3 * (l1 + l2 + l3), 3 * (h1 + h2 + h3)
        den = 3 * (np.sqrt(vl[1:]) + np.sqrt(va[1:]) + np.sqrt(va[:1]))
        ok = (lo > 0) & ((hi - lo) <= 1e-3 * lo)
        cc = num / den
        tcc = np.where(ok, (np.abs(num) * (hi - lo) / lo + tnum) / np.where(ok, lo, 1.0) + 1e-9 * np.abs(cc), np.inf)
        out["consistency_check"] = (cc, tcc)
    return out


def compare_reported(sh, res, refm, order, keyfmt, tag, detail, stop_at_first=False, unjudged=()):
    """Read the quantities `order` of the results object, in that order, and compare each with the numpy reference (the
    quantities `unjudged` are read - the read is part of the history - but not compared). Returns the names found wrong."""
    bad = set()
    with np.errstate(all="ignore"):
        for name in order:
            b, t = refm[name]
            try:
                a = np.asarray(getattr(res, name), dtype=float)
            except Exception as e:  # noqa
                sh.violation((keyfmt % name) + f":raises-{type(e).__name__}", f"{tag}: reading {name}: {e!r}", detail)
                bad.add(name)
                continue
            if name in unjudged:
                continue
            sh.count("evaluations")
            if name == "consistency_check":
                sh.count("cc-degenerate", int(np.sum(~np.isfinite(t))))
            if a.shape != b.shape:
                sh.violation(keyfmt % name, f"{tag}: reported {name} has shape {a.shape}, {b.shape} levels were simulated", detail)
                bad.add(name)
                continue
            judged = np.isfinite(t)
            err = np.abs(a - b)
            wrong = judged & ~((err <= t) | (np.isnan(a) & np.isnan(b)) | (a == b))
            if np.any(wrong):
                i = int(np.argmax(wrong))
                lvl = i + 1 if name == "consistency_check" else i
                sh.violation(keyfmt % name,
                             f"{tag}: reported {name} = {a.tolist()} but the simulated samples give {b.tolist()} "
                             f"(level {lvl}: off by {float(err[i])!r}, bound {float(t[i])!r}; read order {list(order)})", detail)
                bad.add(name)
                if stop_at_first:
                    break
    return bad


def variant_of(case):
    entry = "adaptive" if case["sub"].startswith("adaptive") else "fixed"
    out = entry + ("-pool" if case.get("procs", 1) != 1 else "") + (f"-after-{case['prior']}" if case.get("prior") else "")
    if case.get("engine_copy"):
        kind, when = case["engine_copy"].split(":")
        out += f"-on-{kind}-of-engine-{when}"
    return out


def copy_refused(sh, key, kind, e):
    """copy.copy / copy.deepcopy are the protocol the library itself applies to these classes: a refusal is reported. A dill
    round trip of a statistics / results object is something no library route performs: an object that cannot be pickled
    reports nothing wrong - counted, not judged (a copy that exists is judged in full)."""
    if kind == "dill":
        sh.count("dill-copy-refused")
        sh.note(f"dill round trip refused ({type(e).__name__}): counted, not judged")
    else:
        sh.violation(f"{key}:{kind}:{type(e).__name__}", f"{e!r}", None)


class _DefaultAnswers:
    def choose(self, arity, label=""):
        return 0


def price(eng, product, entry, rmse):
    return eng.price(product, rmse) if entry == "adaptive" else eng.price_with_constant_mc_paths_and_level(product)


def run_once(sh, case, chooser, extras=False):
    """One complete execution; returns trajectory (tuple), outcome label, the recorder and - for a run that returned - what
    the reading-history sub-checks need (statistics object, final Nl / sum_cost, numpy reference of the reported quantities).
    With `extras` the copies sub-checks run too: copies of the statistics object taken at every set_mlmc_results of the run
    (judged after the run against the samples simulated until then) and at return."""
    import contextlib
    import warnings

    from rpylib.montecarlo.statistic.statistic import MLMCStatistics

    eng, rec, product, coupling = build_engine(case, chooser)
    variant = variant_of(case)
    adaptive = variant.startswith("adaptive")
    pool = case.get("procs", 1) != 1
    ec_kind, ec_when = case["engine_copy"].split(":") if case.get("engine_copy") else (None, None)
    traj = []
    last = {}
    snaps = []
    orig = MLMCStatistics.set_mlmc_results

    def engine_copy(e):
        try:
            return copy_of(e, ec_kind)
        except Exception as ex:  # noqa
            if ec_kind != "dill":
                raise
            # no library route pickles an Engine: an engine that cannot be pickled prices nothing wrong (counted)
            sh.count("dill-copy-refused")
            sh.note(f"dill round trip of the Engine refused ({type(ex).__name__}): counted, not judged")
            raise CopyRefused() from ex

    def observed(self, Nl, sum_cost):
        given = (np.array(Nl, copy=True), np.array(sum_cost, copy=True))
        orig(self, Nl, sum_cost)
        if not (np.array_equal(given[0], np.asarray(Nl)) and np.array_equal(given[1], np.asarray(sum_cost))):
            sh.violation(f"C05:{variant}:set_mlmc_results-modifies-the-arrays-it-is-given",
                         f"{variant}: Nl {given[0].tolist()} -> {np.asarray(Nl).tolist()}, sum_cost {given[1].tolist()} -> "
                         f"{np.asarray(sum_cost).tolist()}", {"regimes": rec.regime_log})
        last["Nl"], last["sum_cost"] = given
        if extras and len(snaps) < 4:
            # a copy of the statistics object (with its unread results object) mid-run, judged after the run
            kind = ("deepcopy", "dill")[len(traj) % 2]
            counts = {l: len(v) for l, v in rec.samples.items()}
            counts = (counts, {l: list(v) for l, v in rec.batch_sizes.items()})
            try:
                snaps.append((kind, copy_of(self, kind), given[0], counts))
            except Exception as e:  # noqa
                copy_refused(sh, f"C05:{variant}:copy-of-statistics-raises:midrun", kind, e)
        traj.append(compare_state(sh, case, rec, self, Nl, sum_cost, f"set_mlmc_results#{len(traj)}", variant))

    # horizon guard through the recorder's chooser
    real_choose = chooser.choose

    def guarded(arity, label=""):
        lvl = int(label.split(":")[1][1:]) if label.startswith("regime:") else 0
        if rec.batches.get(lvl, 0) > HORIZON:
            raise Horizon(label)
        return real_choose(arity, label)

    outcome = "returned"
    final = None
    stats = None
    try:
        with np.errstate(all="ignore"), warnings.catch_warnings():
            warnings.simplefilter("ignore")
            with (D.pool_installed() if pool else contextlib.nullcontext()) as pools:
                if ec_when == "fresh":
                    # history: the Engine object that prices is a copy of the one that was constructed
                    eng = engine_copy(eng)
                if case.get("prior"):
                    # history: this Engine object has priced before; the reference model starts again afterwards
                    rec.chooser = _DefaultAnswers()
                    grabbed = []
                    if ec_when == "midrun-of-prior":
                        def grab(self, Nl, sum_cost):
                            orig(self, Nl, sum_cost)
                            if not grabbed:
                                grabbed.append(engine_copy(eng))

                        MLMCStatistics.set_mlmc_results = grab
                    prior_product = product
                    if case.get("prior_payoff"):
                        # the earlier pricing was of another product (other payoff dimension, other notional)
                        prior_product = D.make_product(case["prior_payoff"], notional=1.5)
                    try:
                        price(eng, prior_product, case["prior"], 0.3)
                    finally:
                        MLMCStatistics.set_mlmc_results = orig
                    if ec_when == "after-prior":
                        eng = engine_copy(eng)
                    elif ec_when == "midrun-of-prior":
                        eng = grabbed[0]  # the copy taken while the original was pricing; the original has finished since
                    for d in (rec.samples, rec.batches, rec.pending, rec.regime, rec.batch_sizes, rec.measured):
                        d.clear()
                    for lst in (rec.regime_log, rec.next_level_calls, rec.simulate_levels, rec.events):
                        del lst[:]
                    rec.chooser = chooser
                    if pool:
                        del pools.log[:]
                chooser.choose = guarded
                MLMCStatistics.set_mlmc_results = observed
                try:
                    rmse = np.float64(case["rmse"]) if case.get("rmse_form") == "npfloat" else case.get("rmse")
                    stats = price(eng, product, "adaptive" if adaptive else "fixed", rmse)
                except Horizon:
                    outcome = "horizon"
                    sh.count("horizon-runs")
                except Exception:  # noqa
                    if case["N0"] != 0:
                        raise
                    # degenerate size: a tree that refuses initial_mc_paths = 0 reports nothing that could be wrong
                    outcome = "rejected"
                    sh.count("degenerate-size-rejected")
                if pool:
                    sh.count("pool-map-calls", len(pools.log))
                    sh.count("pool-chunks", sum(c for (_, _, c) in pools.log))
                    if stats is not None and not pools.log and case["N0"] != 0:
                        sh.violation(f"C05:{variant}:harness:pool-branch-not-taken",
                                     f"nb_of_processes={case.get('procs')!r} but the engine never used the pool", None)
    except CopyRefused:
        outcome = "copy-refused"
    finally:
        MLMCStatistics.set_mlmc_results = orig
        chooser.choose = real_choose
    if stats is not None:
        with np.errstate(all="ignore"), warnings.catch_warnings():
            warnings.simplefilter("ignore")
            Nl_final = np.asarray(stats.mlmc_results.Nl)
            if "Nl" not in last:  # the engine did not go through set_mlmc_results: the reference counts and costs
                last["Nl"] = np.array(Nl_final, copy=True)
                last["sum_cost"] = np.array([float(w) for w in ref_work(sh, case, rec, len(Nl_final), variant)])
            final = {"stats": stats, "variant": variant, "Nl": last["Nl"], "sum_cost": last["sum_cost"],
                     "regimes": rec.regime_log}
            copies = []
            if extras:
                # copies of the returned statistics object, taken while its results object is still unread
                for kind in ("copy", "deepcopy", "dill"):
                    try:
                        copies.append((kind, copy_of(stats, kind)))
                    except Exception as e:  # noqa
                        copy_refused(sh, f"C05:{variant}:copy-of-statistics-raises:return", kind, e)
            compare_state(sh, case, rec, stats, Nl_final, None, "return", variant, final)
            for kind, cp in copies:
                compare_state(sh, case, rec, cp, np.asarray(cp.mlmc_results.Nl), None, "return", f"{variant}:{kind}-of-statistics")
                sh.count("statistics-copies")
            for kind, cp, Nl_then, counts in snaps:
                compare_state(sh, case, _Truncated(rec, *counts), cp, Nl_then, None, "return", f"{variant}:midrun-{kind}-of-statistics")
                sh.count("statistics-copies")
    return tuple(traj), outcome, rec, final


def fresh_results(final):
    """A new, unread results object of a finished run, through the public route the engine itself uses before returning."""
    final["stats"].set_mlmc_results(np.array(final["Nl"], copy=True), np.array(final["sum_cost"], copy=True))
    return final["stats"].mlmc_results


def check_case(sh, case):
    import warnings

    trajectories = set()
    state = {"first": True, "held": None, "copied": False}
    compared = [0]
    degenerate = [0]

    def read_held():
        # (b) the results object left unread by the previous run, read now that another run has been priced and read
        held = state["held"]
        if held is not None:
            res, refm, variant, regimes, wrong = held
            compare_reported(sh, res, refm, SCRIPTS_ORDER,
                             f"C05:{variant}:reported-%s-changed-by-a-later-run", f"{variant}:read-after-the-next-run",
                             {"regimes": regimes}, unjudged=wrong)
            compared[0] += 1
        state["held"] = None

    def run(ch):
        extras = not state["copied"] and case.get("shard", [0, 1])[0] == 0  # first run of the case: copies sub-checks
        traj, outcome, rec, final = run_once(sh, case, ch, extras=extras)
        state["copied"] = True
        trajectories.add((traj, outcome))
        if (case["N0"] == 0 or (case["bound"] == 0 and "orders_first" not in case)) and final is not None:
            degenerate[0] += 1
        sh.count("runs")
        sh.outcome((traj, outcome))
        if len(trajectories) <= 2 and case.get("N0") == 5 and case.get("payoff") == "forward" and case.get("cv") == "none":
            sh.sample({"config": case, "choices": [(l, c) for (l, a, c) in ch.points if c], "regimes": rec.regime_log[:12],
                       "trajectory": [list(t) for t in traj][:8], "outcome": outcome})
        with np.errstate(all="ignore"), warnings.catch_warnings():
            warnings.simplefilter("ignore")
            read_held()
            if final is None or "refm" not in final or final["Nl"] is None:
                return
            variant, refm, detail = final["variant"], final["refm"], {"regimes": final["regimes"]}
            if state["first"] and case.get("shard", [0, 1])[0] == 0 and case["sub"] != "fixed-pool":
                orders = []
                if "orders_first" in case:
                    # (d) every order of the six quantities that starts with the case's first quantity
                    q0 = case["orders_first"]
                    orders = [(q0,) + p for p in itertools.permutations([q for q in QUANT if q != q0])]
                else:
                    # (c) every ordered pair first, the rest in canonical order
                    for q1 in QUANT:
                        for q2 in QUANT:
                            if q1 != q2:
                                orders.append((q1, q2) + tuple(q for q in QUANT if q not in (q1, q2)))
                for order in orders:
                    bad = compare_reported(sh, fresh_results(final), refm, order,
                                           f"C05:{variant}:reported-%s-depends-on-the-reading-order", f"{variant}:fresh-results",
                                           detail, stop_at_first=True, unjudged=final["wrong"])
                    compared[0] += 1
                    sh.count("reading-orders")
                    if bad and "orders_first" not in case:
                        break
                # (e) copies of a results object that has been read in part (nothing / what the engine reads / everything)
                for kind in ("copy", "deepcopy", "dill"):
                    for k in (0, 2, len(QUANT)):
                        res = fresh_results(final)
                        compare_reported(sh, res, refm, QUANT[:k], f"C05:{variant}:reported-%s-depends-on-the-reading-order",
                                         f"{variant}:fresh-results", detail, stop_at_first=True, unjudged=QUANT)
                        try:
                            cp = copy_of(res, kind)
                        except Exception as e:  # noqa
                            copy_refused(sh, f"C05:{variant}:copy-of-results-raises", kind, e)
                            continue
                        key = f"C05:{variant}:reported-%s-differs-on-a-{kind}-of-the-results:read-{k}-before"
                        bad = compare_reported(sh, cp, refm, SCRIPTS_ORDER, key, f"{variant}:{kind}-of-results", detail,
                                               unjudged=final["wrong"])
                        for name in ("Nl", "cl", "cost"):
                            a, b = np.asarray(getattr(cp, name), dtype=float), np.asarray(getattr(res, name), dtype=float)
                            sh.count("evaluations")
                            if a.shape != b.shape or not np.array_equal(a, b, equal_nan=True):
                                sh.violation(key % name, f"{variant}: {kind} of the results object reports {name} = {a.tolist()}, "
                                             f"the original {b.tolist()}", detail)
                        if not bad:
                            compare_reported(sh, res, refm, QUANT, f"C05:{variant}:reported-%s-changed-by-reading-a-{kind}-of-the-results",
                                             f"{variant}:original-after-{kind}", detail, unjudged=final["wrong"])
                        sh.count("results-copies")
                        compared[0] += 1
            state["first"] = False
            state["held"] = (fresh_results(final), refm, variant, final["regimes"], final["wrong"])

    ex = core.ChoiceExplorer(run, bound=case["bound"], max_runs=200000)
    ex.explore(shard=tuple(case.get("shard", (0, 1))))
    with np.errstate(all="ignore"), warnings.catch_warnings():
        warnings.simplefilter("ignore")
        read_held()
    if ex.capped:
        sh.cap(f"run cap hit for {case}")
    sh.states += len(trajectories)
    sh.transitions += ex.points_total
    sh.count("evaluations", 0)
    sh.cls(f"procs:{case.get('procs', 1)!r}")
    if (len(trajectories) >= 2 or case["sub"].startswith("fixed") or ("orders_first" in case and compared[0] >= 120)
            or degenerate[0]):
        sh.nontriv()
