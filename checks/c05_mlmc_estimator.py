"""C05 - the multilevel estimator is the sum of per-level means over exactly the simulated samples.

Mode: stateless choice explorer (core.ChoiceExplorer) over complete runs of the real multilevel Engine.price and
Engine.price_with_constant_mc_paths_and_level, closed by the scripted coupling of mc/mlmc_driver.py.

Alphabet  environment answer per (level, batch): the statistical regime of the samples of that batch
          (default / zero variance / large variance / zero mean / persistent mean), which steers the adaptive loop through
          "add samples", "within 1 %", "converged", "add level", "maximum level reached", "all dNl zero".
Bound     all choice sequences with at most D deviations from the default regime (D = 2 quick, 3 thorough) for every
          configuration of the lattice {initial_level, maximum_level, initial_mc_paths, rmse, rates given/regressed,
          control variates none/one, payoff scalar/2-vector, discount factor, notional}; horizon 40 batches per level.
Oracle    reference model = plain list of (fine, coarse) per level appended at every simulate call. After every
          set_mlmc_results and at return: Nl[l] == len(ref[l]); the rows of level l's payoff array are exactly the
          discounted notional-scaled payoffs of ref[l], in order (no placeholder row, nothing missing / duplicated /
          overwritten); coarse == 0 at level 0; price(no cv) == sum_l mean(fine-coarse); Nl, ml, vl, mean_level_l,
          var_level_l, kurtosis, cl, cost equal the library's own moment functions applied to the reference lists.
Not covered: nb_of_processes > 1 (C08), real coupling processes (C03), spot statistics plots.
"""
from __future__ import annotations

import itertools
import math

import numpy as np

from mc import core
from mc import mlmc_driver as D

PID = "C05"
LEVEL = "model_checking"
RULE = (
    "every configuration of the stated lattice x every sequence of regime answers with at most D deviations from the "
    "default; one evaluation = one complete run of the real Engine.price (or the fixed-level variant); a configuration is "
    "non-trivial when its runs produced at least two distinct loop trajectories (sequence of (levels, Nl) at each "
    "set_mlmc_results) or, for the fixed-level variant, at least one compared level; states = distinct loop trajectories, "
    "transitions = choice points taken"
)
ASSUMPTIONS = [
    "the coupling process is a scripted stand-in (mc/mlmc_driver.py) implementing the interface the engine uses; the "
    "engine, statistics, path managers, product and control variates are the real ones",
    "single process (nb_of_processes=1); the worker pool is the subject of C08",
    "horizon: a run is stopped after 40 batches at one level and reported under C06",
]
CHUNK = 1
HORIZON = 40


class Horizon(Exception):
    pass


def configs(thorough):
    out = []
    for L0 in (2, 3):
        for dmax in ((0, 1, 3) if thorough else (0, 1, 2)):
            for N0 in ((2, 5, 16) if thorough else (2, 5)):
                for rmse in (0.5, 0.3):
                    for rates in ("given", "regressed"):
                        for cv in ("none", "one"):
                            for payoff in ("forward", "call2"):
                                if not thorough:
                                    # quick: a stated sub-lattice
                                    if cv == "one" and payoff == "call2":
                                        continue
                                    if (cv, payoff) != ("none", "forward") and (rates == "regressed" or N0 == 2):
                                        continue
                                    if rmse == 0.3 and not (L0 == 2 and dmax == 1 and N0 == 5 and rates == "given"
                                                            and cv == "none" and payoff == "forward"):
                                        continue
                                out.append({"sub": "adaptive", "L0": L0, "Lmax": L0 + dmax, "N0": N0, "rmse": rmse,
                                            "rates": rates, "cv": cv, "payoff": payoff, "df": 0.9, "notional": 2.5})
    return out


def is_deep(c, thorough):
    """The sub-lattice explored one deviation deeper."""
    base = c["cv"] == "none" and c["payoff"] == "forward" and c["rmse"] == 0.5 and c["L0"] == 2
    if thorough:
        return base and c["N0"] in (2, 5) and c["Lmax"] - c["L0"] in (1, 3)
    return base and ((c["N0"], c["Lmax"] - c["L0"], c["rates"]) in ((2, 1, "given"), (5, 2, "regressed")))


def cases(tier):
    thorough = tier == "thorough"
    out = []
    if not thorough:
        for c in configs(False):
            out.append(dict(c, bound=1, shard=[0, 1]))
        for c in configs(False):
            if is_deep(c, False):
                for i in range(8):
                    out.append(dict(c, bound=2, shard=[i, 8]))
    else:
        # thorough: the full lattice with one deviation, a stated sub-lattice with two, four configurations with three
        for c in configs(True):
            out.append(dict(c, bound=1, shard=[0, 1]))
        for c in configs(True):
            if (c["rmse"] == 0.5 and c["N0"] in (2, 5)
                    and (c["cv"], c["payoff"]) in (("none", "forward"), ("one", "forward"), ("none", "call2"))):
                for i in range(4):
                    out.append(dict(c, bound=2, shard=[i, 4]))
        for c in configs(True):
            if is_deep(c, True) and c["rates"] == "given":
                for i in range(16):
                    out.append(dict(c, bound=3, shard=[i, 16]))
    # fixed-level variant; initial_level <= maximum_level (a configuration with initial_level > maximum_level is not a
    # meaningful multilevel configuration and is outside the alphabet)
    for (L0, Lmax) in ((0, 0), (0, 1), (1, 1), (2, 3), (1, 3)):
        for N0 in (1, 2, 7):
            for cv in ("none", "one"):
                for payoff in ("forward", "call2"):
                    out.append({"sub": "fixed", "L0": L0, "Lmax": Lmax, "N0": N0, "cv": cv, "payoff": payoff, "df": 0.9,
                                "notional": 2.5, "bound": 2 if thorough else 1, "shard": [0, 1]})
    return out


# ----------------------------------------------------------------------------------------------------------------------

def build_engine(case, chooser):
    from rpylib.montecarlo.configuration import ConfigurationMultiLevel, ConvergenceRates
    from rpylib.montecarlo.multilevel.engine import Engine

    rec = D.Recorder(chooser)
    coupling = D.ScriptedCoupling(rec, df=case["df"])
    product = D.make_product(case["payoff"], notional=case["notional"])
    cv = D.make_control_variates(case["cv"], notional=case["notional"], dim=1 if case["payoff"] == "forward" else 2)
    rates = ConvergenceRates(alpha=1.0, beta=2.0, gamma=1.0) if case.get("rates", "given") == "given" else ConvergenceRates()
    conf = ConfigurationMultiLevel(
        convergence_rates=rates,
        initial_level=case.get("L0", 2),
        maximum_level=case["Lmax"],
        initial_mc_paths=case["N0"],
        seed=None,
        control_variates=cv,
        nb_of_processes=1,
    )
    eng = Engine(configuration=conf, coupling_process=coupling)
    return eng, rec, product, coupling


def ref_arrays(case, rec, level):
    """Reference payoff rows of one level: shape (n, dim, 2)."""
    lst = rec.samples.get(level, [])
    dim = 1 if case["payoff"] == "forward" else 2
    out = np.zeros((len(lst), dim, 2))
    for i, (f, c) in enumerate(lst):
        out[i, :, 0] = D.payoff_ref(case["payoff"], case["notional"], case["df"], f)
        if level > 0:
            out[i, :, 1] = D.payoff_ref(case["payoff"], case["notional"], case["df"], c)
    return out


def cv_ref_arrays(case, rec, level):
    lst = rec.samples.get(level, [])
    n = len(lst)
    dim = 1 if case["payoff"] == "forward" else 2
    nt, df = case["notional"], case["df"]
    if level == 0:
        out = np.zeros((n, 1, dim))
        for i, (f, c) in enumerate(lst):
            out[i, 0, :] = nt * (f - 0.125) * df
    else:
        out = np.zeros((n, 1, dim, 2))
        for i, (f, c) in enumerate(lst):
            out[i, 0, :, 0] = nt * (f - 0.125) * df
            out[i, 0, :, 1] = nt * (c - 0.125) * df
    return out


def compare_state(sh, case, rec, stats, Nl, sum_cost, where, variant):
    """The C05 oracle on one observation point. Returns a short trajectory token."""
    from rpylib.montecarlo.statistic.statistic import MLMCResults

    tag = f"{variant}:{where}"
    cvk = "cv" if case["cv"] != "none" else "nocv"
    dimk = "dim1" if case["payoff"] == "forward" else "dim2"
    Nl = np.asarray(Nl)
    nlev = len(Nl)
    ref_fine, ref_coarse = [], []
    for level in range(nlev):
        ref = ref_arrays(case, rec, level)
        n_ref = ref.shape[0]
        late = "late-level" if level > case.get("L0", case["Lmax"]) else "initial-level"
        if int(Nl[level]) != n_ref:
            sh.violation(f"C05:{variant}:Nl-differs-from-simulated-count:{late}",
                         f"{tag}: level {level}: reported Nl={int(Nl[level])} but {n_ref} samples were simulated",
                         {"Nl": Nl.tolist(), "simulated": {l: len(v) for l, v in rec.samples.items()}, "regimes": rec.regime_log})
        mcs = stats.mc_statistics[level] if level < len(stats.mc_statistics) else None
        if mcs is None:
            sh.violation(f"C05:{variant}:no-statistics-for-level", f"{tag}: level {level} has no statistics object", None)
            continue
        got = np.asarray(mcs._payoff_statistics.stats)
        if got.shape[0] != n_ref:
            first = got[0].tolist() if got.shape[0] else None
            kind = "zero-placeholder-row-first" if (got.shape[0] == n_ref + 1 and not np.any(got[0])) else "row-count"
            sh.violation(f"C05:{variant}:stored-rows-differ-from-simulated:{kind}:{late}",
                         f"{tag}: level {level}: {got.shape[0]} stored rows, {n_ref} simulated samples (first row {first})",
                         {"regimes": rec.regime_log, "Nl": Nl.tolist()})
        m = min(got.shape[0], n_ref)
        g = got[:m] if got.shape[0] == n_ref else (got[1:m + 1] if got.shape[0] == n_ref + 1 else got[:m])
        if g.shape != ref[:g.shape[0]].shape:
            sh.violation(f"C05:{variant}:stored-row-shape:{dimk}", f"{tag}: level {level}: shape {got.shape} vs reference {ref.shape}", None)
        else:
            r = ref[:g.shape[0]]
            if g.size and not np.array_equal(g, r):
                bad = np.argwhere(~np.isclose(g, r, rtol=1e-12, atol=0.0))
                if bad.size:
                    i = tuple(int(v) for v in bad[0])
                    comp = "coarse" if i[2] == 1 else "fine"
                    l0 = "level0" if level == 0 else "level>0"
                    # classify: is the stored matrix the transpose of the reference (fine/coarse axis vs component axis)?
                    transposed = g.shape[1] == 2 and np.allclose(g[i[0]].T, r[i[0]], rtol=1e-12)
                    cls = "fine-coarse-axis-swapped-with-payoff-component" if transposed else "value"
                    sh.violation(f"C05:{variant}:stored-row-differs-from-sample:{cls}:{comp}:{l0}:{dimk}",
                                 f"{tag}: level {level} row {i[0]} component {i[1]} {comp}: stored {g[i]} but the simulated sample gives {r[i]}",
                                 {"stored_row": g[i[0]].tolist(), "reference_row": r[i[0]].tolist(), "regimes": rec.regime_log})
        sh.count("evaluations")
        # control-variate rows
        if case["cv"] != "none":
            gcv = np.asarray(mcs._control_variates_statistics.stats)
            rcv = cv_ref_arrays(case, rec, level)
            if gcv.shape != rcv.shape or (gcv.size and not np.allclose(gcv, rcv, rtol=1e-12, atol=0.0)):
                sh.violation(f"C05:{variant}:control-variate-rows-differ:{'level0' if level == 0 else 'level>0'}:{dimk}",
                             f"{tag}: level {level}: stored control-variate rows {gcv.shape} differ from the samples {rcv.shape}",
                             {"stored": gcv[:3].tolist(), "reference": rcv[:3].tolist()})
        ref_fine.append(ref[:, 0, 0])
        ref_coarse.append(ref[:, 0, 1])
    # price without control variates: sum of per-level means of component 0
    try:
        p = stats.price(no_control_variates=True)
        p_ref = sum((float(np.mean(f - c)) if f.size else 0.0) for f, c in zip(ref_fine, ref_coarse))
        # levels beyond len(Nl) that exist in statistics (should not hold samples)
        if not core.close(p, p_ref, rtol=1e-11, atol=1e-13):
            sh.violation(f"C05:{variant}:price-differs-from-sum-of-level-means:{cvk}:{dimk}",
                         f"{tag}: price(no cv) = {p!r} but sum of per-level sample means = {p_ref!r}",
                         {"Nl": Nl.tolist(), "regimes": rec.regime_log})
    except Exception as e:  # noqa
        sh.violation(f"C05:{variant}:price-raises:{type(e).__name__}", f"{tag}: {e!r}", None)
    # the derived statistics, against the library's own moment functions applied to the reference lists
    res = stats.mlmc_results
    if res is not None and case["cv"] == "none" and all(f.size for f in ref_fine) and where != "return":
        # cheap intermediate comparison of the two quantities that steer the loop (numpy formulas, rtol 1e-9)
        with np.errstate(all="ignore"):
            ml_ref = np.array([abs(float(np.mean(f - c))) for f, c in zip(ref_fine, ref_coarse)])
            vl_ref = np.array([max(0.0, float(np.mean((f - c - np.mean(f - c)) ** 2))) for f, c in zip(ref_fine, ref_coarse)])
            for name, b in (("ml", ml_ref), ("vl", vl_ref)):
                a = np.asarray(getattr(res, name), dtype=float)
                scale = float(np.max(np.abs(b))) if b.size else 0.0
                if a.shape != b.shape or not np.allclose(a, b, rtol=1e-9, atol=1e-9 * scale + 1e-300):
                    sh.violation(f"C05:{variant}:reported-{name}-not-from-the-simulated-samples",
                                 f"{tag}: reported {name} = {a.tolist()} but the simulated samples give {b.tolist()}",
                                 {"Nl": Nl.tolist(), "regimes": rec.regime_log})
    if res is not None and case["cv"] == "none" and all(f.size for f in ref_fine) and where == "return":
        cost_ref = np.array([float(2 ** l) * len(rec.samples.get(l, [])) for l in range(nlev)])
        with np.errstate(all="ignore"):
            ref_res = MLMCResults(Nl=np.array([len(f) for f in ref_fine]), sum_cost=cost_ref, all_pl_fine=ref_fine,
                                  all_pl_coarse=ref_coarse)
            for name in ("ml", "vl", "mean_level_l", "var_level_l", "kurtosis", "cl", "cost"):
                a = np.asarray(getattr(res, name), dtype=float)
                b = np.asarray(getattr(ref_res, name), dtype=float)
                if a.shape != b.shape or not np.allclose(a, b, rtol=1e-10, atol=1e-12, equal_nan=True):
                    sh.violation(f"C05:{variant}:reported-{name}-not-from-the-simulated-samples",
                                 f"{tag}: reported {name} = {a.tolist()} but the same formula on the simulated samples gives {b.tolist()}",
                                 {"Nl": Nl.tolist(), "regimes": rec.regime_log})
        if not np.array_equal(np.asarray(res.Nl, dtype=float), np.asarray([len(f) for f in ref_fine], dtype=float)):
            sh.violation(f"C05:{variant}:reported-Nl-not-the-simulated-counts",
                         f"{tag}: mlmc_results.Nl = {np.asarray(res.Nl).tolist()} but simulated {[len(f) for f in ref_fine]}", None)
    return (nlev, tuple(int(x) for x in Nl))


def run_once(sh, case, chooser):
    """One complete execution; returns trajectory (tuple) and outcome label."""
    from rpylib.montecarlo.statistic.statistic import MLMCStatistics

    eng, rec, product, coupling = build_engine(case, chooser)
    variant = case["sub"]
    traj = []
    orig = MLMCStatistics.set_mlmc_results

    def observed(self, Nl, sum_cost):
        orig(self, Nl, sum_cost)
        traj.append(compare_state(sh, case, rec, self, Nl, sum_cost, f"set_mlmc_results#{len(traj)}", variant))

    # horizon guard through the recorder's chooser
    real_choose = chooser.choose

    def guarded(arity, label=""):
        lvl = int(label.split(":")[1][1:]) if label.startswith("regime:") else 0
        if rec.batches.get(lvl, 0) > HORIZON:
            raise Horizon(label)
        return real_choose(arity, label)

    chooser.choose = guarded
    MLMCStatistics.set_mlmc_results = observed
    outcome = "returned"
    try:
        with np.errstate(all="ignore"):
            import warnings

            with warnings.catch_warnings():
                warnings.simplefilter("ignore")
                if variant == "adaptive":
                    stats = eng.price(product, case["rmse"])
                else:
                    stats = eng.price_with_constant_mc_paths_and_level(product)
        Nl_final = np.asarray(stats.mlmc_results.Nl)
        compare_state(sh, case, rec, stats, Nl_final, None, "return", variant)
    except Horizon:
        outcome = "horizon"
        sh.count("horizon-runs")
    finally:
        MLMCStatistics.set_mlmc_results = orig
        chooser.choose = real_choose
    return tuple(traj), outcome, rec


def check_case(sh, case):
    trajectories = set()

    def run(ch):
        traj, outcome, rec = run_once(sh, case, ch)
        trajectories.add((traj, outcome))
        sh.count("runs")
        sh.outcome((traj, outcome))
        if len(trajectories) <= 2 and case.get("N0") == 5 and case.get("payoff") == "forward" and case.get("cv") == "none":
            sh.sample({"config": case, "choices": [(l, c) for (l, a, c) in ch.points if c], "regimes": rec.regime_log[:12],
                       "trajectory": [list(t) for t in traj][:8], "outcome": outcome})

    ex = core.ChoiceExplorer(run, bound=case["bound"], max_runs=200000)
    ex.explore(shard=tuple(case.get("shard", (0, 1))))
    if ex.capped:
        sh.cap(f"run cap hit for {case}")
    sh.states += len(trajectories)
    sh.transitions += ex.points_total
    sh.count("evaluations", 0)
    if len(trajectories) >= 2 or case["sub"] == "fixed":
        sh.nontriv()
