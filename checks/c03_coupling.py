"""C03 - level coupling keeps the coarse path in the previous level's law (telescoping).

A real coupling object (CouplingMarkovChain / CouplingProcessLevyCopula / CouplingSDE) is taken to level l with the real
next_level (real Product, real path managers). For every fine state x the coupling kernel u -> coarse state is driven through
the coupling's own uniform seam and recovered exactly (partition recovery, <= 2^d pieces), giving P(x -> y).

Oracle
 (i)   telescoping: sum_x rate_l(x) P(x -> y) = rate_{l-1}(y) for every coarse state y, with rate_{l-1} from a chain built by
       the public constructor on an INDEPENDENTLY constructed grid refined l-1 times, and the mass sent to "no coarse jump"
       (y = origin) = sum rate_l - sum rate_{l-1};
 (ii)  even increments are copied unchanged (no uniform consumed, same value), odd ones go only to coarse states adjacent in
       each odd coordinate (and unchanged in the even ones);
 (iii) coarse deterministic path at level l = deterministic path of the level l-1 chain; coarse diffusion coefficient (matrix)
       = level l-1's; with scripted Brownian increments w both diffusion components are cumsum(coef sqrt(dt) w) for the same w;
 (iv)  CouplingSDE: mc_drift_2h = drift of the level l-1 driver chain, mc_drift_h = drift of the level-l driver chain;
 (v)   1-d path assembly with scripted jump counts, sampler uniforms and coupling uniforms (fixed dates and jump times): the
       fine component equals the fine chain's path and the coarse component the reference sums of the kernel images - for every
       sampling method the constructor accepts.
Not covered: h below 0.05, dimension 3 beyond a 3-point grid, infinite-variation copula margins in the quick tier (their
 diffusion matrix needs a multi-dimensional quadrature of minutes).
"""
from __future__ import annotations

import itertools
import math
from collections import deque

import numpy as np

from checks import c02_samplers as C2
from mc import alphabets as A
from mc import core
from mc import oracle as O

PID = "C03"
LEVEL = "model_checking"
RULE = (
    "every (model, grid, sampling method, level) of the stated lattice: the kernel of every fine state is recovered exactly "
    "and the telescoping identity is checked for every coarse state; states = fine states whose kernel was recovered, "
    "transitions = kernel pieces (fine state -> coarse state with positive probability); non-trivial = at least one odd "
    "increment was split between two coarse states"
)
ASSUMPTIONS = [
    "rates are the chain's own model.mass on reference cells (checked against quadrature in C01)",
    "the kernel is observed through the coupling's uniform seam (Uniform.sample replaced by a scripted value)",
]
CHUNK = 1

HEM = {"family": "hem", "exp": False, "params": {}}
HEMX = {"family": "hem", "exp": True, "params": {}, "r": 0.02, "d": 0.0, "spot": 100.0}
VG = {"family": "vg", "exp": False, "params": {}}
CG12 = {"family": "cgmy", "exp": False, "params": {"c": 1.0, "g": 15.0, "m": 20.0, "y": 1.2}}
CG05 = {"family": "cgmy", "exp": True, "params": {"c": 1.0, "g": 15.0, "m": 20.0, "y": 0.5}, "r": 0.02, "d": 0.0, "spot": 100.0}
MER = {"family": "merton", "exp": False, "params": {}}


def cases(tier):
    thorough = tier == "thorough"
    out = []
    models = [HEM, CG12, VG, CG05] + ([MER, HEMX] if thorough else [])
    grids = [
        {"kind": "fixed", "h": 0.1, "n": 5},
        {"kind": "uniform", "h": 0.2, "p": 0.99999},
        {"kind": "geometric-bounds", "h": 0.1, "bounds": [-0.7, 0.4], "n_side": 3},
        {"kind": "probability", "h": 0.1, "pmin": 0.2},
        {"kind": "credit", "h": 0.1, "a_frac": 0.5, "symmetric": True},
    ] + ([{"kind": "geometric", "h": 0.1, "n_side": 4, "p": 0.99999}, {"kind": "fixed", "h": 0.05, "n": 8}] if thorough else [])
    methods = ["INVERSION", "ALIAS", "BINARYSEARCHTREE", "HUFFMANNTREE", "TABLE", "BINARYSEARCHTREEADAPTED1D"]
    for m in models:
        for g in grids:
            for level in ((1, 2, 3) if thorough else (1, 2)):
                if g["kind"] == "probability" and level > 2:
                    continue
                # the kernel does not depend on the sampling method: one method per (model, grid, level) for the kernel
                # sub-checks, rotating through the methods so that each is used; the assembly sub-check runs them all
                meth = methods[(len(out)) % len(methods)]
                out.append({"sub": "kernel1d", "model": m, "grid": g, "level": level, "method": meth})
    for m in (HEM, CG12) if not thorough else (HEM, CG12, VG):
        for g in grids[:3]:
            for meth in methods:
                for mode in ("fixed", "jumptimes"):
                    out.append({"sub": "assembly1d", "model": m, "grid": g, "level": 1, "method": meth, "mode": mode})
    cms = [
        {"margins": ["hem", "vg"], "copula": {"kind": "clayton", "theta": 0.7, "eta": 0.3}},
        {"margins": ["cgmy05", "hem2"], "copula": {"kind": "clayton", "theta": 3.0, "eta": 1.0}},
        {"margins": ["hem", "hem2"], "copula": {"kind": "independent"}},
        {"margins": ["hem", "vg"], "copula": {"kind": "dependent"}},
    ]
    if thorough:
        cms += [{"margins": ["vg", "cgmy05"], "copula": {"kind": "clayton", "theta": 3.0, "eta": 0.0}},
                {"margins": ["hem", "cgmy12"], "copula": {"kind": "clayton", "theta": 0.7, "eta": 0.3}}]
    grids2 = [
        {"kind": "fixed", "h": 0.1, "n": 3},
        {"kind": "fixed", "h": 0.1, "n": 5},
        {"kind": "credit", "h": 0.1, "a_frac": 0.5, "symmetric": True},
    ] + ([{"kind": "credit", "h": 0.1, "a_frac": [0.4, 0.6], "symmetric": False}] if thorough else [])
    # the only constructor that gives the coordinates different axes (one threshold per name): also in the quick tier
    out.append({"sub": "kernelnd", "dim": 2, "model": cms[0], "grid": {"kind": "credit", "h": 0.1, "a_frac": [0.4, 0.6], "symmetric": False},
                "level": 1, "method": "INVERSION"})
    for cm in cms:
        for g in grids2:
            for level in ((1, 2) if (thorough or g["kind"] == "fixed" and g["n"] == 3) else (1,)):
                for meth in ("INVERSION",) if not thorough else ("INVERSION", "BINARYSEARCHTREEADAPTED"):
                    out.append({"sub": "kernelnd", "dim": 2, "model": cm, "grid": g, "level": level, "method": meth})
    cm3 = {"margins": ["hem", "vg", "cgmy05"], "copula": {"kind": "clayton", "theta": 0.7, "eta": 0.3}}
    out.append({"sub": "kernelnd", "dim": 3, "model": cm3, "grid": {"kind": "fixed", "h": 0.1, "n": 3}, "level": 1, "method": "INVERSION"})
    # SDE coupling
    for drv in (HEM, CG12):
        for level in (1, 2):
            out.append({"sub": "sde", "driver": drv, "grid": {"kind": "fixed", "h": 0.1, "n": 5}, "level": level})
    return out


def check_case(sh, case):
    {"kernel1d": _kernel1d, "kernelnd": _kernelnd, "assembly1d": _assembly1d, "sde": _sde}[case["sub"]](sh, case)


# ----------------------------------------------------------------------------------------------------------------------

def make_product(maturity=1.0, stochastic=False):
    from rpylib.product.payoff import Forward, PayoffDates
    from rpylib.product.product import Product
    from rpylib.product.underlying import Spot

    payoff = Forward(strike=0.0)
    if stochastic:
        payoff.payoff_dates_type = PayoffDates.STOCHASTIC
    return Product(payoff_underlying=Spot(), payoff=payoff, maturity=maturity)


def path_manager(fine_process):
    from rpylib.montecarlo.path import MLMCPath

    return MLMCPath(deterministic_path=fine_process.deterministic_path, activate_spot_underlying=False)


def rates_1d(proc, grid):
    axis = grid.axes[0]
    o = grid.origin_coordinate.value
    cells, _ = O.ref_cells(axis, o, middle=grid.middle)
    out = {}
    for k, cell in enumerate(cells):
        if cell is not None:
            out[float(axis[k])] = max(float(proc.model.mass(float(cell[0]), float(cell[1]))), 0.0)
    return out


def rates_nd(proc, grid):
    orig = list(grid.origin_coordinate)
    per_axis = []
    for k, axis in enumerate(grid.axes):
        cells, central = O.ref_cells(axis, orig[k], middle=None)
        per_axis.append([c if c is not None else central for c in cells])
    out = {}
    for idx in itertools.product(*[range(len(ax)) for ax in grid.axes]):
        if all(i == o for i, o in zip(idx, orig)):
            continue
        a = tuple(float(per_axis[k][i][0]) for k, i in enumerate(idx))
        b = tuple(float(per_axis[k][i][1]) for k, i in enumerate(idx))
        out[tuple(float(grid.axes[k][i]) for k, i in enumerate(idx))] = max(float(proc.model.mass(a, b)), 0.0)
    return out


def build_coupling_1d(case, product):
    from rpylib.distribution.sampling import SamplingMethod
    from rpylib.process.coupling.couplingmarkovchain import CouplingMarkovChain

    model = A.make_model(case["model"])
    grid = A.make_grid(dict(case["grid"], refine=0), model, 1)
    cp = CouplingMarkovChain(model=model, method=SamplingMethod[case["method"]], grid=grid)
    product.update(cp.fine_process.process_representation)
    cp.initialisation(product)
    pms = [path_manager(cp.fine_process)]
    for l in range(case["level"]):
        cp.next_level(mc_paths=1, path_managers=pms, product=product)
        if l + 1 < case["level"]:
            exercise_kernel_1d(cp)
    return cp, pms, model


def exercise_kernel_1d(cp):
    """The multilevel engine refines a coupling object that has already simulated at the previous level (it deep-copies the
    level l-1 process and calls next_level on the copy): use the kernel of every fine state at the intermediate level before
    the next refinement, so that anything the object memoises at level l-1 is in place when level l is observed."""
    sim = cp._path_coupling_simulation
    axis = cp.grid.axes[0]
    o = cp.grid.origin_coordinate.value
    uni = cp.uniform
    orig = uni.sample
    try:
        for u in (0.3, 0.7):
            uni.sample = lambda size=1, u=u: np.array([u])
            for k in range(len(axis)):
                if k != o:
                    sim.coupling_state(k - o)
    finally:
        uni.sample = orig


def _kernel1d(sh, case):
    from rpylib.distribution.sampling import SamplingMethod
    from rpylib.process.markovchain.markovchain import MarkovChainProcess

    gk, mk = case["grid"]["kind"], case["model"]["family"]
    cls = f"{gk}:{mk}"
    product = make_product()
    try:
        cp, pms, model = build_coupling_1d(case, product)
    except A.OutsideAlphabet:
        sh.count("outside-alphabet-grid")
        return
    level = case["level"]
    sim = cp._path_coupling_simulation
    grid_f = cp.grid
    fine = cp.fine_process
    # independent coarse chain
    model_c = A.make_model(case["model"])
    grid_c = A.make_grid(dict(case["grid"], refine=level - 1), model_c, 1)
    chain_c = MarkovChainProcess(model=model_c, method=SamplingMethod[case["method"]], grid=grid_c)
    product_c = make_product()
    product_c.update(chain_c.process_representation)
    chain_c.initialisation(product_c)
    rf = rates_1d(fine, grid_f)
    rc = rates_1d(chain_c, grid_c)
    lam_f, lam_c = sum(rf.values()), sum(rc.values())
    axis = grid_f.axes[0]
    o = grid_f.origin_coordinate.value
    coarse_vals = set(float(v) for v in grid_c.axes[0])
    acc = {}
    split = 0
    uni = cp.uniform
    orig_sample = uni.sample
    try:
        for k in range(len(axis)):
            inc = k - o
            if inc == 0:
                continue
            x = float(axis[k])
            used = {"n": 0}

            def f(u, inc=inc):
                def s(size=1):
                    used["n"] += 1
                    return np.array([u]) if size == 1 else np.full(size, u)

                uni.sample = s
                return float(sim.coupling_state(inc))

            pieces, ev, hi = C2.recover_partition(f, 64)
            sh.count("evaluations", ev)
            L = C2.lengths(pieces, hi)
            sh.states += 1
            sh.transitions += len(L)
            if inc % 2 == 0:
                if used["n"] or list(L) != [x]:
                    sh.violation(f"C03:kernel1d:even-increment-not-copied:{cls}",
                                 f"level {level}: fine increment {inc} (value {x}) -> {L} (uniforms consumed {used['n']})", None)
            else:
                left, right = float(axis[k - 1]), float(axis[k + 1])
                if set(L) - {left, right}:
                    sh.violation(f"C03:kernel1d:odd-increment-moved-to-non-adjacent-coarse-state:{cls}",
                                 f"level {level}: fine increment {inc} (value {x}) -> {sorted(L)}; coarse neighbours {left}, {right}", None)
                if len(L) == 2:
                    split += 1
                # the kernel must be monotone in u: small u -> right state (as coded) is not required; only the law matters
            for y, p in L.items():
                if y not in coarse_vals:
                    sh.violation(f"C03:kernel1d:coarse-value-not-on-the-coarse-grid:{cls}", f"level {level}: increment {inc} -> {y}", None)
                acc[y] = acc.get(y, 0.0) + rf[x] * p
    finally:
        uni.sample = orig_sample
    # (i) telescoping
    tol = 1e-9 * lam_f + 1e-300
    for y, r in rc.items():
        got = acc.get(y, 0.0)
        if abs(got - r) > tol:
            pos = "boundary-state" if y in (float(grid_c.axes[0][0]), float(grid_c.axes[0][-1])) else "interior-state"
            sh.violation(f"C03:kernel1d:coarse-rate-not-reproduced:{pos}:{cls}",
                         f"level {level}: coarse state {y}: sum_x rate(x) P(x->y) = {got!r} but the level-{level - 1} chain has rate {r!r}",
                         {"lam_f": lam_f, "lam_c": lam_c})
    nj = acc.get(0.0, 0.0)
    if abs(nj - (lam_f - lam_c)) > tol:
        sh.violation(f"C03:kernel1d:no-coarse-jump-mass-differs:{cls}",
                     f"level {level}: mass sent to the coarse origin {nj!r} but lambda_l - lambda_(l-1) = {lam_f - lam_c!r}", None)
    if not core.close(float(fine.intensity_of_jumps), lam_f, rtol=1e-9) or not core.close(float(chain_c.intensity_of_jumps), lam_c, rtol=1e-9):
        sh.violation(f"C03:kernel1d:intensity-differs-from-sum-of-rates:{cls}",
                     f"fine {fine.intensity_of_jumps!r} vs {lam_f!r}; coarse {chain_c.intensity_of_jumps!r} vs {lam_c!r}", None)
    # (iii) deterministic path and diffusion
    times = np.array([0.0, 0.3, 1.0])
    dp = np.asarray(pms[-1].deterministic_path(times), dtype=float)
    want_c = np.asarray(chain_c.deterministic_path(times), dtype=float)
    want_f = np.asarray(fine.deterministic_path(times), dtype=float)
    scale = max(1.0, float(np.max(np.abs(want_c))))
    if dp.shape[0] != 2 or not np.allclose(dp[1], want_c, rtol=1e-11, atol=1e-12 * scale):
        sh.violation(f"C03:kernel1d:coarse-deterministic-path-not-level-minus-one:{cls}",
                     f"level {level}: coarse path {dp[1].tolist() if dp.shape[0] == 2 else dp.tolist()} vs level-{level - 1} chain {want_c.tolist()}", None)
    if dp.shape[0] == 2 and not np.allclose(dp[0], want_f, rtol=1e-11, atol=1e-12 * scale):
        sh.violation(f"C03:kernel1d:fine-deterministic-path-differs:{cls}", f"{dp[0].tolist()} vs {want_f.tolist()}", None)
    ec = float(cp.equivalent_diffusion_coefficient_coarse)
    ef = float(cp.equivalent_diffusion_coefficient_fine)
    if not core.close(ec, float(chain_c.equivalent_diffusion_coefficient), rtol=1e-11, atol=1e-15):
        sh.violation(f"C03:kernel1d:coarse-diffusion-coefficient-not-level-minus-one:{cls}",
                     f"level {level}: {ec!r} vs level-{level - 1} chain {float(chain_c.equivalent_diffusion_coefficient)!r}", None)
    if not core.close(ef, float(fine.equivalent_diffusion_coefficient), rtol=1e-11, atol=1e-15):
        sh.violation(f"C03:kernel1d:fine-diffusion-coefficient-differs:{cls}", f"{ef!r} vs {float(fine.equivalent_diffusion_coefficient)!r}", None)
    # same Brownian increments
    w = np.array([0.7])
    bq = getattr(fine._path_simulation, "_brownian_increments", None)
    if bq is not None:
        bq.clear()
        bq.append(w.copy())
        sq = np.array([1.0])
        dh, d2h = sim.simulate_diffusion_with_coupling(sq)
        if not (np.allclose(dh, np.cumsum(ef * sq * w), rtol=1e-12) and np.allclose(d2h, np.cumsum(ec * sq * w), rtol=1e-12)):
            sh.violation(f"C03:kernel1d:diffusion-components-not-driven-by-the-same-increments:{cls}",
                         f"w={w.tolist()}: fine {np.asarray(dh).tolist()} coarse {np.asarray(d2h).tolist()} coefficients {ef}, {ec}", None)
    sh.outcome((cls, level, len(rf), split, round(lam_f, 9)))
    if split:
        sh.nontriv()
    if gk == "fixed" and mk == "hem" and level == 1:
        sh.sample({"sub": "kernel1d", "case": case, "fine_rates": rf, "coarse_rates": rc, "telescoped": acc})


def _kernelnd(sh, case):
    from rpylib.distribution.sampling import SamplingMethod
    from rpylib.process.coupling.couplinglevycopula import CouplingProcessLevyCopula
    from rpylib.process.markovchain.markovchainlevycopula import MarkovChainLevyCopula

    dim, level = case["dim"], case["level"]
    gk = case["grid"]["kind"]
    mk = "+".join(case["model"]["margins"]) + ":" + case["model"]["copula"]["kind"]
    cls = f"d{dim}:{gk}:{mk}"
    meth = SamplingMethod[case["method"]]
    product = make_product()
    model = A.make_copula_model(case["model"])
    try:
        grid = A.make_grid(dict(case["grid"], refine=0), model, dim)
    except A.OutsideAlphabet:
        sh.count("outside-alphabet-grid")
        return
    cp = CouplingProcessLevyCopula(levy_copula_model=model, grid=grid, method=meth)
    product.update(cp.fine_process.process_representation)
    cp.initialisation(product)
    pms = [path_manager(cp.fine_process)]
    for l in range(level):
        cp.next_level(mc_paths=1, path_managers=pms, product=product)
        if l + 1 < level:
            # same reason as exercise_kernel_1d: observe level l on an object that has been used at level l-1
            sim0 = cp._path_coupling_simulation
            k0 = getattr(sim0, "_CouplingLevyCopulaSimulation__coupling_state")
            o0 = list(cp.grid.origin_coordinate)
            saved = cp._uniform.sample
            try:
                for u in (0.3, 0.7):
                    cp._uniform.sample = lambda size=1, u=u: np.array([u])
                    for idx in itertools.product(*[range(len(ax)) for ax in cp.grid.axes]):
                        inc = tuple(i - o for i, o in zip(idx, o0))
                        if any(inc):
                            try:
                                k0(inc)
                            except Exception:  # noqa - zero-rate states may refuse any uniform (see below)
                                pass
            finally:
                cp._uniform.sample = saved
    sim = cp._path_coupling_simulation
    fine, grid_f = cp.fine_process, cp.grid
    model_c = A.make_copula_model(case["model"])
    grid_c = A.make_grid(dict(case["grid"], refine=level - 1), model_c, dim)
    chain_c = MarkovChainLevyCopula(levy_copula_model=model_c, grid=grid_c, method=meth)
    product_c = make_product()
    product_c.update(chain_c.process_representation)
    chain_c.initialisation(product_c)
    rf, rc = rates_nd(fine, grid_f), rates_nd(chain_c, grid_c)
    lam_f, lam_c = sum(rf.values()), sum(rc.values())
    orig = list(grid_f.origin_coordinate)
    kernel = getattr(sim, "_CouplingLevyCopulaSimulation__coupling_state")
    uni = cp._uniform
    orig_sample = uni.sample
    acc = {}
    split = 0
    zero = tuple([0.0] * dim)
    try:
        for idx in itertools.product(*[range(len(ax)) for ax in grid_f.axes]):
            inc = tuple(i - o for i, o in zip(idx, orig))
            if not any(inc):
                continue
            x = tuple(float(grid_f.axes[k][i]) for k, i in enumerate(idx))
            used = {"n": 0}

            def f(u, inc=inc):
                def s(size=1):
                    used["n"] += 1
                    return np.array([u])

                uni.sample = s
                try:
                    return tuple(float(v) for v in np.asarray(kernel(inc)).ravel())
                except Exception as e:  # noqa - the kernel refuses this uniform (the library raises when the cumulated
                    # probabilities of the corners stay below u): measured below, tolerated only on a set of rounding size
                    return ("RAISES", type(e).__name__)

            pieces, ev, hi = C2.recover_partition(f, 64)
            sh.count("evaluations", ev)
            L = C2.lengths(pieces, hi)
            undefined = sum(v for k, v in L.items() if k and k[0] == "RAISES")
            # weighted by the rate of the fine state: a state of zero rate is never sampled and its kernel is irrelevant;
            # a shortfall of rounding size in the cumulated corner probabilities has no measurable mass
            if rf[x] * undefined > 1e-12 * lam_f:
                parity = "".join("o" if i % 2 else "e" for i in inc)
                kinds = sorted({k[1] for k in L if k and k[0] == "RAISES"})
                sh.violation(f"C03:kernelnd:coupling-raises-{'-'.join(kinds)}:{cls}",
                             f"level {level}: increment {inc} (parity {parity}): the kernel raises on a set of uniforms of length {undefined!r}", None)
            L = {k: v for k, v in L.items() if not (k and k[0] == "RAISES")}
            sh.states += 1
            sh.transitions += len(L)
            odd = [k for k in range(dim) if inc[k] % 2]
            parity = "all-even" if not odd else ("all-odd" if len(odd) == dim else "mixed-parity")
            for y in L:
                ok = True
                for k in range(dim):
                    if k in odd:
                        nb = {float(grid_f.axes[k][idx[k] - 1]), float(grid_f.axes[k][idx[k] + 1])}
                        ok &= y[k] in nb
                    else:
                        ok &= y[k] == x[k]
                if not ok:
                    sh.violation(f"C03:kernelnd:coarse-state-not-adjacent-or-even-coordinate-moved:{parity}:{cls}",
                                 f"level {level}: fine state {x} (increment {inc}) -> {y}", None)
            if not odd and (used["n"] or list(L) != [x]):
                sh.violation(f"C03:kernelnd:even-increment-not-copied:{cls}", f"level {level}: {inc} -> {L}", None)
            if len(L) > 1:
                split += 1
            for y, p in L.items():
                acc[y] = acc.get(y, 0.0) + rf[x] * p
    finally:
        uni.sample = orig_sample
    tol = 1e-9 * lam_f + 1e-300
    worst = 0.0
    for y, r in rc.items():
        got = acc.get(y, 0.0)
        worst = max(worst, abs(got - r) / lam_f)
        if abs(got - r) > tol:
            onaxis = "on-axis" if any(v == 0.0 for v in y) else "off-axis"
            sh.violation(f"C03:kernelnd:coarse-rate-not-reproduced:{onaxis}:{cls}",
                         f"level {level}: coarse state {y}: sum_x rate(x) P(x->y) = {got!r} but the level-{level - 1} chain has rate {r!r} "
                         f"(relative to lambda: {abs(got - r) / lam_f:.3g})", {"lam_f": lam_f, "lam_c": lam_c})
    nj = acc.get(zero, 0.0)
    if abs(nj - (lam_f - lam_c)) > tol:
        sh.violation(f"C03:kernelnd:no-coarse-jump-mass-differs:{cls}",
                     f"level {level}: mass sent to the coarse origin {nj!r}, lambda_l - lambda_(l-1) = {lam_f - lam_c!r}", None)
    # (iii)
    times = np.array([0.0, 0.3, 1.0])
    dp = np.asarray(pms[-1].deterministic_path(times), dtype=float)
    want_c = np.asarray(chain_c.deterministic_path(times), dtype=float)
    scale = max(1.0, float(np.max(np.abs(want_c))))
    if dp.shape[0] != 2 or dp[1].shape != want_c.shape or not np.allclose(dp[1], want_c, rtol=1e-11, atol=1e-12 * scale):
        sh.violation(f"C03:kernelnd:coarse-deterministic-path-not-level-minus-one:{cls}",
                     f"level {level}: coarse {dp[1].tolist() if dp.shape[0] == 2 else dp.tolist()} vs level-{level - 1} chain {want_c.tolist()}", None)
    m2h = np.asarray(cp._diffusion_matrix_2h, dtype=float)
    mc = np.asarray(chain_c._path_simulation.diffusion_matrix, dtype=float)
    if m2h.shape != mc.shape or not np.allclose(m2h, mc, rtol=1e-9, atol=1e-14):
        sh.violation(f"C03:kernelnd:coarse-diffusion-matrix-not-level-minus-one:{cls}", f"level {level}: {m2h.tolist()} vs {mc.tolist()}", None)
    sh.outcome((cls, level, len(rf), split, round(worst, 12)))
    if split:
        sh.nontriv()
    if dim == 2 and gk == "fixed" and case["grid"]["n"] == 3 and level == 1 and mk.startswith("hem+vg:clayton"):
        sh.sample({"sub": "kernelnd", "case": case, "fine_states": len(rf), "coarse_states": len(rc), "worst_relative_defect": worst})


# ----------------------------------------------------------------------------------------------------------------------

def _assembly1d(sh, case):
    """Scripted jump counts x sampler uniforms x coupling uniforms through simulate_one_path_with_coupling."""
    import numpy.random as npr

    import rpylib.distribution.univariate.uniform as U
    from rpylib.distribution.variate import table as T

    gk, mk, meth, mode = case["grid"]["kind"], case["model"]["family"], case["method"], case["mode"]
    cls = f"{meth.lower()}:{mode}"
    product = make_product(stochastic=(mode == "jumptimes"))
    saved = (U.npr.uniform, npr.poisson, npr.normal, npr.random_sample, npr.choice, T.random.getrandbits)
    script = {"uniform": deque(), "bits": deque()}

    def s_uniform(low=0.0, high=1.0, size=None):
        n = 1 if size is None else int(np.prod(size))
        vals = [script["uniform"].popleft() for _ in range(n)]
        return np.array(vals, dtype=float) * (high - low) + low

    try:
        U.npr.uniform = s_uniform
        npr.choice = lambda a, *args, **kw: list(a)[0]
        npr.normal = lambda loc=0.0, scale=1.0, size=None: np.full(size if size is not None else 1, 0.25)
        try:
            cp, pms, model = build_coupling_1d(case, product)
        except A.OutsideAlphabet:
            sh.count("outside-alphabet-grid")
            return
        sim = cp._path_coupling_simulation
        fine = cp.fine_process
        grid = cp.grid
        axis = grid.axes[0]
        o = grid.origin_coordinate.value
        # the fine sampler's map and the kernel, recovered once on fresh twins (so that this object's caches are untouched)
        law_case = {"dim": 1, "model": case["model"], "grid": dict(case["grid"], refine=case["level"]), "method": meth}
        for counts in ([0], [1], [2], [3]):
            n = counts[0]
            # sampler uniforms: pick u's that select given fine states; coupling uniforms 0.2 / 0.8 alternately
            us = [0.15, 0.55, 0.93][:n]
            cus = [0.2, 0.8, 0.5][:n]
            # reference: fine increments from a twin sampler
            twin, _ = C2.build_process(law_case)
            if meth == "TABLE":
                bits = [min(int(u * 4294967296.0), 4294967295) for u in us]
                incs = []
                for b in bits:
                    T.random.getrandbits = lambda nb, b=b: b
                    incs.append(C2.as_inc(twin.sampling.sample(1)[0])[0])
            else:
                ftwin, _ = C2.single_entry(twin, law_case)
                incs = [ftwin(u)[0] for u in us]
            # coarse images through the kernel with scripted coupling uniforms
            coarse_vals, fine_vals = [], []
            cf = cc = 0.0
            cu_used = []
            ci = 0
            for inc in incs:
                cf += float(axis[o + inc])
                if inc % 2 == 0:
                    cc += float(axis[o + inc])
                else:
                    u = cus[ci]
                    ci += 1
                    cu_used.append(u)
                    script["uniform"].clear()
                    script["uniform"].append(u)
                    cc += float(sim.coupling_state(inc))
                fine_vals.append(cf)
                coarse_vals.append(cc)
            # now the real assembled path
            script["uniform"].clear()
            if mode == "fixed":
                fine._path_simulation._poisson_rv.clear()
                fine._path_simulation._poisson_rv.append([n])
                fine._path_simulation._brownian_increments.clear()
                fine._path_simulation._brownian_increments.append(np.array([0.25]))
            else:
                npr.poisson = lambda lam=1.0, size=None: np.array([n]) if size is not None else n
                import rpylib.distribution.univariate.poisson as P  # noqa

                npr.random_sample = lambda size=None: np.array([0.2, 0.5, 0.7][: (size if size is not None else 1)])
            if meth == "TABLE":
                bits_q = deque(bits)
                T.random.getrandbits = lambda nb: bits_q.popleft()
            else:
                script["uniform"].extend(us)
            script["uniform"].extend(cu_used)
            # the fine sampler draws its n uniforms in one batch first, then the coupling draws one per odd increment
            try:
                if mode == "jumptimes":
                    orig_nb = fine.nb_jump_dt
                    fine.nb_jump_dt = lambda dt: n
                path = cp.simulate_one_path_with_coupling()
            except Exception as e:  # noqa
                sh.violation(f"C03:assembly1d:simulate-raises-{type(e).__name__}:{cls}:jumps={min(n, 2)}",
                             f"{gk}/{mk} level {case['level']}: {n} jumps: {e!r}", None)
                continue
            finally:
                if mode == "jumptimes":
                    fine.nb_jump_dt = orig_nb
            sh.count("evaluations")
            jp = np.asarray(path.jump_path, dtype=float)
            got_f, got_c = float(jp[0, -1]), float(jp[1, -1])
            want_f = fine_vals[-1] if fine_vals else 0.0
            want_c = coarse_vals[-1] if coarse_vals else 0.0
            if not (core.close(got_f, want_f, rtol=1e-12, atol=1e-14) and core.close(got_c, want_c, rtol=1e-12, atol=1e-14)):
                sh.violation(f"C03:assembly1d:coupled-pair-differs-from-kernel-images:{cls}",
                             f"{gk}/{mk}: increments {incs}: terminal jump values fine {got_f} / coarse {got_c}, reference {want_f} / {want_c}",
                             {"jump_path": jp.tolist()})
            sh.outcome((cls, n, tuple(incs)))
        sh.nontriv()
    finally:
        U.npr.uniform, npr.poisson, npr.normal, npr.random_sample, npr.choice, T.random.getrandbits = saved


def _sde(sh, case):
    from rpylib.distribution.sampling import SamplingMethod
    from rpylib.model.utils import create_levy_forward_market_model
    from rpylib.process.coupling.couplingsde import CouplingSDE
    from rpylib.process.markovchain.markovchain import MarkovChainProcess
    from rpylib.montecarlo.path import MLMCPath

    level = case["level"]
    drv = A.make_model(case["driver"])
    model = create_levy_forward_market_model(driver=drv)
    grid = A.make_grid(dict(case["grid"], refine=0), drv, 1)
    cp = CouplingSDE(model=model, grid=grid, method=SamplingMethod.INVERSION)
    product = make_product(maturity=5.0)
    cp.initialisation(product)
    pms = [MLMCPath(deterministic_path=cp.fine_process.deterministic_path, activate_spot_underlying=False)]
    for _ in range(level):
        cp.next_level(1, pms, product)
    cls = case["driver"]["family"]
    for which, lev in (("mc_drift_2h", level - 1), ("mc_drift_h", level)):
        d2 = A.make_model(case["driver"])
        g2 = A.make_grid(dict(case["grid"], refine=lev), d2, 1)
        ch = MarkovChainProcess(model=d2, method=SamplingMethod.INVERSION, grid=g2)
        p2 = make_product(maturity=5.0)
        ch.initialisation(p2, max_step_epsilon=0.1)
        want = float(np.asarray(ch.process_drift()).ravel()[0])
        got = float(np.asarray(getattr(cp, which)).ravel()[0])
        sh.count("evaluations")
        if not core.close(got, want, rtol=1e-11, atol=1e-14):
            sh.violation(f"C03:sde:{which}-is-not-the-drift-of-level-{'l-1' if which.endswith('2h') else 'l'}:{cls}",
                         f"level {level}: {which} = {got!r} but the driver chain refined {lev} times has drift {want!r}", None)
        sh.outcome((cls, level, which, round(got, 12)))
    sh.nontriv()
