"""C03 - level coupling keeps the coarse path in the previous level's law (telescoping).

A real coupling object (CouplingMarkovChain / CouplingProcessLevyCopula / CouplingSDE) is taken to level l by the real
next_level with a real Product and real path managers, along one of the HISTORIES the library itself performs between two
refinements, then observed.

Sub-checks (one case = one configuration; `cases(tier)` is the complete list)
 kernel1d / kernelnd   for every fine state x the coupling kernel u -> coarse state is driven through the coupling's own uniform
       seam and recovered exactly (partition recovery, <= 2^d pieces), giving P(x -> y).
       (i)   telescoping: sum_x rate_l(x) P(x -> y) = rate_{l-1}(y) for every coarse state y, rate_{l-1} from a chain built by
             the public constructor on an INDEPENDENTLY constructed grid refined l-1 times, and the mass sent to "no coarse
             jump" (y = origin) = sum rate_l - sum rate_{l-1}. Tolerance per coarse state: 1e-9 of the state's OWN rate plus
             the rounding of the sums (see TOL_*), not a fraction of the total intensity;
       (ii)  an even increment is copied unchanged (whatever number of uniforms the implementation draws), an odd one goes only
             to coarse states adjacent in each odd coordinate (and unchanged in the even ones);
       (iii) the path manager appended at EVERY level k <= l (re-read after the later refinements) carries the deterministic
             path of the level-k chain (fine row) and of the level-(k-1) chain (coarse row), at t = 0, 0.3 and the maturity
             (1.0 or 2.5); the coarse diffusion coefficient (1-d) / diffusion matrix (n-d) is level l-1's, the fine one
             level l's;
       (iv)  a few paths are simulated with every random source scripted and checked as in `assembly`;
       (v)   the same increment handed to the kernel in another integer form (numpy int64 / int32; n-d: tuple of numpy integers,
             tuple mixing Python and numpy integers, row of an integer array) is sent to the same coarse state by the same uniform (a form the code refuses is counted,
             `increment-form-refused:*`, not judged); deterministic_path does not modify the caller's array of times.
 assembly (dim 1, 2, 3)   simulate_one_path_with_coupling with every random source the library draws from replaced by
       deterministic streams, several jumps per interval, 1 or 2 intervals. The fine chain's own output (the MarkovChain
       returned by fine._path_simulation.simulate_markov_chain: increments, values, times per interval) is recorded, and
       the coupled path is compared AT EVERY TIME of its own time grid (not only the terminal value):
       fine row = running sums of the fine chain's values; coarse row = running sums of the kernel images K(increment, u) of
       a FRESH twin coupling (u = the constant the coupling uniform is scripted to for that path, so no assumption on the
       order or number of uniforms drawn is made; the coupling must draw at least one uniform per jump with an odd
       coordinate); diffusion rows: coarse = (level l-1 coefficient / level l coefficient) x fine (n-d: M_{l-1} pinv(M_l)),
       i.e. the same Brownian increments, coefficients taken from INDEPENDENT chains; dimension 1 also in absolute terms: every
       step of the fine diffusion row divided by (level-l coefficient of the independent chain) x sqrt(dt) is one of the standard
       normal variates the scripted source handed out (the fine component diffuses with level l's coefficient, whatever the
       object cached and whenever). All three simulation classes (fixed dates, jump times, maximum step), every sampling method
       the constructor accepts. The paths are observed
         - prepared either way (`prep`): "precompute" = reset_one_simulation_cost + pre_computation, then the paths (Engine.price),
           or "next-level" = nothing at all between next_level and the paths, which use what next_level's own pre_computation
           left (Engine.price_with_constant_mc_paths_and_level, a hand-driven coupling); with fixed dates as many paths as
           next_level was told to pre-compute for;
         - on the object itself, on a dill round trip of it (what a pool worker receives) or on a deepcopy (`carrier`);
         - with one of two scripts of numbers of jumps per interval (`counts`: "b" has intervals and whole paths without any
           jump and an interval with 40 jumps).
 sde   CouplingSDE (forward-market model with 1-d and 2-d driver, Libor model): mc_drift_2h / mc_drift_h = drift of the
       level l-1 / l driver chain, and the driver coupling reached through CouplingSDE.next_level - that is through
       next_level(path_managers=None, max_step_epsilon=...) - gets the kernel, coefficient and path checks above.

Alphabets
 models 1-d: HEM, CGMY 1.2 (infinite variation), VG, exp-CGMY 0.5 (+ Merton, exp-HEM thorough), each family once more through the
       "reinit" construction route (mc.alphabets.with_reinit) with the reference always built directly;
 grids 1-d: fixed n=5, uniform h=0.2, geometric with bounds, probability step, credit (+ geometric, fixed h=0.05 thorough);
 copula models: Clayton (two parameter sets), independent, dependent, with finite-variation margins, and hem+cgmy12
       (infinite-variation margin) - see ASSUMPTIONS for its diffusion matrix; grids n-d: fixed n=3 / n=5, credit (symmetric
       and one threshold per name), uniform h=0.2, geometric, geometric with bounds; dimension 3 on the 3-point grid;
 methods: all six 1-d methods; INVERSION and BINARYSEARCHTREEADAPTED for the copula coupling (the constructor raises
       ValueError / TypeError for the others);
 levels 1, 2 (3 thorough; in the quick tier level 3 for HEM / CGMY 1.2 on the fixed n=5 grid, both routes, and for hem+cgmy12 on
       the 3-point grid);
 routes: next_level(path_managers=[...]) (the engine) and next_level(path_managers=None, max_step_epsilon=eps) (CouplingSDE);
       number of paths handed to next_level 1, 0 (what Engine.price hands over) and 3 (2..6 when the paths are observed as
       next_level left the object); max_step_epsilon 0.4 (below the maturity: the time grid is refined) and 3.0 (above it);
       the call written with keywords and Python numbers or positionally with a numpy integer / numpy float (`args`);
 simulation classes: FixedTimes (deterministic dates), WithJumpTimes (stochastic dates), MaximumStep (max_step_epsilon);
 products: maturity 1.0 / 2.5, Spot underlying (one interval) and yearly Asian underlying (dates 0, 1.25, 2.5);
 histories between two refinements: "plain" (nothing), "kernel" (the kernel of every state is used), "simulate"
       (pre_computation, one path of the fine chain alone and one coupled path simulated on the same object:
       Engine.price_with_constant_mc_paths_and_level), "engine" (reset_one_simulation_cost, pre_computation, paths simulated,
       copy.deepcopy, next_level on the copy: Engine.price), "second-product" (the level-0 object first initialised, pre-computed
       and simulated for ANOTHER product - the other kind of payoff dates, another maturity - then initialised for the case's
       product: a second pricing with the same object), "constant" (level 0: pre_computation, deepcopy, paths of the fine chain;
       every level >= 1: coupled paths simulated right after next_level WITHOUT a pre_computation of their own, then the next
       next_level: Engine.price_with_constant_mc_paths_and_level), "dill" (pre_computation, paths, dill.dumps / loads, next_level
       on the copy); the reference chains and the twin coupling are built while the
       observed object exists (a second object of the same class in between); a grid refined once by the caller before the
       constructor (pre=1).
 The auxiliary axes (method, history, simulation class, product, number of paths, epsilon, prep, carrier, counts, args) are
 ROTATED over the lattices, not multiplied with them: in kernel1d every value of every axis occurs at every level on every route, in kernelnd at every level,
 in assembly with every (method, simulation class) - not with every model and grid. `post` marks the run as not exhaustive
 (caps) when a class a sub-check exists for was not reached or a case fell outside the alphabet.

Outside the alphabet (statement silent or constructor refuses): CTMCGridProbabilityStep in dimension 2 (its constructor needs a
 1-d model: AttributeError); copula coupling with ALIAS / TABLE / BINARYSEARCHTREE / HUFFMANNTREE / BINARYSEARCHTREEADAPTED1D
 (constructor raises); h below 0.05; dimension 3 beyond the 3-point grid; the Euler recursion of CouplingSDE itself (C16);
 the law of the Brownian increments and of the jump times (C15); intensity = sum of the cell masses (C01: only counted here,
 `oracle-rates-differ-from-intensity`); copy.copy of a coupling (a shallow copy shares the grid, which next_level refines in
 place: no library route makes one); a second initialisation of an object that already stands at a level >= 1 (the engines
 only ever initialise their level-0 process and refine copies of it).
"""
from __future__ import annotations

import contextlib
import copy
import itertools
import math
import os

import numpy as np

from checks import c02_samplers as C2
from mc import alphabets as A
from mc import core
from mc import oracle as O

PID = "C03"
LEVEL = "model_checking"
RULE = (
    "every (model, grid, sampling method, level, route, history, simulation class, product) of the stated list: the kernel of "
    "every fine state is recovered exactly and the telescoping identity is checked for every coarse state; every scripted path "
    "is compared at every time of its grid; states = fine states whose kernel was recovered, transitions = kernel pieces (fine "
    "state -> coarse state with positive probability); non-trivial = at least one odd increment was split between two coarse "
    "states (kernel) / at least one path had a jump with an odd coordinate (assembly)"
)
ASSUMPTIONS = [
    "rates are the chain's own model.mass on reference cells (checked against quadrature in C01)",
    "the kernel is observed through the coupling's uniform seam (Uniform.sample of the coupling's own Uniform object replaced by a "
    "scripted value)",
    "numpy.random.uniform / normal / poisson / random_sample / choice and random.getrandbits are replaced by deterministic "
    "counter-based streams while a path is simulated",
    "copula models with an infinite-variation margin (stub=true in the case): markovchainlevycopula.vol_adjustment_ij (a "
    "multi-dimensional quadrature of minutes) is replaced by a cheap positive-definite function of (i, j, h) and the pathos pool "
    "by a serial one, for the coupling AND for the reference chain: what is compared is which level's matrix the coupling keeps, "
    "not the quadrature (the thorough tier also runs the real quadrature: stub=false)",
]
CHUNK = 1
DEBUG = bool(os.environ.get("C03_DEBUG"))

HEM = {"family": "hem", "exp": False, "params": {}}
HEMX = {"family": "hem", "exp": True, "params": {}, "r": 0.02, "d": 0.0, "spot": 100.0}
VG = {"family": "vg", "exp": False, "params": {}}
CG12 = {"family": "cgmy", "exp": False, "params": {"c": 1.0, "g": 15.0, "m": 20.0, "y": 1.2}}
CG05 = {"family": "cgmy", "exp": True, "params": {"c": 1.0, "g": 15.0, "m": 20.0, "y": 0.5}, "r": 0.02, "d": 0.0, "spot": 100.0}
MER = {"family": "merton", "exp": False, "params": {}}

METHODS_1D = ["INVERSION", "ALIAS", "BINARYSEARCHTREE", "HUFFMANNTREE", "TABLE", "BINARYSEARCHTREEADAPTED1D"]
METHODS_ND = ["INVERSION", "BINARYSEARCHTREEADAPTED"]
HISTORIES = ["plain", "kernel", "simulate", "engine", "second-product", "constant", "dill"]
# who prepares the object between the last next_level and the observed paths
PREPS = ["precompute", "next-level"]
# the object the observed paths are simulated on
CARRIERS = ["self", "dill", "deepcopy"]
# numbers of jumps per interval the scripted Poisson source hands out (second pattern: intervals and whole paths without
# any jump, one interval with many jumps)
COUNTS = {"a": (2, 0, 3, 1, 4, 1, 2), "b": (0, 0, 3, 1, 0, 0, 2, 40, 5, 0, 7, 1)}
MODES = ["fixed", "jumptimes", "maxstep"]
PRODUCTS = [
    {"maturity": 1.0, "underlying": "spot"},
    {"maturity": 2.5, "underlying": "asian"},
    {"maturity": 2.5, "underlying": "spot"},
]

CM_HV = {"margins": ["hem", "vg"], "copula": {"kind": "clayton", "theta": 0.7, "eta": 0.3}}
CM_CH = {"margins": ["cgmy05", "hem2"], "copula": {"kind": "clayton", "theta": 3.0, "eta": 1.0}}
CM_IND = {"margins": ["hem", "hem2"], "copula": {"kind": "independent"}}
CM_DEP = {"margins": ["hem", "vg"], "copula": {"kind": "dependent"}}
CM_VC = {"margins": ["vg", "cgmy05"], "copula": {"kind": "clayton", "theta": 3.0, "eta": 0.0}}
CM_IV = {"margins": ["hem", "cgmy12"], "copula": {"kind": "clayton", "theta": 0.7, "eta": 0.3}}
CM_IV2 = {"margins": ["cgmy12", "hem"], "copula": {"kind": "clayton", "theta": 0.7, "eta": 0.3}}
G_F3 = {"kind": "fixed", "h": 0.1, "n": 3}
G_F5 = {"kind": "fixed", "h": 0.1, "n": 5}
G_CR = {"kind": "credit", "h": 0.1, "a_frac": 0.5, "symmetric": True}
G_CRA = {"kind": "credit", "h": 0.1, "a_frac": [0.4, 0.6], "symmetric": False}
G_UNI = {"kind": "uniform", "h": 0.2, "p": 0.99999}
G_GEOB = {"kind": "geometric-bounds", "h": 0.1, "bounds": [-0.7, 0.4], "n_side": 3}
G_GEO = {"kind": "geometric", "h": 0.1, "n_side": 3, "p": 0.99999}


def _aux(j, level, r, dim=1):
    """The rotated auxiliary axes of case number j of a lattice (see the module docstring)."""
    methods = METHODS_1D if dim == 1 else METHODS_ND
    route = ("pm", "none")[r]
    if route == "pm":
        mode = MODES[(j + level) % 3]
    else:
        mode = ("maxstep", "maxstep", "fixed", "jumptimes")[j % 4]
    prep = PREPS[(j // 3 + level + r) % 2]
    return {
        "method": methods[(j + 2 * level + 3 * r) % len(methods)],
        "route": route,
        "history": HISTORIES[(j + level - 1 + r) % len(HISTORIES)],
        "mode": mode,
        "product": PRODUCTS[(j + level + r) % 3],
        # number of paths handed to next_level (Engine.price hands over the number of paths the new level has so far: 0;
        # Engine.price_with_constant_mc_paths_and_level the number of paths it simulates right afterwards)
        "mc_paths": (1, 0, 3)[(j + level) % 3] if prep == "precompute" else (2, 4, 3)[(j + level) % 3],
        "prep": prep,
        "carrier": CARRIERS[(j + r) % 3],
        "counts": "ab"[(j // 2 + level) % 2],
        "args": ("keyword", "positional-numpy")[(j + level // 2) % 2],
        # max_step_epsilon of the maximum-step class: below both maturities (time grid refined) / above (nothing to refine)
        "eps": (0.4, 3.0)[(j // 2 + r) % 2],
    }


def cases(tier):
    thorough = tier == "thorough"
    out = []
    levels = (1, 2, 3) if thorough else (1, 2)
    # ---------------------------------------------------------------- kernel1d
    models = [HEM, CG12, VG, CG05] + ([MER, HEMX] if thorough else [])
    grids = [
        G_F5,
        G_UNI,
        G_GEOB,
        {"kind": "probability", "h": 0.1, "pmin": 0.2},
        G_CR,
    ] + ([{"kind": "geometric", "h": 0.1, "n_side": 4, "p": 0.99999}, {"kind": "fixed", "h": 0.05, "n": 8}] if thorough else [])
    j = 0
    for m in models:
        for g in grids:
            if g["kind"] == "credit" and m["family"] == "vg":
                g = dict(g, a_frac=0.8)  # half the left truncation of the VG model is above -h: not a threshold the grid accepts
            for level in levels:
                if g["kind"] == "probability" and level > 2:
                    continue
                for r in (0, 1):
                    out.append(dict({"sub": "kernel1d", "model": m, "grid": g, "level": level}, **_aux(j, level, r)))
            j += 1
    # the same parameter values reached through the calibration helpers' route (parameter object re-assigned, initialisation())
    for m in A.with_reinit([HEM, CG12, VG] + ([CG05, MER] if thorough else [])):
        if m.get("via") != "reinit":
            continue
        for level in (1, 2):
            for r in (0, 1):
                out.append(dict({"sub": "kernel1d", "model": m, "grid": G_F5, "level": level}, **_aux(j, level, r)))
        j += 1
    # three refinements (accumulation over the levels) on the small grid, both routes: also in the quick tier
    if not thorough:
        for m in (HEM, CG12):
            for r in (0, 1):
                out.append(dict({"sub": "kernel1d", "model": m, "grid": G_F5, "level": 3}, **_aux(j, 3, r)))
            j += 1
    # a grid the caller has already refined once before handing it to the constructor
    for m in (HEM, CG12):
        for g in (grids[0], grids[2], grids[3]):
            out.append(dict({"sub": "kernel1d", "model": m, "grid": g, "level": 1, "pre": 1}, **_aux(j, 1, j % 2)))
            j += 1
    # ---------------------------------------------------------------- assembly, dimension 1
    amodels = [HEM, CG12, dict(HEM, via="reinit")] + ([VG] if thorough else [])
    nl = 3 if thorough else 2
    for mi, m in enumerate(amodels):
        for gi, g in enumerate(grids[:3] if m.get("via") != "reinit" else grids[:1]):
            for ti, meth in enumerate(METHODS_1D):
                for oi, mode in enumerate(MODES):
                    # rotations chosen so that, for every (method, simulation class), the (model, grid) pairs run through every
                    # level, route, history, product, number of paths and epsilon
                    out.append({"sub": "assembly", "dim": 1, "model": m, "grid": g, "level": 1 + (gi + mi + oi) % nl, "method": meth,
                                "mode": mode, "route": ("pm", "none")[(mi + gi + ti) % 2],
                                "history": HISTORIES[(2 * gi + mi + ti + oi) % len(HISTORIES)],
                                "product": PRODUCTS[(2 * gi + mi + ti) % 3],
                                "mc_paths": ((1, 0, 3) if (gi + ti + oi) % 2 == 0 else (4, 6, 5))[(gi + oi + ti) % 3],
                                "eps": (0.4, 3.0)[(mi + gi) % 2], "prep": PREPS[(gi + ti + oi) % 2],
                                "carrier": CARRIERS[(gi + mi + 2 * ti + oi) % 3], "counts": "ab"[(mi + ti + oi) % 2],
                                "args": ("keyword", "positional-numpy")[(mi + gi + oi) % 2]})
    # ---------------------------------------------------------------- kernelnd
    cms = [CM_HV, CM_CH, CM_IND, CM_DEP] + ([CM_VC] if thorough else [])
    grids2 = [G_F3, G_F5, G_CR] + ([G_CRA] if thorough else [])
    j = 0

    def knd(cm, g, level, r, dim=2, stub=None):
        c = dict({"sub": "kernelnd", "dim": dim, "model": cm, "grid": g, "level": level}, **_aux(j, level, r, dim))
        if stub is not None:
            c["stub"] = stub
        return c

    # the only constructor that gives the coordinates different axes (one threshold per name): also in the quick tier
    out.append(knd(CM_HV, G_CRA, 1, 0))
    j += 1
    for cm in cms:
        for g in grids2:
            for level in ((1, 2) if (thorough or g is G_F3) else (1,)):
                for r in ((0, 1) if thorough else ((j + level) % 2,)):
                    out.append(knd(cm, g, level, r))
            j += 1
    # an infinite-variation margin (level-dependent diffusion matrix), both margin orders, both routes, both levels
    n = 0
    for cm in (CM_IV, CM_IV2):
        for level in (1, 2):
            for r in (0, 1):
                out.append(dict(knd(cm, G_F3, level, r, stub=True), history=HISTORIES[n % len(HISTORIES)]))
                n += 1
        j += 1
    out.append(knd(CM_IV, G_F5, 1, 0, stub=True))
    j += 1
    # three refinements, level-dependent diffusion matrix
    out.append(knd(CM_IV, G_F3, 3, 0, stub=True))
    j += 1
    # the other n-d grid constructors
    for g in (G_UNI, G_GEOB, G_GEO):
        for level in ((1, 2) if thorough else (1,)):
            out.append(knd(CM_HV, g, level, j % 2))
        j += 1
    out.append(dict(knd(CM_HV, G_F3, 1, 0), pre=1))
    j += 1
    cm3 = {"margins": ["hem", "vg", "cgmy05"], "copula": {"kind": "clayton", "theta": 0.7, "eta": 0.3}}
    out.append(knd(cm3, G_F3, 1, 0, dim=3))
    j += 1
    if thorough:
        # the real quadrature of the diffusion matrix
        for level in (1, 2):
            out.append(knd(CM_IV, G_F3, level, level % 2, stub=False))
        j += 1
    # ---------------------------------------------------------------- assembly, dimension 2
    for ci, cm in enumerate([CM_HV, CM_CH, CM_IV] + ([CM_DEP, CM_IND] if thorough else [])):
        for gi, g in enumerate([G_F3] if not thorough else [G_F3, G_CRA]):
            for ti, meth in enumerate(METHODS_ND):
                for oi, mode in enumerate(MODES):
                    for level in (1, 2):
                        c = {"sub": "assembly", "dim": 2, "model": cm, "grid": g, "level": level, "method": meth, "mode": mode,
                             "route": ("pm", "none")[(ci + gi + level + ti) % 2],
                             "history": HISTORIES[(2 * ci + gi + level - 1 + ti + oi) % len(HISTORIES)],
                             "product": PRODUCTS[(2 * ci + gi + level + ti) % 3],
                             "mc_paths": ((1, 0, 3) if (ci + ti + oi + level) % 2 == 0 else (4, 6, 5))[(ci + gi + oi + ti) % 3],
                             "eps": (0.4, 3.0)[(ci + level) % 2], "prep": PREPS[(ci + ti + oi + level) % 2],
                             "carrier": CARRIERS[(ci + gi + ti + oi + 2 * level) % 3], "counts": "ab"[(ci + oi + level) % 2],
                             "args": ("keyword", "positional-numpy")[(ci + ti + level) % 2]}
                        if cm is CM_IV:
                            c["stub"] = True
                        out.append(c)
    # dimension 3 (the 3-point grid): one simulation class in the quick tier, all three in the thorough tier
    for mode in (MODES if thorough else MODES[1:2]):
        out.append({"sub": "assembly", "dim": 3, "model": cm3, "grid": G_F3, "level": 1, "method": "INVERSION", "mode": mode,
                    "route": "pm", "history": "simulate", "product": PRODUCTS[1], "mc_paths": 0, "eps": 0.4})
    if thorough:
        out.append({"sub": "assembly", "dim": 3, "model": cm3, "grid": G_F3, "level": 1, "method": "INVERSION", "mode": "fixed",
                    "route": "pm", "history": "constant", "product": PRODUCTS[1], "mc_paths": 6, "eps": 0.4, "prep": "next-level",
                    "carrier": "dill", "counts": "b"})
    # ---------------------------------------------------------------- SDE coupling
    j = 0
    sde = [
        {"sde": "forward", "dim": 1, "driver": HEM, "grid": G_F5},
        {"sde": "forward", "dim": 1, "driver": CG12, "grid": G_F5},
        {"sde": "libor", "dim": 1, "driver": HEM, "grid": G_UNI},
        {"sde": "forward", "dim": 2, "driver": ["hem", "vg"], "grid": G_F3},
        {"sde": "forward", "dim": 2, "driver": ["hem", "cgmy12"], "grid": G_F3, "stub": True},
    ] + ([{"sde": "libor", "dim": 1, "driver": CG12, "grid": G_F5},
          {"sde": "forward", "dim": 1, "driver": dict(HEM, via="reinit"), "grid": G_GEOB}] if thorough else [])
    for s in sde:
        for level in levels if s["dim"] == 1 else (1, 2):
            methods = METHODS_1D if s["dim"] == 1 else METHODS_ND
            out.append(dict(s, sub="sde", level=level, method=methods[(j + level) % len(methods)],
                            history=("plain", "engine", "simulate")[(j + level) % 3], prep=PREPS[(j + level) % 2],
                            carrier=CARRIERS[(j + 2 * level) % 3]))
        j += 1
    return out


def check_case(sh, case):
    fn = {"kernel1d": _kernel, "kernelnd": _kernel, "assembly": _assembly, "sde": _sde}[case["sub"]]
    try:
        fn(sh, case)
    except SeamMissing as e:
        # a private name this harness reads has gone: nothing can be observed - not an alarm (refactorings are not defects),
        # but the run is marked as not exhaustive
        sh.cap(f"seam missing, {case['sub']} not observed: {e}")
        sh.count("seam-missing")


# ----------------------------------------------------------------------------------------------------------------------
# seams, scripted randomness, stubs
# ----------------------------------------------------------------------------------------------------------------------

class SeamMissing(Exception):
    pass


def _attr(obj, *names):
    for n in names:
        if hasattr(obj, n):
            return getattr(obj, n)
    raise SeamMissing(f"{type(obj).__name__}.{'/'.join(names)}")


GOLD = 0.6180339887498949
PLASTIC = 0.7548776662466927


class Streams:
    """Deterministic replacements of every random source the simulation draws from (counter based, never 0 or 1)."""

    def __init__(self, counts=(2, 0, 3, 1, 4, 1, 2)):
        self.k = {"u": 0, "n": 0, "p": 0, "r": 0}
        self.counts = list(counts)
        self.normals = []  # every standard normal variate handed out so far (before scale and loc are applied)

    def _frac(self, which, start, step):
        k = self.k[which]
        self.k[which] = k + 1
        x = (start + k * step) % 1.0
        return min(max(x, 1e-9), 1.0 - 1e-9)

    def uniform(self, low=0.0, high=1.0, size=None):
        n = 1 if size is None else int(np.prod(size))
        vals = np.array([self._frac("u", 0.137, GOLD) for _ in range(n)], dtype=float) * (high - low) + low
        return float(vals[0]) if size is None else vals.reshape(size)

    def normal(self, loc=0.0, scale=1.0, size=None):
        n = 1 if size is None else int(np.prod(size))
        raw = [2.0 * self._frac("n", 0.31, PLASTIC) - 1.0 for _ in range(n)]
        self.normals.extend(raw)
        if size is None:
            return float(raw[0] * scale + loc) if np.ndim(scale) == 0 and np.ndim(loc) == 0 else raw[0] * scale + loc
        return np.array(raw, dtype=float).reshape(size) * scale + loc

    def poisson(self, lam=1.0, size=None):
        n = 1 if size is None else int(np.prod(size))
        vals = []
        for _ in range(n):
            vals.append(self.counts[self.k["p"] % len(self.counts)])
            self.k["p"] += 1
        return int(vals[0]) if size is None else np.array(vals, dtype=int).reshape(size)

    def random_sample(self, size=None):
        n = 1 if size is None else int(np.prod(size))
        vals = np.array([self._frac("r", 0.071, GOLD) for _ in range(n)], dtype=float)
        return float(vals[0]) if size is None else vals.reshape(size)

    def getrandbits(self, nb):
        return min(int(self._frac("u", 0.137, GOLD) * 2.0 ** nb), 2 ** nb - 1)

    @staticmethod
    def choice(a, *args, **kw):
        return list(a)[0] if not isinstance(a, (int, np.integer)) else 0


@contextlib.contextmanager
def scripted_env(counts=(2, 0, 3, 1, 4, 1, 2)):
    import random

    import numpy.random as npr

    st = Streams(counts)
    saved = (npr.uniform, npr.normal, npr.poisson, npr.random_sample, npr.choice, random.getrandbits)
    npr.uniform, npr.normal, npr.poisson, npr.random_sample, npr.choice = st.uniform, st.normal, st.poisson, st.random_sample, st.choice
    random.getrandbits = st.getrandbits
    try:
        yield st
    finally:
        npr.uniform, npr.normal, npr.poisson, npr.random_sample, npr.choice, random.getrandbits = saved


def _vol_stub(i, j, h, levy_model):
    """Stand-in of vol_adjustment_ij: level dependent (through h), symmetric, positive definite."""
    return h * h * (2.0 + i) if i == j else 0.5 * h * h


class _SerialPool:
    def __init__(self, *a, **k):
        pass

    def __enter__(self):
        return self

    def __exit__(self, *a):
        return False

    class _Res:
        def __init__(self, v):
            self.v = v

        def get(self, *a, **k):
            return self.v

    def apply_async(self, fn, args=(), kwds=None):
        return self._Res(fn(*args, **(kwds or {})))


class _SerialMP:
    Pool = _SerialPool


@contextlib.contextmanager
def nd_diffusion_stub(active):
    if not active:
        yield
        return
    import rpylib.process.markovchain.markovchainlevycopula as M

    saved = (M.vol_adjustment_ij, M.mp)
    M.vol_adjustment_ij, M.mp = _vol_stub, _SerialMP
    try:
        yield
    finally:
        M.vol_adjustment_ij, M.mp = saved


# ----------------------------------------------------------------------------------------------------------------------
# products, path managers, reference chains
# ----------------------------------------------------------------------------------------------------------------------

def make_product(maturity=1.0, stochastic=False, underlying="spot"):
    from rpylib.product.payoff import Forward, PayoffDates
    from rpylib.product.product import Product
    from rpylib.product.underlying import Asian, Discretisation, Spot

    payoff = Forward(strike=0.0)
    if stochastic:
        payoff.payoff_dates_type = PayoffDates.STOCHASTIC
    und = Spot() if underlying == "spot" else Asian(discretisation=Discretisation.YEARLY)
    return Product(payoff_underlying=und, payoff=payoff, maturity=maturity)


def product_of(case):
    p = case.get("product", PRODUCTS[0])
    return make_product(maturity=p["maturity"], stochastic=(case.get("mode") == "jumptimes"), underlying=p["underlying"])


def path_manager(fine_process):
    from rpylib.montecarlo.path import MLMCPath

    return MLMCPath(deterministic_path=fine_process.deterministic_path, activate_spot_underlying=False)


def direct(spec):
    """The model spec without its construction route: references are always built directly."""
    if isinstance(spec, dict) and "via" in spec:
        return {k: v for k, v in spec.items() if k != "via"}
    return spec


class Dim1:
    dim = 1

    @staticmethod
    def model(spec):
        return A.make_model(spec)

    @staticmethod
    def coupling(model, grid, method):
        from rpylib.process.coupling.couplingmarkovchain import CouplingMarkovChain

        return CouplingMarkovChain(model=model, method=method, grid=grid)

    @staticmethod
    def chain(model, grid, method):
        from rpylib.process.markovchain.markovchain import MarkovChainProcess

        return MarkovChainProcess(model=model, method=method, grid=grid)

    @staticmethod
    def states(grid):
        """[(increment, value)] of every state but the origin; increments are ints, values floats."""
        axis, o = grid.axes[0], grid.origin_coordinate.value
        return [(k - o, float(axis[k])) for k in range(len(axis)) if k != o]

    @staticmethod
    def value_of(grid, inc):
        return float(grid.axes[0][grid.origin_coordinate.value + int(inc)])

    @staticmethod
    def kernel_fn(cp, raw=False):
        sim = _attr(cp, "_path_coupling_simulation")
        f = _attr(sim, "coupling_state")
        if raw:
            return lambda inc: float(f(inc))  # the increment handed over in the caller's form
        return lambda inc: float(f(int(inc)))

    @staticmethod
    def forms(inc):
        """The same increment in the other integer forms a caller (or a sampler) may hand over."""
        return [("numpy-int64", np.int64(inc)), ("numpy-int32", np.int32(inc))]

    @staticmethod
    def uniform_of(cp):
        return _attr(cp, "uniform", "_uniform")

    @staticmethod
    def rates(proc, grid):
        axis = grid.axes[0]
        o = grid.origin_coordinate.value
        cells, _ = O.ref_cells(axis, o, middle=grid.middle)
        out, neg = {}, 0.0
        for k, cell in enumerate(cells):
            if cell is not None:
                m = float(proc.model.mass(float(cell[0]), float(cell[1])))
                neg = min(neg, m)
                out[float(axis[k])] = max(m, 0.0)
        return out, neg

    @staticmethod
    def coefficients(cp):
        return (np.atleast_2d(float(_attr(cp, "equivalent_diffusion_coefficient_fine"))),
                np.atleast_2d(float(_attr(cp, "equivalent_diffusion_coefficient_coarse"))))

    @staticmethod
    def chain_coefficient(chain):
        return np.atleast_2d(float(_attr(chain, "equivalent_diffusion_coefficient")))

    @staticmethod
    def key(v):
        return float(v)

    zero = 0.0


class DimN:
    def __init__(self, dim):
        self.dim = dim
        self.zero = tuple([0.0] * dim)

    @staticmethod
    def model(spec):
        return A.make_copula_model(spec)

    @staticmethod
    def coupling(model, grid, method):
        from rpylib.process.coupling.couplinglevycopula import CouplingProcessLevyCopula

        return CouplingProcessLevyCopula(levy_copula_model=model, grid=grid, method=method)

    @staticmethod
    def chain(model, grid, method):
        from rpylib.process.markovchain.markovchainlevycopula import MarkovChainLevyCopula

        return MarkovChainLevyCopula(levy_copula_model=model, grid=grid, method=method)

    @staticmethod
    def states(grid):
        orig = list(grid.origin_coordinate)
        out = []
        for idx in itertools.product(*[range(len(ax)) for ax in grid.axes]):
            inc = tuple(i - o for i, o in zip(idx, orig))
            if any(inc):
                out.append((inc, tuple(float(grid.axes[k][i]) for k, i in enumerate(idx))))
        return out

    @staticmethod
    def value_of(grid, inc):
        orig = list(grid.origin_coordinate)
        return tuple(float(grid.axes[k][orig[k] + int(i)]) for k, i in enumerate(inc))

    @staticmethod
    def kernel_fn(cp, raw=False):
        sim = _attr(cp, "_path_coupling_simulation")
        co = (lambda inc: inc) if raw else (lambda inc: tuple(int(i) for i in inc))
        # the route the simulation itself takes: the coarse values of a slice of one jump (starting from the origin)
        slice_fn = getattr(sim, "_coupling_states_for_a_slice", None)
        if slice_fn is not None:
            return lambda inc: tuple(float(v) for v in np.asarray(slice_fn([co(inc)])[0]).ravel())
        f = _attr(sim, "_CouplingLevyCopulaSimulation__coupling_state", "coupling_state")
        return lambda inc: tuple(float(v) for v in np.asarray(f(co(inc))).ravel())

    @staticmethod
    def forms(inc):
        # the samplers hand over tuples of Python ints (INVERSION) or tuples mixing Python and numpy integers (the adapted tree)
        return [("tuple-of-numpy-int64", tuple(np.int64(i) for i in inc)),
                ("tuple-of-int-and-numpy-int64", tuple(int(i) if k == 0 else np.int64(i) for k, i in enumerate(inc))),
                ("array-row", np.array([int(i) for i in inc]))]

    @staticmethod
    def uniform_of(cp):
        return _attr(cp, "_uniform", "uniform")

    @staticmethod
    def rates(proc, grid):
        orig = list(grid.origin_coordinate)
        per_axis = []
        for k, axis in enumerate(grid.axes):
            cells, central = O.ref_cells(axis, orig[k], middle=None)
            per_axis.append([c if c is not None else central for c in cells])
        out, neg = {}, 0.0
        for idx in itertools.product(*[range(len(ax)) for ax in grid.axes]):
            if all(i == o for i, o in zip(idx, orig)):
                continue
            a = tuple(float(per_axis[k][i][0]) for k, i in enumerate(idx))
            b = tuple(float(per_axis[k][i][1]) for k, i in enumerate(idx))
            m = float(proc.model.mass(a, b))
            neg = min(neg, m)
            out[tuple(float(grid.axes[k][i]) for k, i in enumerate(idx))] = max(m, 0.0)
        return out, neg

    @staticmethod
    def coefficients(cp):
        return (np.asarray(_attr(cp, "_diffusion_matrix_h"), dtype=float), np.asarray(_attr(cp, "_diffusion_matrix_2h"), dtype=float))

    @staticmethod
    def chain_coefficient(chain):
        return np.asarray(_attr(_attr(chain, "_path_simulation"), "diffusion_matrix"), dtype=float)

    @staticmethod
    def key(v):
        return tuple(float(x) for x in np.asarray(v).ravel())


def dim_of(case):
    d = case.get("dim", 1)
    return Dim1 if d == 1 else DimN(d)


def spec_of(case):
    return {"model": case["model"], "grid": case["grid"], "method": case["method"], "dim": case.get("dim", 1), "pre": case.get("pre", 0)}


def ref_chain(D, spec, refine, product):
    """Chain of the level `refine` built by the public constructor on an independently constructed grid."""
    from rpylib.distribution.sampling import SamplingMethod

    model = D.model(direct(spec["model"]))
    grid = A.make_grid(dict(spec["grid"], refine=refine + spec.get("pre", 0)), model, D.dim)
    chain = D.chain(model, grid, SamplingMethod[spec["method"]])
    product.update(chain.process_representation)
    chain.initialisation(product)
    return chain, grid


# ----------------------------------------------------------------------------------------------------------------------
# histories
# ----------------------------------------------------------------------------------------------------------------------

def exercise_kernel(D, cp):
    """Use the kernel of every fine state at the intermediate level before the next refinement, so that anything the object
    memoises at level l-1 is in place when level l is observed."""
    kernel = D.kernel_fn(cp)
    uni = D.uniform_of(cp)
    orig = uni.sample
    try:
        for u in (0.3, 0.7):
            uni.sample = lambda size=1, u=u: np.full(size, u)
            for inc, _ in D.states(cp.grid):
                try:
                    kernel(inc)
                except SeamMissing:
                    raise
                except Exception:  # noqa - zero-rate n-d states may refuse any uniform (measured where the kernel is judged)
                    pass
    finally:
        uni.sample = orig


def take_to_level(sh, D, case, product, cls, sub, nsim=2):
    """Coupling object of the case at its level, reached along the case's history and route. -> (cp, pms or None)"""
    from rpylib.distribution.sampling import SamplingMethod

    model = D.model(case["model"])
    grid = A.make_grid(dict(case["grid"], refine=case.get("pre", 0)), model, D.dim)
    cp = D.coupling(model, grid, SamplingMethod[case["method"]])
    eps = case.get("eps", 0.4) if case.get("mode") == "maxstep" else None
    product.update(cp.fine_process.process_representation)
    if eps is None:
        cp.initialisation(product)
    else:
        cp.initialisation(product, max_step_epsilon=eps)
    pms = [path_manager(cp.fine_process)] if case.get("route", "pm") == "pm" else None
    history = case.get("history", "plain")
    for l in range(case["level"]):
        if history == "kernel" and l > 0:
            exercise_kernel(D, cp)
        elif history == "second-product" and l == 0:
            # a first pricing of another product (the other kind of payoff dates, another maturity) on the same object
            try:
                other = make_product(maturity=0.75 * product.maturity, stochastic=(case.get("mode") != "jumptimes"))
                other.update(cp.fine_process.process_representation)
                cp.initialisation(other)
                cp.pre_computation(mc_paths=1, product=other)
                cp.simulate_one_path()
            except SeamMissing:
                raise
            except Exception as e:  # noqa
                sh.violation(f"C03:{sub}:history-simulation-raises-{type(e).__name__}:level-0:{cls}",
                             f"history {history}: pricing another product first: {e!r}", None)
            product.update(cp.fine_process.process_representation)
            if eps is None:
                cp.initialisation(product)
            else:
                cp.initialisation(product, max_step_epsilon=eps)
        elif history in ("simulate", "engine"):
            try:
                if history == "engine":
                    cp.reset_one_simulation_cost()
                cp.pre_computation(mc_paths=nsim, product=product)
                for n in range(nsim):
                    if l == 0 or (history == "simulate" and n == 0):
                        cp.simulate_one_path()  # the fine chain alone (level 0; also allowed on a refined object)
                    else:
                        cp.simulate_one_path_with_coupling()
            except SeamMissing:
                raise
            except Exception as e:  # noqa
                sh.violation(f"C03:{sub}:history-simulation-raises-{type(e).__name__}:level-{'0' if l == 0 else 'ge1'}:{cls}",
                             f"history {history}: simulating at level {l} before next_level: {e!r}", None)
            if history == "engine":
                cp = copy.deepcopy(cp)
        elif history in ("constant", "dill"):
            try:
                if l == 0 or history == "dill":
                    cp.pre_computation(mc_paths=nsim, product=product)  # level 0: Engine.initialisation
                    avail = nsim
                    if history == "constant":
                        cp = copy.deepcopy(cp)  # the engine refines a copy of its level-0 process
                else:
                    # Engine.price_with_constant_mc_paths_and_level: the paths of a level >= 1 are simulated right after
                    # next_level, which pre-computed for the number of paths it was given - no pre_computation of their own
                    avail = min(nsim, case.get("mc_paths", 1)) if case.get("mode", "fixed") == "fixed" else nsim
                for n in range(avail):
                    if l == 0:
                        cp.simulate_one_path()
                    else:
                        cp.simulate_one_path_with_coupling()
            except SeamMissing:
                raise
            except Exception as e:  # noqa
                sh.violation(f"C03:{sub}:history-simulation-raises-{type(e).__name__}:level-{'0' if l == 0 else 'ge1'}:{cls}",
                             f"history {history}: simulating at level {l} before next_level: {e!r}", None)
            if history == "dill":
                # what the pool branch of the engines does to the process: every chunk of paths works on a dill copy
                cp = round_trip(cp, "dill")
        if case.get("args", "keyword") == "keyword":
            cp.next_level(mc_paths=case.get("mc_paths", 1), path_managers=pms, product=product, max_step_epsilon=eps)
        else:
            # the same call as the engines write it: positional, the number of paths a numpy integer (an element of the array
            # of paths per level), the step a numpy float
            cp.next_level(np.int64(case.get("mc_paths", 1)), pms, product, None if eps is None else np.float64(eps))
    return cp, pms


def round_trip(obj, how):
    """A copy of the object: "dill" (dumps / loads, what a pool worker receives), "deepcopy" (what the multilevel engine keeps per
    level) or the object itself."""
    if how == "dill":
        import dill

        return dill.loads(dill.dumps(obj))
    if how == "deepcopy":
        return copy.deepcopy(obj)
    return obj


# ----------------------------------------------------------------------------------------------------------------------
# kernel
# ----------------------------------------------------------------------------------------------------------------------

# Tolerance of the telescoping identity for the coarse state y of rate r: TOL_REL * r for the closed-form masses of its own
# cell and of the <= 3^d fine cells it is made of, plus TOL_CANCEL * lambda for the cancellation inside each mass (a difference
# of two tail integrals, each bounded by the total intensity lambda) and the 1-ulp resolution of the recovered break points
# times the rates they multiply. Observed on the unchanged tree over both tiers: at most 2e-16 * lambda.
TOL_REL = 1e-9
TOL_CANCEL = 1e-13


def verify_kernel(sh, D, cp, spec, level, product_fn, cls, sub, pms=None, maturity=1.0):
    """Kernel, telescoping, deterministic paths and diffusion coefficients of a coupling standing at `level`.
    -> dict(chains=..., split=...)"""
    dim = D.dim
    grid_f, fine = cp.grid, cp.fine_process
    chains = {}
    for lev in range(level + 1):
        if lev >= level - 1 or pms is not None:
            chains[lev] = ref_chain(D, spec, lev, product_fn())
    chain_c, grid_c = chains[level - 1]
    (rf, neg_f), (rc, neg_c) = D.rates(fine, grid_f), D.rates(chain_c, grid_c)
    lam_f, lam_c = sum(rf.values()), sum(rc.values())
    if min(neg_f, neg_c) < -TOL_CANCEL * lam_f:
        sh.count("negative-reference-mass-clamped")
    kernel = D.kernel_fn(cp)
    kernel_raw = D.kernel_fn(cp, raw=True)
    uni = D.uniform_of(cp)
    orig_sample = uni.sample
    coarse_vals = set(rc) | {D.zero}
    acc = {}
    split = 0
    axes = [[float(v) for v in ax] for ax in grid_f.axes]
    origin = [int(o) for o in (list(grid_f.origin_coordinate) if dim > 1 else [grid_f.origin_coordinate.value])]
    try:
        for inc, x in D.states(grid_f):
            inc_t = inc if dim > 1 else (inc,)
            x_t = x if dim > 1 else (x,)

            def f(u, inc=inc):
                uni.sample = lambda size=1: np.full(size, u)
                try:
                    return kernel(inc)
                except SeamMissing:
                    raise
                except Exception as e:  # noqa - the kernel refuses this uniform (the n-d code raises when the cumulated
                    # probabilities of the corners stay below u): measured below, tolerated only on a set of rounding size
                    return ("RAISES", type(e).__name__)

            pieces, ev, hi = C2.recover_partition(f, 64)
            sh.count("evaluations", ev)
            L = C2.lengths(pieces, hi)
            undefined = sum(v for k, v in L.items() if isinstance(k, tuple) and k and k[0] == "RAISES")
            parity = "".join("o" if i % 2 else "e" for i in inc_t)
            # weighted by the rate of the fine state: a state of zero rate is never sampled and its kernel is irrelevant;
            # a shortfall of rounding size in the cumulated corner probabilities has no measurable mass
            if rf[x] * undefined > 1e-12 * lam_f:
                kinds = sorted({k[1] for k in L if isinstance(k, tuple) and k and k[0] == "RAISES"})
                sh.violation(f"C03:{sub}:coupling-raises-{'-'.join(kinds)}:{cls}",
                             f"level {level}: increment {inc} (parity {parity}): the kernel raises on a set of uniforms of length {undefined!r}", None)
            L = {k: v for k, v in L.items() if not (isinstance(k, tuple) and k and k[0] == "RAISES")}
            sh.states += 1
            sh.transitions += len(L)
            odd = [k for k in range(dim) if inc_t[k] % 2]
            pclass = "all-even" if not odd else ("all-odd" if len(odd) == dim else "mixed-parity")
            sh.cls(f"{sub}:parity:{pclass}")
            for y in L:
                y_t = y if dim > 1 else (y,)
                ok = len(y_t) == dim
                for k in range(dim):
                    if not ok:
                        break
                    i = origin[k] + inc_t[k]
                    if k in odd:
                        ok = ok and y_t[k] in (axes[k][i - 1], axes[k][i + 1])
                    else:
                        ok = ok and y_t[k] == x_t[k]
                if not ok:
                    what = "even-increment-not-copied" if not odd else "coarse-state-not-adjacent-or-even-coordinate-moved"
                    sh.violation(f"C03:{sub}:{what}:{pclass}:{cls}", f"level {level}: fine state {x} (increment {inc}) -> {y} (probability {L[y]!r})", None)
                if y not in coarse_vals:
                    sh.violation(f"C03:{sub}:coarse-value-not-on-the-coarse-grid:{cls}", f"level {level}: increment {inc} -> {y}", None)
            if len(L) > 1:
                split += 1
            for y, p in L.items():
                acc[y] = acc.get(y, 0.0) + rf[x] * p
            # the same increment in another integer form (what the samplers hand over is not the harness's Python int) is
            # sent to the same coarse state by the same uniform; a form the code refuses is outside the alphabet
            for u in (0.37, 0.81):
                usual = f(u)
                if isinstance(usual, tuple) and usual and usual[0] == "RAISES":
                    continue
                for fname, other in D.forms(inc):
                    uni.sample = lambda size=1, u=u: np.full(size, u)
                    try:
                        got = kernel_raw(other)
                    except SeamMissing:
                        raise
                    except Exception:  # noqa
                        sh.count(f"increment-form-refused:{fname}")
                        continue
                    sh.count("evaluations")
                    if got != usual:
                        sh.violation(f"C03:{sub}:kernel-depends-on-the-form-of-the-increment:{fname}:{pclass}:{cls}",
                                     f"level {level}: increment {inc} with coupling uniform {u}: {got} when handed over as {fname}, "
                                     f"{usual} as Python int(s)", None)
    finally:
        uni.sample = orig_sample
    # (i) telescoping
    worst_rel = worst_abs = 0.0
    edges = [(axes_c[0], axes_c[-1]) for axes_c in ([float(v) for v in ax] for ax in grid_c.axes)]
    for y, r in rc.items():
        got = acc.get(y, 0.0)
        err = abs(got - r)
        tol = TOL_REL * r + TOL_CANCEL * lam_f + 1e-300
        if r > 0:
            worst_rel = max(worst_rel, (err - TOL_CANCEL * lam_f) / r)
        worst_abs = max(worst_abs, err / lam_f)
        if not err <= tol:
            y_t = y if dim > 1 else (y,)
            if dim == 1:
                pos = "boundary-state" if y in edges[0] else "interior-state"
            else:
                pos = "on-axis" if any(v == 0.0 for v in y_t) else "off-axis"
            sh.violation(f"C03:{sub}:coarse-rate-not-reproduced:{pos}:{cls}",
                         f"level {level}: coarse state {y}: sum_x rate(x) P(x->y) = {got!r} but the level-{level - 1} chain has rate {r!r} "
                         f"(relative to the rate {err / r if r else math.inf:.3g}, to lambda {err / lam_f:.3g})", {"lam_f": lam_f, "lam_c": lam_c})
    nj = acc.get(D.zero, 0.0)
    if not abs(nj - (lam_f - lam_c)) <= TOL_REL * abs(lam_f - lam_c) + 50 * TOL_CANCEL * lam_f:
        sh.violation(f"C03:{sub}:no-coarse-jump-mass-differs:{cls}",
                     f"level {level}: mass sent to the coarse origin {nj!r} but lambda_l - lambda_(l-1) = {lam_f - lam_c!r}", None)
    if not core.close(float(fine.intensity_of_jumps), lam_f, rtol=1e-9) or not core.close(float(chain_c.intensity_of_jumps), lam_c, rtol=1e-9):
        sh.count("oracle-rates-differ-from-intensity")  # C01's subject; the rates used above are the reference-cell masses
        sh.note(f"{sub} {cls}: intensity_of_jumps differs from the sum of the reference-cell masses (C01)")
    if DEBUG:
        print(f"DEBUG {sub} {cls} L{level}: states {len(rf)} worst_rel(after cancel) {worst_rel:.3g} worst_abs/lam {worst_abs:.3g} lam {lam_f:.6g}")
    # (iii) deterministic paths of every level's path manager, re-read now
    times = np.array([0.0, 0.3, float(maturity)])
    if pms is not None:
        if len(pms) != level + 1:
            sh.violation(f"C03:{sub}:path-managers-not-one-per-level:{cls}", f"level {level}: {len(pms)} path managers", None)
        for k in range(1, min(level, len(pms) - 1) + 1):
            dp = np.asarray(pms[k].deterministic_path(times), dtype=float)
            want_f = np.asarray(chains[k][0].deterministic_path(times), dtype=float)
            want_c = np.asarray(chains[k - 1][0].deterministic_path(times), dtype=float)
            scale = max(1.0, float(np.max(np.abs(want_c))))
            which = "last-level" if k == level else "earlier-level-re-read"
            if dp.shape[0] != 2 or np.shape(dp[1]) != want_c.shape or not np.allclose(dp[1], want_c, rtol=1e-11, atol=1e-12 * scale):
                sh.violation(f"C03:{sub}:coarse-deterministic-path-not-level-minus-one:{which}:{cls}",
                             f"level {level}, path manager {k}, times {times.tolist()}: coarse {dp[1].tolist() if dp.shape[0] == 2 else dp.tolist()} "
                             f"vs level-{k - 1} chain {want_c.tolist()}", None)
            if dp.shape[0] == 2 and (np.shape(dp[0]) != want_f.shape or not np.allclose(dp[0], want_f, rtol=1e-11, atol=1e-12 * scale)):
                sh.violation(f"C03:{sub}:fine-deterministic-path-differs:{which}:{cls}",
                             f"level {level}, path manager {k}: {dp[0].tolist()} vs level-{k} chain {want_f.tolist()}", None)
            sh.count("evaluations")
            if not np.array_equal(times, np.array([0.0, 0.3, float(maturity)])):
                sh.violation(f"C03:{sub}:deterministic-path-modifies-the-callers-times:{cls}",
                             f"level {level}, path manager {k}: the times array handed over is now {times.tolist()}", None)
                times = np.array([0.0, 0.3, float(maturity)])
    # diffusion coefficients / matrices
    cf, cc = D.coefficients(cp)
    want_cf, want_cc = D.chain_coefficient(chains[level][0]), D.chain_coefficient(chain_c)
    name = "coefficient" if dim == 1 else "matrix"
    if cc.shape != want_cc.shape or not np.allclose(cc, want_cc, rtol=1e-9, atol=1e-14):
        sh.violation(f"C03:{sub}:coarse-diffusion-{name}-not-level-minus-one:{cls}",
                     f"level {level}: {cc.tolist()} vs level-{level - 1} chain {want_cc.tolist()}", None)
    if cf.shape != want_cf.shape or not np.allclose(cf, want_cf, rtol=1e-9, atol=1e-14):
        sh.violation(f"C03:{sub}:fine-diffusion-{name}-differs:{cls}", f"level {level}: {cf.tolist()} vs level-{level} chain {want_cf.tolist()}", None)
    if not np.allclose(want_cf, want_cc, rtol=1e-6, atol=0.0):
        sh.cls(f"{sub}:level-dependent-diffusion")
    sh.outcome((cls, level, len(rf), split, round(lam_f, 9)))
    return {"chains": chains, "split": split, "rf": rf, "rc": rc, "acc": acc, "worst": worst_abs, "coefs": (want_cf, want_cc)}


def _kernel(sh, case):
    D = dim_of(case)
    level = case["level"]
    gk = case["grid"]["kind"]
    if D.dim == 1:
        mk = case["model"]["family"] + ("[reinit]" if case["model"].get("via") == "reinit" else "")
        cls = f"{gk}:{mk}"
    else:
        mk = "+".join(case["model"]["margins"]) + ":" + case["model"]["copula"]["kind"]
        cls = f"d{D.dim}:{gk}:{mk}"
    sub = case["sub"]
    route = case.get("route", "pm")
    if route != "pm":
        cls += ":route-none"
    product = product_of(case)
    maturity = product.maturity
    prep, carrier = case.get("prep", "precompute"), case.get("carrier", "self")
    with nd_diffusion_stub(case.get("stub")), scripted_env(COUNTS[case.get("counts", "a")]) as st:
        try:
            cp, pms = take_to_level(sh, D, case, product, cls, sub)
        except A.OutsideAlphabet:
            sh.count("outside-alphabet-grid")
            return
        res = verify_kernel(sh, D, cp, spec_of(case), level, lambda: product_of(case), cls, sub, pms=pms, maturity=maturity)
        # (iv) a few scripted paths of this very object (or of a copy of it), kernel images from the same object
        refs = {"coefs": res["coefs"]}
        obs = round_trip(cp, carrier)
        verify_paths(sh, D, obs, obs, product, refs, cls + copy_tag(carrier), sub, n_paths=3, st=st,
                     per_jump_times=case.get("mode", "fixed") != "fixed", prep=prep, avail=case.get("mc_paths", 1))
    if res["split"]:
        sh.nontriv()
    sh.cls(f"{sub}:history:{case.get('history', 'plain')}")
    sh.cls(f"{sub}:route:{route}")
    sh.cls(f"{sub}:mode:{case.get('mode', 'fixed')}")
    sh.cls(f"{sub}:prep:{prep}")
    sh.cls(f"{sub}:carrier:{carrier}")
    if D.dim == 1 and gk == "fixed" and case["model"] == HEM and level == 1 and route == "pm":
        sh.sample({"sub": sub, "case": case, "fine_rates": res["rf"], "coarse_rates": res["rc"], "telescoped": res["acc"]})
    if D.dim == 2 and case["grid"] == G_F3 and level == 1 and case["model"] == CM_HV:
        sh.sample({"sub": sub, "case": case, "fine_states": len(res["rf"]), "coarse_states": len(res["rc"]),
                   "worst_defect_relative_to_lambda": res["worst"]})


# ----------------------------------------------------------------------------------------------------------------------
# paths
# ----------------------------------------------------------------------------------------------------------------------

U_PATH = (0.2, 0.8, 0.5, 0.03, 0.97, 0.35)


def verify_paths(sh, D, cp, twin, product, refs, cls, sub, n_paths, st, per_jump_times, prep="precompute", avail=None):
    """Simulate n_paths coupled paths of `cp` (random sources scripted by the enclosing scripted_env) and compare each with the
    fine chain's own output and the kernel images of `twin` (which may be cp itself).
    prep = "precompute": reset_one_simulation_cost and pre_computation first (Engine.price); "next-level": nothing - the object
    is used as next_level left it, which pre-computed for `avail` paths (Engine.price_with_constant_mc_paths_and_level)."""
    dim = D.dim
    fine = cp.fine_process
    ps = _attr(fine, "_path_simulation")
    orig_smc = _attr(ps, "simulate_markov_chain")
    uni = D.uniform_of(cp)
    orig_sample = uni.sample
    twin_kernel = D.kernel_fn(twin)
    twin_uni = D.uniform_of(twin)
    cache = {}

    def K(inc, u):
        key = (tuple(inc) if dim > 1 else int(inc), u)
        if key not in cache:
            saved = twin_uni.sample
            twin_uni.sample = lambda size=1: np.full(size, u)
            try:
                cache[key] = np.atleast_1d(np.asarray(twin_kernel(inc), dtype=float))
            finally:
                twin_uni.sample = saved
        return cache[key]

    want_cf, want_cc = refs["coefs"]
    ratio = want_cc @ np.linalg.pinv(want_cf)  # coarse diffusion = ratio @ fine diffusion when driven by the same increments
    maturity = float(product.maturity)
    if prep == "next-level":
        if not per_jump_times:
            n_paths = min(n_paths, int(avail or 0))  # the fixed-dates classes pre-draw one row of variates per path
        cls_p = cls + ":as-left-by-next-level"
    else:
        cls_p = cls
        try:
            cp.reset_one_simulation_cost()
            cp.pre_computation(mc_paths=n_paths, product=product)
        except SeamMissing:
            raise
        except Exception as e:  # noqa
            sh.violation(f"C03:{sub}:pre-computation-raises-{type(e).__name__}:{cls}", f"{e!r}", None)
            return
    cls = cls_p
    seen_odd = False
    for p in range(n_paths):
        u = U_PATH[p % len(U_PATH)]
        rec = {}
        drawn = {"n": 0}

        def spy():
            mc = orig_smc()
            rec["mc"] = (copy.deepcopy(_attr(mc, "times")), copy.deepcopy(_attr(mc, "values")), copy.deepcopy(_attr(mc, "states_increments")))
            return mc

        def s_uniform(size=1, u=u):
            drawn["n"] += int(np.prod(size))
            return np.full(size, u)

        try:
            ps.simulate_markov_chain = spy
            uni.sample = s_uniform
            try:
                path = cp.simulate_one_path_with_coupling()
            finally:
                uni.sample = orig_sample
                try:
                    del ps.simulate_markov_chain
                except AttributeError:
                    ps.simulate_markov_chain = orig_smc
        except SeamMissing:
            raise
        except Exception as e:  # noqa
            nj = "unknown"
            if "mc" in rec:
                nmax = max([len(s) for s in rec["mc"][2]] + [0])
                nj = "0" if nmax == 0 else ("1" if nmax == 1 else "ge2")
            sh.violation(f"C03:{sub}:simulate-raises-{type(e).__name__}:{cls}:jumps-per-interval={nj}",
                         f"path {p}: simulate_one_path_with_coupling: {e!r}", {"fine_chain": core.jsonable(rec.get("mc"))})
            continue
        if "mc" not in rec:
            raise SeamMissing("simulate_markov_chain of the fine chain is not called by the coupling")
        sh.count("evaluations")
        times_mc, values_mc, incs_mc = rec["mc"]
        T = np.asarray(path.jump_times, dtype=float).ravel()
        J = np.asarray(path.jump_path, dtype=float)
        Dp = np.asarray(path.diffusion_path, dtype=float)
        if J.shape[0] != 2 or J.shape[-1] != T.size or Dp.shape != J.shape or (dim > 1 and J.shape[1] != dim):
            sh.violation(f"C03:{sub}:coupled-path-shape:{cls}", f"times {T.shape}, jump path {J.shape}, diffusion path {Dp.shape}", None)
            continue
        J = J.reshape(2, dim, T.size)
        Dp = Dp.reshape(2, dim, T.size)
        # reference events (time, fine running value, coarse running value), in time order
        n_int = len(incs_mc)
        if len(np.atleast_1d(times_mc)) != (sum(len(s) for s in incs_mc) if per_jump_times else n_int):
            raise SeamMissing("MarkovChain.times is neither one time per jump (jump-time classes) nor one per interval (fixed dates)")
        events = []
        off_f, off_c = np.zeros(dim), np.zeros(dim)
        tpos = 0
        word = []
        odd_jumps = 0
        for i in range(n_int):
            incs = [tuple(int(v) for v in np.atleast_1d(x)) for x in incs_mc[i]]
            vals = np.asarray(values_mc[i], dtype=float).reshape(len(incs), dim) if len(incs) else np.zeros((0, dim))
            run_c = np.zeros(dim)
            even_seen = [False] * dim
            for jn, inc in enumerate(incs):
                if any(v % 2 for v in inc):
                    odd_jumps += 1
                    seen_odd = True
                if any(even_seen[k] and inc[k] % 2 for k in range(dim)):
                    sh.cls(f"{sub}:slice:later-odd-after-earlier-even-on-the-same-coordinate")
                for k in range(dim):
                    even_seen[k] = even_seen[k] or inc[k] % 2 == 0
                run_c = run_c + K(inc if dim > 1 else inc[0], u)
                if per_jump_times:
                    events.append((float(np.atleast_1d(times_mc)[tpos]), off_f + vals[jn], off_c + run_c))
                    tpos += 1
            if len(incs):
                off_f = off_f + vals[-1]
                off_c = off_c + run_c
            if len(incs) >= 2:
                sh.cls(f"{sub}:slice:two-or-more-jumps")
            word.append(len(incs))
            if not per_jump_times:
                events.append((float(np.atleast_1d(times_mc)[i]), off_f.copy(), off_c.copy()))
        # compare at every time of the path's own grid
        ev_t = np.array([e[0] for e in events], dtype=float)
        bad = None
        if T.size < 2 or T[0] != 0.0 or not core.close(T[-1], maturity, rtol=1e-12):
            sh.count("path-time-grid-does-not-span-0-to-maturity")  # C15's subject; the comparison below does not need it
        if per_jump_times and not all(np.any(np.abs(T - t) <= 1e-12 * max(1.0, maturity)) for t in ev_t):
            # the fine component is the level-l chain's path: every jump time of the chain is a time of the pair
            bad = ("jump-time-of-the-fine-chain-missing-from-the-path", f"jump times {ev_t.tolist()} path times {T.tolist()}")
        if bad is None:
            for n, t in enumerate(T):
                k = int(np.searchsorted(ev_t, t + 1e-12 * max(1.0, maturity), side="right"))
                wf, wc = (events[k - 1][1], events[k - 1][2]) if k else (np.zeros(dim), np.zeros(dim))
                sc = max(1.0, float(np.max(np.abs(wf))), float(np.max(np.abs(wc))))
                if not np.allclose(J[0, :, n], wf, rtol=0, atol=1e-12 * sc):
                    bad = ("fine-component-differs-from-the-fine-chain", f"time index {n} (t={t}): fine {J[0, :, n].tolist()}, fine chain {wf.tolist()}")
                    break
                if not np.allclose(J[1, :, n], wc, rtol=0, atol=1e-12 * sc):
                    pos = "terminal" if n == T.size - 1 else "intermediate"
                    bad = (f"coarse-component-differs-from-kernel-images:{pos}-time",
                           f"time index {n} (t={t}): coarse {J[1, :, n].tolist()}, sum of the kernel images (u={u}) {wc.tolist()}")
                    break
        if bad is not None:
            sh.violation(f"C03:{sub}:coupled-pair:{bad[0]}:{cls}", f"path {p}, jumps per interval {word}: {bad[1]}",
                         {"increments": core.jsonable(incs_mc), "times": T.tolist(), "jump_path": J.tolist(), "u": u})
        if drawn["n"] < odd_jumps:
            sh.violation(f"C03:{sub}:coupled-pair:fewer-coupling-uniforms-than-projected-jumps:{cls}",
                         f"path {p}: {odd_jumps} jumps with an odd coordinate, {drawn['n']} coupling uniforms drawn", None)
        # same Brownian increments
        exp_c = np.einsum("ij,jn->in", ratio, Dp[0])
        sc = max(float(np.max(np.abs(Dp))), 1e-300)
        if np.any(Dp[:, :, 0] != 0.0) or not np.allclose(Dp[1], exp_c, rtol=0, atol=1e-11 * sc):
            n = int(np.argmax(np.max(np.abs(Dp[1] - exp_c), axis=0)))
            sh.violation(f"C03:{sub}:diffusion-components-not-driven-by-the-same-increments:{cls}",
                         f"path {p}, time index {n}: coarse diffusion {Dp[1, :, n].tolist()} but (level l-1 coefficient / level l coefficient) x fine "
                         f"diffusion = {exp_c[:, n].tolist()} (fine {Dp[0, :, n].tolist()})", {"ratio": ratio.tolist()})
        if np.any(want_cf != 0.0):
            if np.all(Dp[0] == 0.0):
                sh.count("fine-diffusion-identically-zero-with-positive-coefficient")
            else:
                sh.cls(f"{sub}:diffusion:non-zero")
                if not np.allclose(want_cf, want_cc, rtol=1e-6, atol=0.0):
                    sh.cls(f"{sub}:diffusion:non-zero:level-dependent:{prep}:{'jump-times' if per_jump_times else 'fixed-dates'}")
        # the fine component is the level-l chain: its diffusion part moves by (level-l coefficient) x sqrt(dt) x (a standard normal
        # variate the simulation drew) over every step - dimension 1, where the coefficient can be divided out
        if dim == 1 and float(want_cf[0, 0]) != 0.0 and T.size >= 2:
            sig = float(want_cf[0, 0])
            dT, dD = np.diff(T), np.diff(Dp[0, 0])
            drawn_n = np.asarray(st.normals, dtype=float)
            if drawn_n.size == 0:
                sh.count("normal-seam-not-used")
            else:
                ok_steps = dT > 0.0
                w = dD[ok_steps] / (np.sqrt(dT[ok_steps]) * sig)
                slack = 1e-9 + 64 * np.finfo(float).eps * sc / (np.sqrt(dT[ok_steps]) * abs(sig))
                dist = np.array([float(np.min(np.abs(drawn_n - x))) for x in w]) if w.size else np.zeros(0)
                sh.count("evaluations", int(w.size))
                if np.any(dist > slack):
                    n = int(np.argmax(dist - slack))
                    sh.violation(f"C03:{sub}:fine-diffusion-step-is-not-level-l-coefficient-times-a-drawn-normal:{cls}",
                                 f"path {p}: step {n} of the fine diffusion part is {dD[ok_steps][n]!r} over dt = {dT[ok_steps][n]!r}: divided by the "
                                 f"level-l coefficient {sig!r} and sqrt(dt) it gives {w[n]!r}, at {dist[n]:.3g} from the nearest standard "
                                 f"normal variate handed out to the simulation", None)
        sh.outcome((sub, cls, tuple(word), round(float(np.sum(J[1, :, -1])), 12), round(float(np.sum(Dp[1, :, -1])), 12)))
    return seen_odd


def copy_tag(carrier):
    return "" if carrier == "self" else f":on-a-{carrier}-copy"


def _assembly(sh, case):
    D = dim_of(case)
    level = case["level"]
    gk, meth, mode = case["grid"]["kind"], case["method"], case["mode"]
    route = case.get("route", "pm")
    sub = f"assembly{D.dim}d"
    cls = f"{meth.lower()}:{mode}" + (":route-none" if route != "pm" else "")
    product = product_of(case)
    prep, carrier = case.get("prep", "precompute"), case.get("carrier", "self")
    with nd_diffusion_stub(case.get("stub")), scripted_env(COUNTS[case.get("counts", "a")]) as st:
        try:
            cp, pms = take_to_level(sh, D, case, product, cls, sub)
        except A.OutsideAlphabet:
            sh.count("outside-alphabet-grid")
            return
        twin, _ = take_to_level(sh, D, dict(case, history="plain", model=direct(case["model"])), product_of(case), cls, sub)
        spec = spec_of(case)
        refs = {"coefs": (D.chain_coefficient(ref_chain(D, spec, level, product_of(case))[0]),
                          D.chain_coefficient(ref_chain(D, spec, level - 1, product_of(case))[0]))}
        obs = round_trip(cp, carrier)
        seen_odd = verify_paths(sh, D, obs, twin, product, refs, cls + copy_tag(carrier), sub, n_paths=6, st=st, per_jump_times=mode != "fixed",
                                prep=prep, avail=case.get("mc_paths", 1))
    if seen_odd:
        sh.nontriv()
    sh.cls(f"{sub}:prep:{prep}")
    sh.cls(f"{sub}:carrier:{carrier}")
    sh.cls(f"{sub}:history:{case.get('history', 'plain')}")
    sh.cls(f"{sub}:route:{route}")
    sh.cls(f"{sub}:product:{case['product']['underlying']}-{case['product']['maturity']}")


# ----------------------------------------------------------------------------------------------------------------------
# SDE coupling
# ----------------------------------------------------------------------------------------------------------------------

def _sde_model(case):
    from rpylib.model.levydrivensde.levylibormodel import LevyLiborModel
    from rpylib.model.utils import create_levy_forward_market_model, create_levy_forward_market_model_copula

    if case["dim"] == 1:
        drv = A.make_model(case["driver"])
        if case["sde"] == "libor":
            sigma = np.array([[0.50], [0.80], [1.00], [1.25], [1.50]])
            return LevyLiborModel(libor_rates=[0.02] * 5, tenors=[5, 6, 7, 8, 9, 10], sigma=sigma, driver=drv)
        return create_levy_forward_market_model(driver=drv)
    return create_levy_forward_market_model_copula(driver=[A.make_model(A.MARGINS[n]) for n in case["driver"]])


def _sde(sh, case):
    from rpylib.distribution.sampling import SamplingMethod
    from rpylib.montecarlo.path import MLMCPath
    from rpylib.process.coupling.couplingsde import CouplingSDE

    level, dim = case["level"], case["dim"]
    D = dim_of(case)
    history = case.get("history", "plain")
    prep, carrier = case.get("prep", "precompute"), case.get("carrier", "self")
    drv_name = case["driver"]["family"] + ("[reinit]" if case["driver"].get("via") else "") if dim == 1 else "+".join(case["driver"])
    cls = f"{case['sde']}:d{dim}:{drv_name}"
    sub = "sde"
    meth = SamplingMethod[case["method"]]
    maturity = 5.0
    with nd_diffusion_stub(case.get("stub")), scripted_env() as st:
        model = _sde_model(case)
        grid = A.make_grid(dict(case["grid"], refine=0), model.driver, dim)
        cp = CouplingSDE(model=model, grid=grid, method=meth)
        product = make_product(maturity=maturity)
        product.update(cp.fine_process.process_representation)
        cp.initialisation(product)
        pms = [MLMCPath(deterministic_path=cp.fine_process.deterministic_path, activate_spot_underlying=False)]
        for l in range(level):
            if history != "plain":
                try:
                    cp.reset_one_simulation_cost()
                    cp.pre_computation(mc_paths=1, product=product)
                    if l == 0:
                        cp.simulate_one_path()
                    else:
                        cp.simulate_one_path_with_coupling()
                except SeamMissing:
                    raise
                except Exception as e:  # noqa
                    sh.violation(f"C03:sde:history-simulation-raises-{type(e).__name__}:level-{'0' if l == 0 else 'ge1'}:{cls}",
                                 f"history {history}: simulating at level {l} before next_level: {e!r}", None)
                if history == "engine":
                    cp = copy.deepcopy(cp)
            cp.next_level(3 if prep == "next-level" else 1, pms, product)
        # drifts of the two components
        if dim == 1:
            spec = {"model": case["driver"], "grid": case["grid"], "method": case["method"], "dim": 1}
        else:
            spec = {"model": {"margins": case["driver"], "copula": {"kind": "clayton", "theta": 0.7, "eta": 0.3}}, "grid": case["grid"],
                    "method": case["method"], "dim": dim}
        for which, lev in (("mc_drift_2h", level - 1), ("mc_drift_h", level)):
            ch, _ = ref_chain(D, spec, lev, make_product(maturity=maturity))
            want = np.asarray(ch.process_drift(), dtype=float).ravel()
            got = np.asarray(getattr(cp, which), dtype=float).ravel()
            sh.count("evaluations")
            if got.shape != want.shape or not np.allclose(got, want, rtol=1e-11, atol=1e-14):
                sh.violation(f"C03:sde:{which}-is-not-the-drift-of-level-{'l-1' if which.endswith('2h') else 'l'}:{cls}",
                             f"level {level}: {which} = {got.tolist()} but the driver chain refined {lev} times has drift {want.tolist()}", None)
            sh.outcome((cls, level, which, tuple(round(float(v), 12) for v in got)))
        # the driver coupling reached through CouplingSDE.next_level: next_level(path_managers=None, max_step_epsilon=epsilon)
        drv_cp = _attr(cp, "driver_coupling_process")
        res = verify_kernel(sh, D, drv_cp, spec, level, lambda: make_product(maturity=maturity), cls, "sde-driver", pms=None, maturity=maturity)
        obs = round_trip(drv_cp, carrier)
        verify_paths(sh, D, obs, obs, product, {"coefs": res["coefs"]}, cls + copy_tag(carrier), "sde-driver", n_paths=3, st=st,
                     per_jump_times=True, prep=prep, avail=3)
    sh.cls(f"sde:history:{history}")
    sh.cls(f"sde:prep:{prep}")
    sh.nontriv()


def post(total, tier):
    """Coverage floors of the sweep: classes the sub-checks exist for must have been reached (otherwise the run is marked as not
    exhaustive - never an alarm)."""
    need = [
        "assembly2d:slice:later-odd-after-earlier-even-on-the-same-coordinate",
        "assembly2d:slice:two-or-more-jumps",
        "assembly1d:slice:two-or-more-jumps",
        "kernelnd:parity:mixed-parity",
        "kernelnd:level-dependent-diffusion",
        "kernel1d:level-dependent-diffusion",
        "sde-driver:level-dependent-diffusion",
        "assembly1d:diffusion:non-zero",
        "assembly2d:diffusion:non-zero",
    ] + [f"{s}:history:{h}" for s in ("kernel1d", "kernelnd", "assembly1d", "assembly2d") for h in HISTORIES]
    need += [f"{s}:{a}:{v}" for s in ("kernel1d", "kernelnd", "assembly1d", "assembly2d") for a, vs in (("prep", PREPS), ("carrier", CARRIERS))
             for v in vs]
    # a level-dependent diffusion coefficient observed on paths, prepared either way, with pre-drawn and with on-the-fly increments
    need += [f"{s}:diffusion:non-zero:level-dependent:{pr}:{m}" for s in ("kernel1d", "assembly1d", "assembly2d", "kernelnd")
             for pr in PREPS for m in ("fixed-dates", "jump-times")]
    need += [f"sde-driver:diffusion:non-zero:level-dependent:{pr}:jump-times" for pr in PREPS]
    for n in need:
        if n not in total.classes:
            total.cap(f"coverage floor not reached: {n}")
    for n in ("outside-alphabet-grid", "fine-diffusion-identically-zero-with-positive-coefficient", "seam-missing",
              "path-time-grid-does-not-span-0-to-maturity", "normal-seam-not-used"):
        if total.counters.get(n):
            total.cap(f"{n}: {total.counters[n]} case(s)")
