"""C08 - randomness discipline: seeded runs repeat; no two samples share random variates.

Mode: stateless choice explorer over complete runs - and over HISTORIES of several runs on re-used objects - of both REAL engines
on REAL simulators (LevyProcess = direct simulation, MarkovChainProcess / CouplingMarkovChain on an 11-state grid; HEM and Merton
Levy models; inversion / table / alias samplers), with every source of nondeterminism owned by mc/c08_util.py: a counter-based
tracing generator behind numpy.random.* and random.*, fake os.getpid and time.time as seen from rpylib.montecarlo.configuration,
SimPool in place of pathos.multiprocessing.Pool inside the two engine modules, and a scripted os.cpu_count() answer for pools
built with processes=None.

Generator     the traced numpy.random.* / random.* functions are BOUND METHODS OF GENERATOR OBJECTS, as the real ones are (numpy's
objects       global RandomState, random._inst): a library object that keeps such a function - or a generator made by
              numpy.random.default_rng / RandomState - in an attribute carries the generator along; copy / deepcopy / pickle / dill
              of the holder (what the pool does for every chunk, what the multilevel engine does with its coupling process) make a
              DETACHED clone with (stream, position) of that moment, deaf to later seedings of the global generator; its draws are
              reported to the harness like any other, so two chunk copies replaying the same positions are a sharing (class
              `generator-object-copied-with-its-holder:<origin>`), a clone that ignores the seed breaks oracle (a). Names bound to
              the functions at import time (`from numpy.random import normal`, class attributes) follow the replacement.

Choice points  the worker that runs each chunk (default round robin), the second returned by each time.time() call (same as
               the previous call / next second). Bound: all sequences with at most D deviations (`bound` of the case).
Environment    nb_of_processes=None (the constructor DEFAULT: "one worker per CPU") makes the number of workers an answer of the
answers        operating system: cpus in {1, 2} (+ 3 thorough) is part of the case.

Sub-check `run` (one pricing on fresh objects). Lattice: engine in {standard, multilevel fixed-level, multilevel adaptive}
               x process of the standard engine in {chain, levy (direct simulation)} x simulation mode in {fixed dates, jump
               times} x seed in {None, 7, 0} x nb_of_processes in {1, 2, None with cpus 1, None with cpus 2} (+ 3, None with
               cpus 3 thorough) x paths in {4, 9} (+ 8 thorough); D = 1 quick, 2 thorough (1 with a single worker, with seed 0 and
               with nb_of_processes=None, whose schedules are those of an explicit number of processes). Quick keeps
               seed 0 only with nb_of_processes in {1, None/2 cpus} and 4 paths, 9 paths only for the chain process of the
               standard and fixed-level engines, and explores the default schedule only (D = 0) for seed 0 with a pool and for
               the adaptive engine with nb_of_processes=None (it opens one pool per level and pass).
               Argument form `numpy-int`: engine x process x mode with seed 7, 4 paths, nb_of_processes 2 (1, 2, 3 thorough) and
               every integer argument (paths, nb_of_processes, levels) a numpy.int64, the maturity a Python int (D = 0 quick).
Sub-check `repeat` (oracle (a) on fresh objects): engine x process x mode x sampling method x seed in {7, 0} (x model in {hem,
               hem with a re-initialised parameter object (alphabets.with_reinit), merton} for the inversion method; quick:
               other models with seed 7 only), 5 paths. The two runs differ in the pre-existing generator state, in the clock
               and in the pid of the pricing process (what a time / pid derived seed is made of). `numpy-int` twin (hem, seed 7;
               quick: inversion only): the second run is given numpy.int64 integers and an int maturity - same samples required;
               a form the tree refuses (TypeError / ValueError) is counted (`argument_form_rejected`), never an alarm. The seed
               itself stays a Python int: random.seed refuses numpy integers, the unchanged tree raises.
Sub-check `history` (several pricings, objects re-used). A history is a list of steps; a step = (whose engine prices, which
               product, which public attributes of the configuration are re-assigned before, which public method is called
               before, which public pricing method); the first step is always a plain pricing on fresh objects:
                 on       same engine | copy: a deep copy of it | dill-copy: a dill round trip of it (both continue as the current
                          engine) | shallow-copy: copy.copy of it (shares configuration and process) | other-engine: another engine
                          built from scratch (independent objects of the same classes priced in between: leaks through class
                          attributes / module caches / shared defaults) | shared-process: another engine + configuration built on
                          the SAME process object | copied-process: the same on a DEEP COPY of the process | shared-conf: another
                          engine + process on the SAME configuration object | new-conf: a new configuration object assigned to
                          the engine
                 product  the history's own product | other-product: a product of the other simulation mode (each built once)
                 set      paths (mc_paths / initial_mc_paths = 6), seed (11), seed0 (0), unseed (None), pool (nb_of_processes = 2)
                          assigned on the live configuration; restore = {paths 4, seed 7, nb_of_processes 1}
                 pre      init: Engine.initialisation called by the user; precomp: process.pre_computation called by the user
                          (pre-drawn variates left unconsumed); failed: a pricing of the same kind that dies in the path loop
                          (the user's payoff raises at its third evaluation) and is caught by the user
                 op       standard: price; multilevel: price_with_constant_mc_paths_and_level, price(rmse)
               quick    = every first op x every step label x every second op, plus the sandwiches op1 / X.opm / restore.op1
                          with X in SANDWICH - all with seed 7, one process, inversion sampler - plus the plain repetitions
                          with the table sampler, plus the plain two-step histories for (seed, nb_of_processes) in
                          {None, 7} x {1, 2, None with 2 cpus} other than (7, 1) (D = 1 with one process, 0 with a pool);
               thorough = all three-step histories over the step alphabet (+ restore as third step) for seed 7 / one process
                          (default schedule in their `pool` steps; table and alias samplers for the plain ones), the plain
                          three-step ones for the other environments with D = 1.
Oracle (a) with a seed and one process, a pricing stores identical samples (and returns the same price) bit for bit whatever
           happened before: two runs on fresh objects started from two DIFFERENT pre-existing generator states (`repeat`), and
           every step of a history whose effective configuration has a seed and one process against the SAME pricing made on
           freshly built objects (`history`; only the first failing step of a history is reported, the key names the history
           up to that step);
       (b) within one run (one step of a history) the sets of variates consumed by two different samples - (stream, position)
           of every draw made while the sample is simulated, by the global generators or by a detached generator object, plus the
           pre-drawn Brownian / jump-count row it pops - are pairwise disjoint, across paths, passes, levels and simulated
           workers; every sample of a fixed-date run pops exactly one pre-drawn row;
       (c) classification of every sharing by its mechanism (same pre-drawn row from two chunk copies / generator re-seeded
           to a used state at a new level or pass / two workers with one seed / a generator object copied with the object that
           holds it), which is what the violation key carries;
       (d) every random content of a sample's path is backed by recorded variates: at least as many normal variates (drawn on the
           fly or popped with a pre-drawn row) as the path has non-zero Brownian increments, and one more variate when it has
           jumps - a path with content and no recorded variate was drawn from a generator the harness does not see (a private
           RandomState / Generator object ...), which would blind (b). Not judged when variates could not be attributed (caps).
Keys           C08:<engine>[:levy][:numpy-int-arguments]:<mode>:<unseeded|seeded|seed=0>[:procs-none]:<single|pool>:samples-share-variates:<class>
               C08:<same prefix>:path-content-without-recorded-variate:<brownian-increments|jumps>
               C08:repeat:<engine>[:levy]:<mode>:<method>[:<model>][:seed=0][:numpy-int-arguments]:seeded-single-process-run-not-reproduced
               C08:history:<engine>[:levy]:start=<mode>[:<method>]:<history up to step k>:step<k>:<mode of the step>:<env>:...
               C08:conformance-real-pool:<engine>[:levy]:<mode>:<env>:samples-share-variates:<class> | ...:sharing-with-the-real-pool-
               differs-from-the-tracing-generator-model | ...:number-of-paths-of-the-real-pool-differs-from-the-SimPool-model
               (`...:fixed:*:pool:samples-share-variates:pre-drawn-row-consumed-twice:two-pool-chunk-copies` is the open
               known finding in all forms - also as observed with the real pool).
Conformance    `conformance`: the real engines are run with the REAL pathos pool on a scripted process that reports (pid, row
               popped, number of paths produced by this copy): chunking, per-chunk copies, result order and the number of worker
               processes must be what SimPool models - including processes=None with os.cpu_count() scripted to 3.
               `conformance-variates`: the real engines on the REAL simulators with the REAL pool and the REAL numpy / random
               generators: {standard/levy, standard/chain, multilevel fixed-level/chain} x {jump times, fixed dates} x seed in
               {None, 7} x (nb_of_processes, paths) = (2, 9) [+ (None with 2 cpus, 8) = chunks of one path for the standard engine
               in jump-time mode; thorough: + (2, 8), (3, 13), (None/2 cpus, 17)]. Every path the pool hands back to the parent's
               path manager is observed (MCPath.set_to_path) and its variates are recovered: Brownian increment / sqrt(dt), inner
               jump times, jump sizes (direct simulation). Two samples whose recovered variates coincide (rtol 1e-11) share them:
               reported under the keys above (fixed dates, same slot of two chunks, Brownian family = the known finding); and
               the set of sharing pairs must be the one the tracing generator + SimPool give for the same case. Both reported as
               traces_validated_against_impl.
Self-checks    a draw from a numpy.random / random function the tracing generator does not replace changes the real global
               generator state: detected at the end of every run and raised (harness-exception), never a silent pass. Variates
               drawn outside pre_computation and outside a simulate_one_path* call, and a pre_computation whose draw pattern is
               not the one the attribution of pre-drawn rows assumes, are reported as caps (evidence: not exhaustive). A case is
               non-trivial only if every run in it simulated at least two samples.
Not covered: OS-level timing, start methods other than fork, pid reuse; nb_of_processes < 1 (the pool refuses it); sharing of
variates BETWEEN two runs of a history (the statement speaks of one run; seeded runs share by design); the max-step simulation
mode (reached only through the SDE processes, not through the anchored engines + Levy processes); the Levy-copula and SDE
coupling processes; control variates / spot statistics / variance reduction options (they draw nothing; antithetic raises
NotImplementedError); a grid refined by the user between two pricings (another configuration, not a repetition); a seed given as
a numpy integer (refused by random.seed on the unchanged tree); zero paths; generator objects reached through
numpy.random.Generator(bit generator) / numpy.random.mtrand._rand / random.Random() are not replaced by traced ones (their draws
are seen by oracle (d) only); a pricing that fails inside the pool branch.
"""
from __future__ import annotations

import copy
import os

import numpy as np

from mc import alphabets as A
from mc import c08_util as U
from mc import core

PID = "C08"
LEVEL = "model_checking"
RULE = (
    "every configuration of the stated lattice and every history of the stated step alphabet x every sequence of environment "
    "answers (chunk -> worker, clock) with at most D deviations; one evaluation = one complete run of a real engine on real "
    "simulators under the tracing generator; non-trivial = the run simulated at least two samples; states = distinct observed "
    "(sample -> worker, seed events) outcomes, transitions = choice points taken"
)
ASSUMPTIONS = [
    "worker processes are represented by SimPool (mc/c08_util.py); its chunking / per-chunk closure copies / result order / "
    "number of workers for processes=None are validated against the real pathos pool by the conformance sub-check",
    "two draws share a variate iff they cover the same (stream tag, position) of the tracing generator; re-seeding with a value "
    "used before re-creates the same stream, as numpy's generator does; a copy (copy / deepcopy / pickle / dill) of a generator "
    "object continues from the position of the moment of copying, as numpy's RandomState and random.Random do",
    "conformance-variates: two independent continuous variates of the real generators do not coincide within rtol 1e-11",
]
CHUNK = 1

HEM = {"family": "hem", "exp": False, "params": {}}
MODELS = {"hem": HEM, "hem-reinit": dict(HEM, via="reinit"), "merton": {"family": "merton", "exp": False, "params": {}}}
GRID = {"kind": "fixed", "h": 0.02, "n": 10, "refine": 0}
RMSE = 0.02
SEED, SEED2 = 7, 11  # + seed 0: a seed like any other (None is the "no seed" marker), but falsy
OPS = {"standard": ("price",), "mlmc": ("constant", "adaptive")}
OTHER_MODE = {"fixed": "jumptimes", "jumptimes": "fixed"}

# step alphabet of the histories (label -> step without its op)
STEPS = {
    "same": {},
    "copy": {"on": "copy"},
    "dill-copy": {"on": "dill-copy"},
    "shallow-copy": {"on": "shallow-copy"},
    "copied-process": {"on": "copied-process"},
    "other-engine": {"on": "other-engine"},
    "shared-process": {"on": "shared-process"},
    "shared-conf": {"on": "shared-conf"},
    "new-conf": {"on": "new-conf"},
    "init": {"pre": "initialisation"},
    "precomp": {"pre": "pre_computation"},
    "failed": {"pre": "failed-pricing"},
    "other-product": {"product": "other"},
    "paths": {"set": {"paths": 6}},
    "seed": {"set": {"seed": SEED2}},
    "seed0": {"set": {"seed": 0}},
    "unseed": {"set": {"seed": None}},
    "pool": {"set": {"procs": 2}},
}
SANDWICH = ("other-product", "other-engine", "shared-process", "shared-conf", "pool", "paths", "seed", "seed0", "unseed", "failed",
            "dill-copy")


def _procs_alphabet(thorough):
    """(nb_of_processes, scripted cpu count) - the cpu count matters only for nb_of_processes=None"""
    out = [(1, None), (2, None)]
    if thorough:
        out.append((3, None))
    out += [(None, 1), (None, 2)]
    if thorough:
        out.append((None, 3))
    return out


def _step(label, op, restore=None):
    if restore is not None:  # plain pricing on the current engine after the configuration got its original values back
        return {"set": dict(restore), "op": op, "label": "restore"}
    return dict(STEPS[label], op=op, label=label)


def _history_cases(tier):
    thorough = tier == "thorough"
    out = []
    flavours = [("standard", "chain"), ("standard", "levy"), ("mlmc", "chain")]
    for engine, process in flavours:
        ops = OPS[engine]
        for mode in ("fixed", "jumptimes"):
            base = {"sub": "history", "engine": engine, "process": process, "mode": mode, "paths": 4}
            restore = {"paths": 4, "seed": SEED, "procs": 1}
            # (a)+(b): seed and one process
            hs = []
            for op1 in ops:
                first = _step("same", op1)
                for lab in STEPS:
                    for op2 in ops:
                        hs.append([first, _step(lab, op2)])
                if not thorough:
                    for lab in SANDWICH:
                        for opm in ops:
                            hs.append([first, _step(lab, opm), _step("same", op1, restore=restore)])
                else:
                    for lab2 in STEPS:
                        for op2 in ops:
                            for lab3 in list(STEPS) + ["restore"]:
                                for op3 in ops:
                                    third = _step("same", op3, restore=restore) if lab3 == "restore" else _step(lab3, op3)
                                    hs.append([first, _step(lab2, op2), third])
            for h in hs:
                out.append(dict(base, seed=SEED, procs=1, cpus=None, bound=0, steps=h))  # choice points only in a `pool` step
                if process == "chain" and all(st["label"] == "same" for st in h):
                    # the table sampler draws its states from `random`, the alias sampler from its own numpy calls
                    for method in (("TABLE", "ALIAS") if thorough else ("TABLE",)):
                        out.append(dict(base, seed=SEED, procs=1, cpus=None, bound=0, steps=h, method=method))
            # (b) in the other environments: plain repetitions
            for seed in (None, SEED):
                for procs, cpus in [(1, None), (2, None), (None, 2)]:
                    if seed == SEED and procs == 1:
                        continue
                    for op1 in ops:
                        for op2 in ops:
                            h = [_step("same", op1), _step("same", op2)]
                            if thorough:
                                for op3 in ops:
                                    out.append(dict(base, seed=seed, procs=procs, cpus=cpus, bound=1, steps=h + [_step("same", op3)]))
                            else:
                                out.append(dict(base, seed=seed, procs=procs, cpus=cpus, bound=1 if procs == 1 else 0, steps=h))
    return out


def cases(tier):
    thorough = tier == "thorough"
    out = []
    bound = 2 if thorough else 1
    for engine, process in (("standard", "chain"), ("standard", "levy"), ("mlmc-fixed", "chain"), ("mlmc-adaptive", "chain")):
        for mode in ("fixed", "jumptimes"):
            for seed in (None, SEED, 0):
                for procs, cpus in _procs_alphabet(thorough):
                    for paths in ((4, 8, 9) if thorough else (4, 9)):
                        if engine == "mlmc-adaptive" and paths == 9 and not thorough:
                            continue
                        if seed == 0 and not thorough and (procs not in (1, None) or cpus == 1 or paths == 9):
                            continue  # quick: seed 0 with one process and with the default number of processes
                        if process == "levy" and paths == 9 and not thorough:
                            continue
                        single = procs == 1 or (procs is None and (cpus or 1) == 1)
                        b = min(bound, 1) if single else bound
                        if not thorough and not single and (seed == 0 or (procs is None and engine == "mlmc-adaptive")):
                            b = 0  # quick: default schedule only (the adaptive engine opens a pool per level and pass)
                        if thorough and not single and (seed == 0 or procs is None):
                            b = 1  # the schedules of None / k cpus are those of k processes, explored with D = 2
                        out.append({"sub": "run", "engine": engine, "process": process, "mode": mode, "seed": seed, "procs": procs,
                                    "cpus": cpus, "paths": paths, "bound": b})
    for engine, process in (("standard", "chain"), ("standard", "levy"), ("mlmc-fixed", "chain"), ("mlmc-adaptive", "chain")):
        for mode in ("fixed", "jumptimes"):
            for procs in ((1, 2, 3) if thorough else (2,)):  # the integer arguments as numpy integers, pool branch included
                out.append({"sub": "run", "engine": engine, "process": process, "mode": mode, "seed": SEED, "procs": procs, "cpus": None,
                            "paths": 4, "bound": 1 if thorough else 0, "forms": "numpy-int"})
    for engine, process in (("standard", "chain"), ("standard", "levy"), ("mlmc-fixed", "chain"), ("mlmc-adaptive", "chain")):
        for mode in ("fixed", "jumptimes"):
            # every sampling method draws its states from its own source (the table method reads `random`, not numpy)
            methods = ("INVERSION", "TABLE", "ALIAS") if (thorough or engine != "mlmc-adaptive") else ("INVERSION",)
            if process == "levy":
                methods = ("INVERSION",)  # direct simulation: no sampler of states
            for method in methods:
                for model in (("hem", "hem-reinit", "merton") if method == "INVERSION" else ("hem",)):
                    if model != "hem" and engine == "mlmc-adaptive" and not thorough:
                        continue
                    for seed in (SEED, 0):
                        if seed == 0 and model != "hem" and not thorough:
                            continue
                        out.append({"sub": "repeat", "engine": engine, "process": process, "mode": mode, "seed": seed, "paths": 5,
                                    "method": method, "model": model})
                        if model == "hem" and seed == SEED and (thorough or method == "INVERSION"):
                            out.append(dict(out[-1], forms="numpy-int"))
    out += _history_cases(tier)
    for procs, paths in ((2, 4), (2, 8), (3, 9), (2, 17)):
        out.append({"sub": "conformance", "procs": procs, "cpus": None, "paths": paths, "engine": "standard"})
    out.append({"sub": "conformance", "procs": None, "cpus": 3, "paths": 13, "engine": "standard"})
    out.append({"sub": "conformance", "procs": 2, "cpus": None, "paths": 8, "engine": "mlmc-fixed"})
    out.append({"sub": "conformance", "procs": None, "cpus": 3, "paths": 13, "engine": "mlmc-fixed"})
    # the REAL engines on the REAL simulators with the REAL pool and the REAL generators: which samples share variates, as
    # recovered from the simulated paths, against what the tracing generator + SimPool say about the same configuration
    for engine, process in (("standard", "levy"), ("standard", "chain"), ("mlmc-fixed", "chain")):
        for mode in ("jumptimes", "fixed"):
            for seed in (None, SEED):
                envs = [(2, None, 9)] + ([(2, None, 8), (3, None, 13), (None, 2, 17)] if thorough else [])
                if engine == "standard" and mode == "jumptimes" and not thorough:
                    envs.append((None, 2, 8))  # chunks of one path
                for procs, cpus, paths in envs:
                    out.append({"sub": "conformance-variates", "engine": engine, "process": process, "mode": mode, "seed": seed,
                                "procs": procs, "cpus": cpus, "paths": paths, "model": "hem" if engine != "standard" or seed is None else "merton"})
    return out


def check_case(sh, case):
    {"run": _run, "repeat": _repeat, "history": _history, "conformance": _conformance,
     "conformance-variates": _conformance_variates}[case["sub"]](sh, case)


# ----------------------------------------------------------------------------------------------------------------------
# construction of the real objects
# ----------------------------------------------------------------------------------------------------------------------

class _PayoffFailure(Exception):
    pass


def make_product(mode, fails_at=None, int_maturity=False):
    from rpylib.product.payoff import Forward, PayoffDates
    from rpylib.product.product import Product
    from rpylib.product.underlying import Spot

    if fails_at is None:
        payoff = Forward(strike=0.0)
    else:
        class Failing(Forward):  # a user's payoff that raises at its `fails_at`-th evaluation
            calls = 0

            def evaluate(self, underlying):
                self.calls += 1
                if self.calls >= fails_at:
                    raise _PayoffFailure()
                return underlying - self.strike

        payoff = Failing(strike=0.0)
    if mode == "jumptimes":
        payoff.payoff_dates_type = PayoffDates.STOCHASTIC
    return Product(payoff_underlying=Spot(), payoff=payoff, maturity=1 if int_maturity else 1.0)


def _kind(case):
    """engine class and (for the one-pricing sub-checks) the pricing method, from the engine label of the case"""
    e = case["engine"]
    if e == "standard":
        return "standard", "price"
    if e == "mlmc":
        return "mlmc", None
    return "mlmc", {"mlmc-fixed": "constant", "mlmc-adaptive": "adaptive"}[e]


def make_configuration(case, paths=None, seed="case", procs="case"):
    from rpylib.montecarlo.configuration import ConfigurationMultiLevel, ConfigurationStandard, ConvergenceRates

    paths = case["paths"] if paths is None else paths
    seed = case["seed"] if seed == "case" else seed
    procs = case.get("procs", 1) if procs == "case" else procs
    e = case["engine"]
    # argument form: the integer arguments as numpy integers (what arithmetic on arrays hands over) instead of Python ints; the
    # seed stays a Python int (random.seed refuses numpy integers: the unchanged tree raises)
    i = np.int64 if case.get("forms") == "numpy-int" else int
    paths, procs = i(paths), (None if procs is None else i(procs))
    if e == "standard":
        return ConfigurationStandard(mc_paths=paths, seed=seed, nb_of_processes=procs)
    if e == "mlmc-fixed":
        return ConfigurationMultiLevel(initial_level=i(1), maximum_level=i(2), initial_mc_paths=paths, seed=seed, nb_of_processes=procs)
    if e == "mlmc-adaptive":
        return ConfigurationMultiLevel(convergence_rates=ConvergenceRates(alpha=1.0, beta=2.0, gamma=1.0), initial_level=i(2),
                                       maximum_level=i(3), initial_mc_paths=paths, seed=seed, nb_of_processes=procs)
    # histories: one configuration serves both pricing methods (the default convergence criteria need three levels)
    return ConfigurationMultiLevel(convergence_rates=ConvergenceRates(alpha=1.0, beta=2.0, gamma=1.0), initial_level=i(2),
                                   maximum_level=i(3), initial_mc_paths=paths, seed=seed, nb_of_processes=procs)


def make_process(case):
    from rpylib.distribution.sampling import SamplingMethod

    model = A.make_model(MODELS[case.get("model", "hem")])
    method = SamplingMethod[case.get("method", "INVERSION")]
    if _kind(case)[0] == "standard":
        if case.get("process", "chain") == "levy":
            from rpylib.process.levyprocess import LevyProcess

            return LevyProcess(model)
        from rpylib.process.markovchain.markovchain import MarkovChainProcess

        return MarkovChainProcess(model=model, method=method, grid=A.make_grid(GRID, model, 1))
    from rpylib.process.coupling.couplingmarkovchain import CouplingMarkovChain

    return CouplingMarkovChain(model=model, method=method, grid=A.make_grid(GRID, model, 1))


def make_engine(case, conf, proc):
    if _kind(case)[0] == "standard":
        from rpylib.montecarlo.standard.engine import Engine

        return Engine(configuration=conf, process=proc)
    from rpylib.montecarlo.multilevel.engine import Engine

    return Engine(configuration=conf, coupling_process=proc)


def do_op(eng, product, op):
    if op == "price":
        return eng.price(product)
    if op == "constant":
        return eng.price_with_constant_mc_paths_and_level(product)
    return eng.price(product, RMSE)


def engine_process(eng):
    return eng.process if hasattr(eng, "process") else eng.coupling_process


def set_paths(conf, n):
    if hasattr(conf, "mc_paths"):
        conf.mc_paths = n
    else:
        conf.initial_mc_paths = n


def build_and_price(case):
    """Construct real objects and run the engine once; returns the statistics object."""
    eng = make_engine(case, make_configuration(case), make_process(case))
    return do_op(eng, make_product(case["mode"], int_maturity=case.get("forms") == "numpy-int"), _kind(case)[1]), eng


def stored_rows(stats):
    if hasattr(stats, "mc_statistics"):
        rows = [np.array(m._payoff_statistics.stats, dtype=float) for m in stats.mc_statistics]
    else:
        rows = [np.array(stats._payoff_statistics.stats, dtype=float)]
    try:  # the returned price, as a last "level"
        rows.append(np.atleast_1d(np.array(stats.price(), dtype=float)))
    except Exception:  # noqa: BLE001 - a price that cannot be formed is not this property's business
        rows.append(np.zeros(0))
    return rows


def same_rows(r1, r2):
    return len(r1) == len(r2) and all(a.shape == b.shape and np.array_equal(a, b, equal_nan=True) for a, b in zip(r1, r2))


def first_difference(r1, r2):
    if len(r1) != len(r2):
        return f"{len(r1) - 1} vs {len(r2) - 1} levels"
    for l, (a, b) in enumerate(zip(r1, r2)):
        name = "price" if l == len(r1) - 1 else f"level {l}"
        if a.shape != b.shape:
            return f"{name}: shapes {a.shape} vs {b.shape}"
        d = np.argwhere(~((a == b) | (np.isnan(a) & np.isnan(b))))
        if d.size:
            return f"{name} row {int(d[0][0])}: {a[tuple(d[0])]!r} vs {b[tuple(d[0])]!r}"
    return None


class _Quiet:
    def __enter__(self):
        import logging
        import warnings

        self.w = warnings.catch_warnings()
        self.w.__enter__()
        warnings.simplefilter("ignore")
        self.e = np.errstate(all="ignore")
        self.e.__enter__()
        logging.disable(logging.CRITICAL)

    def __exit__(self, *a):
        import logging

        logging.disable(logging.NOTSET)
        self.e.__exit__(*a)
        self.w.__exit__(*a)
        return False


def _no_untraced(h, case):
    if h.untraced:
        raise RuntimeError(f"the library drew from {h.untraced} through a function the tracing generator does not replace: {case}")


def _blind_spots(sh, h):
    """what would make oracle (b) blind is reported as a cap (evidence: not exhaustive), never passed over silently"""
    if any(e[0] == "pre-computation-draw-pattern-unknown" for e in h.events):
        sh.cap("the draw pattern of SimulationFixedTimes.pre_computation changed: pre-drawn rows are not attributed to paths")
    if h.unattributed:
        sh.cap(f"{h.unattributed} variates drawn outside pre_computation and outside a simulate_one_path* call: not attributed to a sample")


def run_once(case, chooser, boot="A"):
    h = U.Harness(chooser, boot=boot, cpus=case.get("cpus"))
    with U.Installed(h), _Quiet():
        stats, eng = build_and_price(case)
    _no_untraced(h, case)
    return h, stats


def classify(h, s1, s2, kind, origin=None):
    a, b = h.samples[s1], h.samples[s2]
    if kind == "captured-generator":
        where = "pool-chunk-copies" if (a["ctx"] != "parent" or b["ctx"] != "parent") else "single-process"
        return f"generator-object-copied-with-its-holder:{origin}:{where}"
    if kind == "pre-drawn":
        where = "two-pool-chunk-copies" if (a["ctx"] != "parent" or b["ctx"] != "parent") else "single-process"
        return f"pre-drawn-row-consumed-twice:{where}"
    if kind == "pre-drawn-vs-stream":
        where = "pool" if (a["ctx"] != "parent" or b["ctx"] != "parent") else "single-process"
        return f"variate-of-a-pre-drawn-row-drawn-again-from-the-stream:{where}"
    same_ctx = a["ctx"] == b["ctx"]
    if same_ctx and a["ctx"] == "parent":
        return "generator-reseeded-to-a-used-state:single-process"
    if same_ctx:
        return "generator-reseeded-to-a-used-state:same-worker"
    pa, pb = a["ctx"].split("-")[0], b["ctx"].split("-")[0]
    if pa == pb:
        return "two-workers-of-one-pool-share-a-stream"
    return "workers-of-two-pools-share-a-stream"


def check_sharing(sh, mode, h, tag, lo=0, hi=None):
    """oracle (b) on the samples lo <= id < hi of the harness (one run)"""
    hi = h.n_samples if hi is None else hi
    owner = {}
    seen = set()
    sids = [sid for sid in sorted(h.samples) if lo <= sid < hi]
    for sid in sids:
        rows_here = h.samples[sid].get("row_tags", set())
        for t in h.samples[sid]["tags"]:
            o = owner.get(t)
            if o is None:
                owner[t] = sid
            elif o != sid:
                both_rows = t in rows_here and t in h.samples[o].get("row_tags", set())
                one_row = (t in rows_here) != (t in h.samples[o].get("row_tags", set()))
                kind = "pre-drawn" if both_rows else ("pre-drawn-vs-stream" if one_row else "stream")
                # a variate drawn by a DETACHED generator object: a copy of a generator made together with the library object
                # that holds it (every chunk copy of the process replays the positions after the moment of pickling)
                origin = h.samples[sid].get("detached", {}).get(t) or h.samples[o].get("detached", {}).get(t)
                if origin is not None and not both_rows:
                    kind = "captured-generator"
                cls = classify(h, o, sid, kind, origin)
                if cls not in seen:
                    seen.add(cls)
                    a, b = h.samples[o], h.samples[sid]
                    sh.violation(f"C08:{tag}:samples-share-variates:{cls}",
                                 f"samples #{o} ({a['ctx']}, pid {a['pid']}) and #{sid} ({b['ctx']}, pid {b['pid']}) both consume "
                                 f"variate {t} ({kind}); {len(sids)} samples in the run",
                                 {"seed_events": h.events[:30], "choices": [c for c in h.chooser.choices]})
    if mode == "fixed":
        bad = [sid for sid in sids if h.samples[sid].get("popped", 1) != 1]
        if bad:
            sh.violation(f"C08:{tag}:sample-does-not-pop-exactly-one-pre-drawn-row",
                         f"samples {bad[:5]} popped {[h.samples[b].get('popped') for b in bad[:5]]} rows", None)
    check_content(sh, h, tag, sids)


def check_content(sh, h, tag, sids):
    """every random content of a sample's path is backed by recorded variates: a non-zero Brownian increment by a normal variate
    (drawn on the fly or popped with a pre-drawn row), jumps by at least one more variate. A path with content and no recorded
    variate was drawn from a source the tracing generator does not see - the oracle of sharing would be blind to it."""
    if h.unattributed or any(e[0] == "pre-computation-draw-pattern-unknown" for e in h.events):
        return  # variates not attributed to samples: already reported as a cap by _blind_spots
    seen = set()
    for sid in sids:
        s = h.samples[sid]
        c = s.get("content")
        if c is None:
            sh.count("path_content_not_measured")
            continue
        nd, nj = c
        normals, total = s["kinds"].get("normal", 0), sum(s["kinds"].values())
        sh.count("path_content_checked")
        what = "brownian-increments" if normals < nd else ("jumps" if (nj and total - nd < 1) else None)
        if what and what not in seen:
            seen.add(what)
            sh.violation(f"C08:{tag}:path-content-without-recorded-variate:{what}",
                         f"sample #{sid} ({s['ctx']}): its path has {nd} non-zero Brownian increments and {nj} non-zero jump "
                         f"increments, but only {s['kinds']} variates were recorded while it was simulated: the others come from "
                         f"a generator the harness does not see (captured before the run / private generator object)", None)


def _env_tag(seed, procs):
    """the known finding is keyed '...:<mode>:*:pool:samples-share-variates:...': 'pool' stays the last component"""
    s = "unseeded" if seed is None else ("seeded" if seed else f"seed={seed}")
    if procs is None:
        return f"{s}:procs-none:pool"
    return f"{s}:{'pool' if procs > 1 else 'single'}"


def _engine_tag(case):
    return case["engine"] + (":levy" if case.get("process", "chain") == "levy" else "")


def _run(sh, case):
    tag = f"{_engine_tag(case)}:{case['mode']}:{_env_tag(case['seed'], case['procs'])}"
    if case.get("forms"):
        tag = f"{_engine_tag(case)}:{case['forms']}-arguments:{case['mode']}:{_env_tag(case['seed'], case['procs'])}"
    outcomes = set()

    def run(ch):
        h, stats = run_once(case, ch)
        sh.count("evaluations")
        sh.count("samples", len(h.samples))
        check_sharing(sh, case["mode"], h, tag)
        _blind_spots(sh, h)
        if len(h.samples) >= 2:
            sh.nontriv()
        o = (tuple((s["ctx"], s["level"]) for _, s in sorted(h.samples.items())),
             tuple((e[0], e[1], e[2]) for e in h.events if e[0].endswith("seed")))
        outcomes.add(core.digest(o))
        sh.outcome(o)
        sh.cls(f"run:{tag}")
        if len(outcomes) == 1 and case["paths"] == 4 and case["procs"] == 2 and _engine_tag(case) == "standard":
            sh.sample({"case": case, "samples": [(sid, s["ctx"], len(s["tags"])) for sid, s in sorted(h.samples.items())][:8],
                       "events": h.events[:12]})

    ex = core.ChoiceExplorer(run, bound=case["bound"], max_runs=3000)
    ex.explore()
    if ex.capped:
        sh.cap(f"run cap hit: {case}")
    sh.states += len(outcomes)
    sh.transitions += ex.points_total


def _repeat(sh, case):
    """(a): a seeded single-process run repeated from two different pre-existing generator states."""
    tag = f"{_engine_tag(case)}:{case['mode']}:{case.get('method', 'INVERSION').lower()}"
    if case.get("model", "hem") != "hem":
        tag += f":{case['model']}"
    if case["seed"] != SEED:
        tag += f":seed={case['seed']}"
    if case.get("forms"):
        tag += f":{case['forms']}-arguments"
    rows = []
    for boot in ("A", "B"):
        ch = core.Chooser([])
        # argument forms: the first run has the usual forms (Python ints, float maturity), the second one the other form
        c = dict(case, procs=1, forms=case.get("forms") if boot == "B" else None)
        try:
            h, stats = run_once(c, ch, boot=boot)
        except (TypeError, ValueError) as exc:
            if boot == "B" and case.get("forms"):  # a form the tree refuses is outside the alphabet: counted, never an alarm
                sh.count("argument_form_rejected")
                sh.note(f"repeat {tag}: the form is rejected ({type(exc).__name__}: {str(exc)[:80]})")
                return
            raise
        rows.append(stored_rows(stats))
        sh.count("evaluations")
    if not same_rows(rows[0], rows[1]):
        sh.violation(f"C08:repeat:{tag}:seeded-single-process-run-not-reproduced",
                     f"seed={case['seed']}, one process, two runs from different pre-existing generator states differ: "
                     f"{first_difference(rows[0], rows[1])}", None)
    sh.outcome((tag, core.digest([r.tolist() for r in rows[0]])))
    sh.cls(f"repeat:{tag}")
    sh.nontriv()


# ----------------------------------------------------------------------------------------------------------------------
# histories on re-used objects
# ----------------------------------------------------------------------------------------------------------------------

_REF = {}  # reference runs on fresh objects: a pure function of the key


def _reference(case, mode, paths, seed, op):
    key = (case["engine"], case.get("process", "chain"), case.get("model", "hem"), case.get("method", "INVERSION"), mode, paths, seed, op)
    if key not in _REF:
        c = dict(case, mode=mode, paths=paths, seed=seed, procs=1)
        h = U.Harness(core.Chooser([]), boot="R")
        with U.Installed(h), _Quiet():
            eng = make_engine(c, make_configuration(c), make_process(c))
            rows = stored_rows(do_op(eng, make_product(mode), op))
        _no_untraced(h, c)
        _REF[key] = rows
    return _REF[key]


def history_label(steps):
    return ">".join((f"{st['label']}." if st["label"] != "same" else "") + st["op"] for st in steps)


def play_history(case, chooser):
    """Executes the history under ONE harness (the generator state left by a pricing is what the next one starts from);
    returns the harness and, per step, (mode, effective paths / seed / procs, op, sample range, stored rows)."""
    h = U.Harness(chooser, boot="A", cpus=case.get("cpus"))
    out = []
    with U.Installed(h), _Quiet():
        products = {case["mode"]: make_product(case["mode"])}
        eff = {"paths": case["paths"], "seed": case["seed"], "procs": case["procs"]}
        cur = (make_engine(case, make_configuration(case), make_process(case)), eff)
        for st in case["steps"]:
            on = st.get("on", "same")
            if on in ("copy", "dill-copy", "shallow-copy"):
                if on == "copy":
                    twin = copy.deepcopy(cur[0])
                elif on == "shallow-copy":  # shares the configuration and the process with the original
                    twin = copy.copy(cur[0])
                else:
                    import dill

                    twin = dill.loads(dill.dumps(cur[0]))
                cur = (twin, dict(cur[1]) if on != "shallow-copy" else cur[1])
                eng, eff = cur
            elif on == "copied-process":  # another engine + configuration on a deep copy of the process
                eff = dict(cur[1])
                eng = make_engine(case, make_configuration(case, eff["paths"], eff["seed"], eff["procs"]),
                                  copy.deepcopy(engine_process(cur[0])))
            elif on == "other-engine":
                eff = dict(cur[1])
                eng = make_engine(case, make_configuration(case, eff["paths"], eff["seed"], eff["procs"]), make_process(case))
            elif on == "shared-process":
                eff = dict(cur[1])
                eng = make_engine(case, make_configuration(case, eff["paths"], eff["seed"], eff["procs"]), engine_process(cur[0]))
            elif on == "shared-conf":
                eff = cur[1]  # one configuration object: what is assigned through this engine is seen by the other one
                eng = make_engine(case, cur[0].configuration, make_process(case))
            elif on == "new-conf":
                eng, eff = cur
                eng.configuration = make_configuration(case, eff["paths"], eff["seed"], eff["procs"])
            else:
                eng, eff = cur
            for name, val in sorted(st.get("set", {}).items()):
                if name == "paths":
                    set_paths(eng.configuration, val)
                elif name == "seed":
                    eng.configuration.seed = val
                else:
                    eng.configuration.nb_of_processes = val
                eff[name] = val
            mode = OTHER_MODE[case["mode"]] if st.get("product") == "other" else case["mode"]
            if mode not in products:
                products[mode] = make_product(mode)
            if st.get("pre") == "initialisation":  # the engine's public initialisation called by the user before pricing
                if hasattr(eng, "process"):
                    eng.initialisation(eff["paths"], products[mode])
                else:
                    eng.initialisation(products[mode])
            elif st.get("pre") == "pre_computation":  # variates pre-drawn by the user and left unconsumed
                engine_process(eng).pre_computation(mc_paths=eff["paths"], product=products[mode])
            elif st.get("pre") == "failed-pricing":  # a pricing that dies in the path loop (the user's payoff raises), caught
                try:
                    do_op(eng, make_product(mode, fails_at=3), st["op"])
                    raise RuntimeError("the failing payoff did not fail")
                except _PayoffFailure:
                    pass
            lo = h.mark()
            stats = do_op(eng, products[mode], st["op"])
            out.append({"mode": mode, "eff": dict(eff), "op": st["op"], "lo": lo, "hi": h.mark(), "rows": stored_rows(stats)})
    _no_untraced(h, case)
    return h, out


def _history(sh, case):
    label = history_label(case["steps"])
    base = f"history:{_engine_tag(case)}:start={case['mode']}"
    if case.get("method", "INVERSION") != "INVERSION":
        base += f":{case['method'].lower()}"
    outcomes = set()

    def run(ch):
        h, steps = play_history(case, ch)
        _blind_spots(sh, h)
        if all(s["hi"] - s["lo"] >= 2 for s in steps):
            sh.nontriv()
        failed = False
        for k, s in enumerate(steps, 1):
            e = s["eff"]
            sh.count("evaluations")
            sh.count("samples", s["hi"] - s["lo"])
            # the key keeps '<mode>:...:pool:samples-share-variates:...' of the one-run sub-check (known finding)
            upto = history_label(case["steps"][:k])  # the key names the history up to the step that fails
            check_sharing(sh, s["mode"], h, f"{base}:{upto}:step{k}:{s['mode']}:{_env_tag(e['seed'], e['procs'])}", s["lo"], s["hi"])
            if e["seed"] is not None and e["procs"] == 1:
                ref = _reference(case, s["mode"], e["paths"], e["seed"], s["op"])
                sh.count("compared_with_fresh_run")
                if not same_rows(s["rows"], ref) and not failed:
                    failed = True  # later steps of the same history differ for the same reason
                    sh.violation(f"C08:{base}:{upto}:step{k}:seeded-single-process-run-on-re-used-objects-differs-from-the-run-on-fresh-objects",
                                 f"seed={e['seed']}, one process, {e['paths']} paths, {s['mode']} product: step {k} ({s['op']}) of the "
                                 f"history [{label}] on re-used objects does not store what the same pricing stores on freshly "
                                 f"built objects: {first_difference(s['rows'], ref)}", {"steps": case["steps"]})
        if label in ("constant>constant", "price>other-product.price>restore.price") and case["seed"] == SEED and case["procs"] == 1 \
                and case["mode"] == "fixed" and case.get("method", "INVERSION") == "INVERSION" and case.get("process") == "chain":
            sh.sample({"sub": "history", "history": label, "engine": _engine_tag(case),
                       "steps": [{"op": s["op"], "product": s["mode"], "effective": s["eff"], "samples": s["hi"] - s["lo"],
                                  "stored_rows_digest": core.digest([r.tolist() for r in s["rows"]]),
                                  "fresh_run_digest": core.digest([r.tolist() for r in _reference(case, s["mode"], s["eff"]["paths"], s["eff"]["seed"], s["op"])])}
                                 for s in steps]})
        o = (tuple((s["ctx"], s["level"]) for _, s in sorted(h.samples.items())),
             tuple((e[0], e[1], e[2]) for e in h.events if e[0].endswith("seed")),
             tuple(core.digest([r.tolist() for r in s["rows"]]) for s in steps) if case["seed"] is not None and case["procs"] == 1 else ())
        outcomes.add(core.digest(o))
        sh.outcome(o)

    ex = core.ChoiceExplorer(run, bound=case["bound"], max_runs=3000)
    ex.explore()
    if ex.capped:
        sh.cap(f"run cap hit: {case}")
    for st in case["steps"]:
        sh.cls(f"history-step:{st['label']}")
    sh.states += len(outcomes)
    sh.transitions += ex.points_total


# ----------------------------------------------------------------------------------------------------------------------
# conformance of SimPool with the real pathos pool
# ----------------------------------------------------------------------------------------------------------------------

class ReportingProcess:
    """Duck-typed process for the REAL engine + REAL pool: every path reports which OS process produced it, which pre-drawn
    row its copy popped and how many paths that copy had produced before."""

    def __init__(self):
        from rpylib.process.process import ProcessRepresentation

        self.process_representation = ProcessRepresentation.IDENDITY
        self.model = _Model()
        self.rows = None
        self.produced = 0
        self.level = 0
        self.fine_process = self

    def dimension(self):
        return 1

    def initialisation(self, product, max_step_epsilon=None):
        pass

    def pre_computation(self, mc_paths, product):
        from collections import deque

        self.rows = deque(range(mc_paths))
        self.produced = 0

    def deterministic_path(self, times):
        return np.zeros_like(np.asarray(times, dtype=float))

    def df(self, t):
        return 1.0

    def one_simulation_cost(self, product):
        return 1.0

    def reset_one_simulation_cost(self):
        pass

    def next_level(self, mc_paths, path_managers, product, max_step_epsilon=None):
        self.level += 1
        self.pre_computation(mc_paths, product)
        if path_managers is not None:
            pm = copy.deepcopy(path_managers[-1])
            pm.deterministic_path = lambda t: np.zeros((2, len(np.asarray(t))))
            path_managers.append(pm)

    def _report(self):
        row = self.rows.popleft()
        k = self.produced
        self.produced += 1
        # the path carries the report in its diffusion component: (pid, row, k) encoded exactly in a float
        code = float(os.getpid() * 10_000 + row * 100 + k)
        return code

    def simulate_one_path(self):
        from rpylib.montecarlo.path import StochasticJumpPath

        code = self._report()
        return StochasticJumpPath(np.array([0.0, 1.0]), np.array([0.0, code]), np.array([0.0, 0.0]))

    def simulate_one_path_with_coupling(self):
        from rpylib.montecarlo.path import StochasticJumpPath

        code = self._report()
        return StochasticJumpPath(np.array([0.0, 1.0]), np.array([[0.0, code], [0.0, 0.0]]), np.zeros((2, 2)))


class _Model:
    from_verif = True

    def __init__(self):
        from rpylib.process.process import ProcessRepresentation

        self.process_representation = ProcessRepresentation.IDENDITY

    def dimension(self):
        return 1

    def dimension_model(self):
        return 1

    def x0_value(self):
        return 0.0

    def characteristic_function(self, t, x):
        return np.exp(-0.5 * x * x * t)

    def df(self, t):
        return 1.0


def _conformance(sh, case):
    import warnings

    from rpylib.montecarlo.configuration import ConfigurationMultiLevel, ConfigurationStandard

    procs, n = case["procs"], case["paths"]
    product = make_product("fixed")
    real_cpu_count = os.cpu_count
    if procs is None:
        # processes=None: the real pool asks os.cpu_count(); the answer is scripted so that the case is the same on every machine
        os.cpu_count = lambda: case["cpus"]
    try:
        with warnings.catch_warnings():
            warnings.simplefilter("ignore")
            if case["engine"] == "standard":
                from rpylib.montecarlo.standard.engine import Engine

                conf = ConfigurationStandard(mc_paths=n, seed=None, nb_of_processes=procs)
                stats = Engine(configuration=conf, process=ReportingProcess()).price(product)
                codes = [np.asarray(stats._payoff_statistics.stats, dtype=float).ravel()]
            else:
                from rpylib.montecarlo.multilevel.engine import Engine

                conf = ConfigurationMultiLevel(initial_level=1, maximum_level=1, initial_mc_paths=n, seed=None, nb_of_processes=procs)
                stats = Engine(configuration=conf, coupling_process=ReportingProcess()).price_with_constant_mc_paths_and_level(product)
                codes = [np.asarray(m._payoff_statistics.stats, dtype=float)[:, 0, 0] for m in stats.mc_statistics]
    finally:
        os.cpu_count = real_cpu_count
    workers = procs if procs is not None else (case["cpus"] or 1)
    for lvl, arr in enumerate(codes):
        rep = [(int(c) // 10_000, (int(c) // 100) % 100, int(c) % 100) for c in arr]
        sh.count("evaluations", len(rep))
        cs, extra = divmod(n, 4 * workers)
        cs += 1 if extra else 0
        want = [(i % cs, i % cs) for i in range(n)]  # (row popped, produced-before) restart at every chunk
        got = [(r, k) for (_, r, k) in rep]
        pids = {p for (p, _, _) in rep}
        ok = got == want and 1 <= len(pids) <= workers and os.getpid() not in pids
        # all items of a chunk come from one process
        for i in range(0, n, cs):
            ok &= len({rep[j][0] for j in range(i, min(n, i + cs))}) == 1
        if not ok:
            sh.violation("C08:conformance:real-pathos-pool-differs-from-SimPool-model",
                         f"procs={procs} (cpus {case.get('cpus')}) n={n} level {lvl}: observed (pid,row,k) {rep}; SimPool models chunks of "
                         f"{cs} consecutive items, each from a fresh copy of the parent's closure (row = k = index within the chunk), "
                         f"at most {workers} worker pids", None)
        else:
            sh.traces += 1
        sh.outcome((procs, case.get("cpus"), n, lvl, cs))  # not the number of distinct pids: that is the OS scheduler's choice
    sh.nontriv()
    sh.sample({"sub": "conformance", "case": case, "chunk_size": cs, "distinct_worker_pids": len(pids), "first_reports": rep[:6]})


# ----------------------------------------------------------------------------------------------------------------------
# conformance of the tracing generator + SimPool with the real generators + the real pool: variates recovered from the paths
# ----------------------------------------------------------------------------------------------------------------------

RECOVERED_RTOL = 1e-11  # two independent continuous variates are this close with probability ~1e-11 per pair (a few 1e3 pairs)


def recovered_variates(path, levy):
    """family -> values that are (proportional to) the random variates a path was built from: Brownian increment / sqrt(dt)
    (= sigma Z, the same sigma for every sample of the run), the jump times strictly inside the horizon and - direct simulation
    only, the jumps of a chain are grid points - the jump sizes"""
    t = np.asarray(path.times(), dtype=float)
    d = np.atleast_2d(np.asarray(path.diffusion_path, dtype=float))[0]
    j = np.atleast_2d(np.asarray(path.jump_path, dtype=float))[0]
    dt, dw = np.diff(t), np.diff(d)
    ok = (dt > 0) & (dw != 0)
    out = {"brownian": (dw[ok] / np.sqrt(dt[ok])).tolist(), "jump-time": [x for x in t[1:-1].tolist() if x > 0.0]}
    if levy:
        dj = np.diff(j)
        out["jump-size"] = dj[dj != 0].tolist()
    return out


def sharing_pairs_recovered(variates):
    """{(i, j): families} for the samples i < j of a run that share a recovered variate"""
    pairs = {}
    fams = sorted({f for v in variates for f in v})
    for fam in fams:
        vals = sorted((x, i) for i, v in enumerate(variates) for x in v.get(fam, ()))
        for k, (x, i) in enumerate(vals):
            m = k + 1
            while m < len(vals) and abs(vals[m][0] - x) <= RECOVERED_RTOL * max(abs(x), abs(vals[m][0])):
                if vals[m][1] != i:
                    pairs.setdefault((min(i, vals[m][1]), max(i, vals[m][1])), set()).add(fam)
                m += 1
    return pairs


def _conformance_variates(sh, case):
    import warnings

    import rpylib.montecarlo.path as P

    mode, n = case["mode"], case["paths"]
    tag = f"conformance-real-pool:{_engine_tag(case)}:{mode}:{_env_tag(case['seed'], case['procs'])}"
    levy = case.get("process") == "levy"
    # -- the model: tracing generator + SimPool, default schedule
    h, _ = run_once(case, core.Chooser([]))
    sids = sorted(h.samples)
    predicted = set()
    for a in range(len(sids)):
        for b in range(a + 1, len(sids)):
            if h.samples[sids[a]]["tags"] & h.samples[sids[b]]["tags"]:
                predicted.add((a, b))
    # -- the implementation: every path the real pool hands back to the parent's path manager
    if "set_to_path" not in vars(P.MCPath):
        sh.cap("MCPath.set_to_path is not there any more: the paths of the real pool are not observed")
        return
    paths = []
    orig = P.MCPath.set_to_path

    def set_to_path(self_, stochastic_path):
        paths.append(stochastic_path)
        return orig(self_, stochastic_path)

    real_cpu_count = os.cpu_count
    P.MCPath.set_to_path = set_to_path
    if case["procs"] is None:
        os.cpu_count = lambda: case["cpus"]
    try:
        with warnings.catch_warnings(), _Quiet():
            warnings.simplefilter("ignore")
            build_and_price(case)
    finally:
        P.MCPath.set_to_path = orig
        os.cpu_count = real_cpu_count
    sh.count("evaluations", len(paths))
    if len(paths) != len(sids):
        sh.violation(f"C08:{tag}:number-of-paths-of-the-real-pool-differs-from-the-SimPool-model",
                     f"{len(paths)} paths handed to the path manager with the real pool, {len(sids)} samples under SimPool", None)
        return
    observed = sharing_pairs_recovered([recovered_variates(p, levy) for p in paths])
    workers = case["procs"] if case["procs"] is not None else (case["cpus"] or 1)
    cs, extra = divmod(n, 4 * workers)
    cs += 1 if extra else 0
    seen = set()
    for (i, j), fams in sorted(observed.items()):
        # the open known finding: the pre-drawn row (jump counts + Brownian increments) popped by the k-th path of every chunk
        same_slot = mode == "fixed" and i // n == j // n and (i % n) % cs == (j % n) % cs and (i % n) // cs != (j % n) // cs
        cls = ("pre-drawn-row-consumed-twice:two-pool-chunk-copies" if same_slot and fams <= {"brownian"}
               else "variates-recovered-from-the-paths-coincide:" + "+".join(sorted(fams)))
        if cls not in seen:
            seen.add(cls)
            sh.violation(f"C08:{tag}:samples-share-variates:{cls}",
                         f"real pathos pool, real generators: samples #{i} and #{j} of {len(paths)} are built from the same "
                         f"{sorted(fams)} variates (recovered from their paths, rtol {RECOVERED_RTOL}); chunks of {cs} paths", None)
    if set(observed) != predicted:
        only_real, only_model = sorted(set(observed) - predicted)[:6], sorted(predicted - set(observed))[:6]
        sh.violation(f"C08:{tag}:sharing-with-the-real-pool-differs-from-the-tracing-generator-model",
                     f"pairs of samples sharing variates: {len(observed)} with the real pool and generators, {len(predicted)} under "
                     f"the tracing generator + SimPool; only real: {only_real}; only model: {only_model}", None)
    else:
        sh.traces += 1
    sh.outcome((tag, n, len(predicted)))
    sh.cls(f"conformance-variates:{_engine_tag(case)}:{mode}")
    if len(paths) >= 2:
        sh.nontriv()
    if case["paths"] == 9 and case["seed"] is None and case["engine"] == "standard" and levy:
        sh.sample({"sub": "conformance-variates", "case": case, "paths": len(paths), "chunk_size": cs,
                   "pairs_sharing_real": len(observed), "pairs_sharing_model": len(predicted)})
