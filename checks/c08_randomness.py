"""C08 - randomness discipline: seeded runs repeat; no two samples share random variates.

Mode: stateless choice explorer over complete runs of both REAL engines on REAL simulators (MarkovChainProcess /
CouplingMarkovChain, HEM Levy model, 11-state grid, inversion sampler), with every source of nondeterminism owned by
mc/c08_util.py: a counter-based tracing generator behind numpy.random.* and random.*, fake os.getpid and time.time as seen from
rpylib.montecarlo.configuration, and SimPool in place of pathos.multiprocessing.Pool inside the two engine modules.

Choice points  the worker that runs each chunk (default round robin), the second returned by each time.time() call (same as
               the previous call / next second). Bound: all sequences with at most D deviations (D = 1 quick, 2 thorough).
Lattice        engine in {standard, multilevel fixed-level, multilevel adaptive} x simulation mode in {fixed dates, jump
               times} x seed in {None, 7} x nb_of_processes in {1, 2} (+ 3 thorough) x paths in {4, 9} (+ 8 thorough).
Oracle (a) with a seed and one process, two runs started from two DIFFERENT pre-existing generator states store identical
           samples bit for bit;
       (b) within one run the sets of variates consumed by two different samples - (stream, position) of every draw made while
           the sample is simulated, plus the pre-drawn Brownian / jump-count row it pops - are pairwise disjoint, across paths,
           passes, levels and simulated workers; every sample of a fixed-date run pops exactly one pre-drawn row;
       (c) classification of every sharing by its mechanism (same pre-drawn row from two chunk copies / generator re-seeded
           to a used state at a new level or pass / two workers with one seed), which is what the violation key carries.
Conformance    the real engines are run with the REAL pathos pool on a scripted process that reports (pid, row popped, number
               of paths produced by this copy): chunking, per-chunk copies, result order and the number of worker processes
               must be what SimPool models. Reported as traces_validated_against_impl.
Not covered: OS-level timing, start methods other than fork, pid reuse, the table method's use of `random`.
"""
from __future__ import annotations

import math
import os

import numpy as np

from mc import alphabets as A
from mc import c08_util as U
from mc import core

PID = "C08"
LEVEL = "model_checking"
RULE = (
    "every configuration of the stated lattice x every sequence of environment answers (chunk -> worker, clock) with at most D "
    "deviations; one evaluation = one complete run of a real engine on real simulators under the tracing generator; "
    "non-trivial = the run simulated at least two samples; states = distinct observed (sample -> worker, seed events) outcomes, "
    "transitions = choice points taken"
)
ASSUMPTIONS = [
    "worker processes are represented by SimPool (mc/c08_util.py); its chunking / per-chunk closure copies / result order are "
    "validated against the real pathos pool by the conformance sub-check",
    "two draws share a variate iff they cover the same (stream tag, position) of the tracing generator; re-seeding with a value "
    "used before re-creates the same stream, as numpy's generator does",
]
CHUNK = 1

HEM = {"family": "hem", "exp": False, "params": {}}
GRID = {"kind": "fixed", "h": 0.02, "n": 10, "refine": 0}


def cases(tier):
    thorough = tier == "thorough"
    out = []
    bound = 2 if thorough else 1
    for engine in ("standard", "mlmc-fixed", "mlmc-adaptive"):
        for mode in ("fixed", "jumptimes"):
            for seed in (None, 7):
                for procs in ((1, 2, 3) if thorough else (1, 2)):
                    for paths in ((4, 8, 9) if thorough else (4, 9)):
                        if engine == "mlmc-adaptive" and paths == 9 and not thorough:
                            continue
                        out.append({"sub": "run", "engine": engine, "mode": mode, "seed": seed, "procs": procs,
                                    "paths": paths, "bound": bound if procs > 1 else min(bound, 1)})
    for engine in ("standard", "mlmc-fixed", "mlmc-adaptive"):
        for mode in ("fixed", "jumptimes"):
            # every sampling method draws its states from its own source (the table method reads `random`, not numpy)
            for method in ("INVERSION", "TABLE", "ALIAS") if (thorough or engine != "mlmc-adaptive") else ("INVERSION",):
                out.append({"sub": "repeat", "engine": engine, "mode": mode, "seed": 7, "paths": 5, "method": method})
    for procs, paths in ((2, 4), (2, 8), (3, 9), (2, 17)):
        out.append({"sub": "conformance", "procs": procs, "paths": paths, "engine": "standard"})
    out.append({"sub": "conformance", "procs": 2, "paths": 8, "engine": "mlmc-fixed"})
    return out


def check_case(sh, case):
    {"run": _run, "repeat": _repeat, "conformance": _conformance}[case["sub"]](sh, case)


# ----------------------------------------------------------------------------------------------------------------------

def make_product(mode):
    from rpylib.product.payoff import Forward, PayoffDates
    from rpylib.product.product import Product
    from rpylib.product.underlying import Spot

    payoff = Forward(strike=0.0)
    if mode == "jumptimes":
        payoff.payoff_dates_type = PayoffDates.STOCHASTIC
    return Product(payoff_underlying=Spot(), payoff=payoff, maturity=1.0)


def build_and_price(case):
    """Construct real objects and run the engine; returns the statistics object."""
    from rpylib.distribution.sampling import SamplingMethod
    from rpylib.montecarlo.configuration import ConfigurationMultiLevel, ConfigurationStandard, ConvergenceRates

    model = A.make_model(HEM)
    grid = A.make_grid(GRID, model, 1)
    product = make_product(case["mode"])
    if case["engine"] == "standard":
        from rpylib.montecarlo.standard.engine import Engine
        from rpylib.process.markovchain.markovchain import MarkovChainProcess

        proc = MarkovChainProcess(model=model, method=SamplingMethod[case.get("method", "INVERSION")], grid=grid)
        conf = ConfigurationStandard(mc_paths=case["paths"], seed=case["seed"], nb_of_processes=case.get("procs", 1))
        eng = Engine(configuration=conf, process=proc)
        return eng.price(product), eng
    from rpylib.montecarlo.multilevel.engine import Engine
    from rpylib.process.coupling.couplingmarkovchain import CouplingMarkovChain

    cp = CouplingMarkovChain(model=model, method=SamplingMethod[case.get("method", "INVERSION")], grid=grid)
    if case["engine"] == "mlmc-fixed":
        conf = ConfigurationMultiLevel(initial_level=1, maximum_level=2, initial_mc_paths=case["paths"], seed=case["seed"],
                                       nb_of_processes=case.get("procs", 1))
        eng = Engine(configuration=conf, coupling_process=cp)
        return eng.price_with_constant_mc_paths_and_level(product), eng
    conf = ConfigurationMultiLevel(convergence_rates=ConvergenceRates(alpha=1.0, beta=2.0, gamma=1.0), initial_level=2,
                                   maximum_level=3, initial_mc_paths=case["paths"], seed=case["seed"],
                                   nb_of_processes=case.get("procs", 1))
    eng = Engine(configuration=conf, coupling_process=cp)
    return eng.price(product, 0.02), eng


def stored_rows(stats):
    if hasattr(stats, "mc_statistics"):
        return [np.array(m._payoff_statistics.stats, dtype=float) for m in stats.mc_statistics]
    return [np.array(stats._payoff_statistics.stats, dtype=float)]


def run_once(case, chooser, boot="A"):
    import warnings

    h = U.Harness(chooser, boot=boot)
    with U.Installed(h), warnings.catch_warnings(), np.errstate(all="ignore"):
        warnings.simplefilter("ignore")
        import logging

        logging.disable(logging.CRITICAL)
        try:
            stats, eng = build_and_price(case)
        finally:
            logging.disable(logging.NOTSET)
    return h, stats


def classify(h, s1, s2, kind):
    a, b = h.samples[s1], h.samples[s2]
    if kind == "pre-drawn":
        where = "two-pool-chunk-copies" if (a["ctx"] != "parent" or b["ctx"] != "parent") else "single-process"
        return f"pre-drawn-row-consumed-twice:{where}"
    if kind == "pre-drawn-vs-stream":
        where = "pool" if (a["ctx"] != "parent" or b["ctx"] != "parent") else "single-process"
        return f"variate-of-a-pre-drawn-row-drawn-again-from-the-stream:{where}"
    same_ctx = a["ctx"] == b["ctx"]
    if same_ctx and a["ctx"] == "parent":
        return "generator-reseeded-to-a-used-state:single-process"
    if same_ctx:
        return "generator-reseeded-to-a-used-state:same-worker"
    pa, pb = a["ctx"].split("-")[0], b["ctx"].split("-")[0]
    if pa == pb:
        return "two-workers-of-one-pool-share-a-stream"
    return "workers-of-two-pools-share-a-stream"


def check_sharing(sh, case, h, tag):
    owner = {}
    seen = set()
    for sid in sorted(h.samples):
        rows_here = h.samples[sid].get("row_tags", set())
        for t in h.samples[sid]["tags"]:
            o = owner.get(t)
            if o is None:
                owner[t] = sid
            elif o != sid:
                both_rows = t in rows_here and t in h.samples[o].get("row_tags", set())
                one_row = (t in rows_here) != (t in h.samples[o].get("row_tags", set()))
                kind = "pre-drawn" if both_rows else ("pre-drawn-vs-stream" if one_row else "stream")
                cls = classify(h, o, sid, kind)
                if cls not in seen:
                    seen.add(cls)
                    a, b = h.samples[o], h.samples[sid]
                    sh.violation(f"C08:{tag}:samples-share-variates:{cls}",
                                 f"samples #{o} ({a['ctx']}, pid {a['pid']}) and #{sid} ({b['ctx']}, pid {b['pid']}) both consume "
                                 f"variate {t} ({kind}); {len(h.samples)} samples in the run",
                                 {"seed_events": h.events[:30], "choices": [c for c in h.chooser.choices]})
    if case["mode"] == "fixed":
        bad = [sid for sid, s in h.samples.items() if s.get("popped", 1) != 1]
        if bad:
            sh.violation(f"C08:{tag}:sample-does-not-pop-exactly-one-pre-drawn-row",
                         f"samples {bad[:5]} popped {[h.samples[b].get('popped') for b in bad[:5]]} rows", None)


def _run(sh, case):
    tag = f"{case['engine']}:{case['mode']}:{'seeded' if case['seed'] else 'unseeded'}:{'pool' if case['procs'] > 1 else 'single'}"
    outcomes = set()

    def run(ch):
        h, stats = run_once(case, ch)
        sh.count("evaluations")
        sh.count("samples", len(h.samples))
        check_sharing(sh, case, h, tag)
        o = (tuple((s["ctx"], s["level"]) for _, s in sorted(h.samples.items())),
             tuple((e[0], e[1], e[2]) for e in h.events if e[0].endswith("seed")))
        outcomes.add(core.digest(o))
        sh.outcome(o)
        if len(outcomes) == 1 and case["paths"] == 4 and case["procs"] == 2 and case["engine"] == "standard":
            sh.sample({"case": case, "samples": [(sid, s["ctx"], len(s["tags"])) for sid, s in sorted(h.samples.items())][:8],
                       "events": h.events[:12]})

    ex = core.ChoiceExplorer(run, bound=case["bound"], max_runs=3000)
    ex.explore()
    if ex.capped:
        sh.cap(f"run cap hit: {case}")
    sh.states += len(outcomes)
    sh.transitions += ex.points_total
    sh.nontriv()


def _repeat(sh, case):
    """(a): a seeded single-process run repeated from two different pre-existing generator states."""
    tag = f"{case['engine']}:{case['mode']}:{case.get('method', 'INVERSION').lower()}"
    rows = []
    for boot in ("A", "B"):
        ch = core.Chooser([])
        h, stats = run_once(dict(case, procs=1), ch, boot=boot)
        rows.append(stored_rows(stats))
        sh.count("evaluations")
    same = len(rows[0]) == len(rows[1]) and all(a.shape == b.shape and np.array_equal(a, b) for a, b in zip(rows[0], rows[1]))
    if not same:
        first = None
        for l, (a, b) in enumerate(zip(rows[0], rows[1])):
            if a.shape != b.shape:
                first = f"level {l}: shapes {a.shape} vs {b.shape}"
                break
            d = np.argwhere(a != b)
            if d.size:
                first = f"level {l} row {int(d[0][0])}: {a[tuple(d[0])]!r} vs {b[tuple(d[0])]!r}"
                break
        sh.violation(f"C08:repeat:{tag}:seeded-single-process-run-not-reproduced",
                     f"seed=7, one process, two runs from different pre-existing generator states differ: {first}", None)
    sh.outcome((tag, core.digest([r.tolist() for r in rows[0]])))
    sh.nontriv()


# ----------------------------------------------------------------------------------------------------------------------
# conformance of SimPool with the real pathos pool
# ----------------------------------------------------------------------------------------------------------------------

class ReportingProcess:
    """Duck-typed process for the REAL engine + REAL pool: every path reports which OS process produced it, which pre-drawn
    row its copy popped and how many paths that copy had produced before."""

    def __init__(self):
        from rpylib.process.process import ProcessRepresentation

        self.process_representation = ProcessRepresentation.IDENDITY
        self.model = _Model()
        self.rows = None
        self.produced = 0
        self.level = 0
        self.fine_process = self

    def dimension(self):
        return 1

    def initialisation(self, product, max_step_epsilon=None):
        pass

    def pre_computation(self, mc_paths, product):
        from collections import deque

        self.rows = deque(range(mc_paths))
        self.produced = 0

    def deterministic_path(self, times):
        return np.zeros_like(np.asarray(times, dtype=float))

    def df(self, t):
        return 1.0

    def one_simulation_cost(self, product):
        return 1.0

    def reset_one_simulation_cost(self):
        pass

    def next_level(self, mc_paths, path_managers, product, max_step_epsilon=None):
        import copy

        self.level += 1
        self.pre_computation(mc_paths, product)
        if path_managers is not None:
            pm = copy.deepcopy(path_managers[-1])
            pm.deterministic_path = lambda t: np.zeros((2, len(np.asarray(t))))
            path_managers.append(pm)

    def _report(self):
        from rpylib.montecarlo.path import StochasticJumpPath

        row = self.rows.popleft()
        k = self.produced
        self.produced += 1
        # the path carries the report in its diffusion component: (pid, row, k) encoded exactly in a float
        code = float(os.getpid() * 10_000 + row * 100 + k)
        return code

    def simulate_one_path(self):
        from rpylib.montecarlo.path import StochasticJumpPath

        code = self._report()
        return StochasticJumpPath(np.array([0.0, 1.0]), np.array([0.0, code]), np.array([0.0, 0.0]))

    def simulate_one_path_with_coupling(self):
        from rpylib.montecarlo.path import StochasticJumpPath

        code = self._report()
        return StochasticJumpPath(np.array([0.0, 1.0]), np.array([[0.0, code], [0.0, 0.0]]), np.zeros((2, 2)))


class _Model:
    from_verif = True

    def __init__(self):
        from rpylib.process.process import ProcessRepresentation

        self.process_representation = ProcessRepresentation.IDENDITY

    def dimension(self):
        return 1

    def dimension_model(self):
        return 1

    def x0_value(self):
        return 0.0

    def characteristic_function(self, t, x):
        return np.exp(-0.5 * x * x * t)

    def df(self, t):
        return 1.0


def _conformance(sh, case):
    import warnings

    from rpylib.montecarlo.configuration import ConfigurationMultiLevel, ConfigurationStandard

    procs, n = case["procs"], case["paths"]
    product = make_product("fixed")
    with warnings.catch_warnings():
        warnings.simplefilter("ignore")
        if case["engine"] == "standard":
            from rpylib.montecarlo.standard.engine import Engine

            conf = ConfigurationStandard(mc_paths=n, seed=None, nb_of_processes=procs)
            stats = Engine(configuration=conf, process=ReportingProcess()).price(product)
            codes = [np.asarray(stats._payoff_statistics.stats, dtype=float).ravel()]
        else:
            from rpylib.montecarlo.multilevel.engine import Engine

            conf = ConfigurationMultiLevel(initial_level=1, maximum_level=1, initial_mc_paths=n, seed=None, nb_of_processes=procs)
            stats = Engine(configuration=conf, coupling_process=ReportingProcess()).price_with_constant_mc_paths_and_level(product)
            codes = [np.asarray(m._payoff_statistics.stats, dtype=float)[:, 0, 0] for m in stats.mc_statistics]
    for lvl, arr in enumerate(codes):
        rep = [(int(c) // 10_000, (int(c) // 100) % 100, int(c) % 100) for c in arr]
        sh.count("evaluations", len(rep))
        cs, extra = divmod(n, 4 * procs)
        cs += 1 if extra else 0
        want = [(i % cs, i % cs) for i in range(n)]  # (row popped, produced-before) restart at every chunk
        got = [(r, k) for (_, r, k) in rep]
        pids = {p for (p, _, _) in rep}
        ok = got == want and 1 <= len(pids) <= procs and os.getpid() not in pids
        # all items of a chunk come from one process
        for i in range(0, n, cs):
            ok &= len({rep[j][0] for j in range(i, min(n, i + cs))}) == 1
        if not ok:
            sh.violation("C08:conformance:real-pathos-pool-differs-from-SimPool-model",
                         f"procs={procs} n={n} level {lvl}: observed (pid,row,k) {rep}; SimPool models chunks of {cs} consecutive "
                         f"items, each from a fresh copy of the parent's closure (row = k = index within the chunk), at most {procs} worker pids",
                         None)
        else:
            sh.traces += 1
        sh.outcome((procs, n, lvl, cs, len(pids)))
    sh.nontriv()
    sh.sample({"sub": "conformance", "case": case, "chunk_size": cs, "distinct_worker_pids": len(pids), "first_reports": rep[:6]})
