"""C15 - simulated paths are running sums on the product dates within the time-step cap.

Mode: lattice sweep over scripted variates on the REAL simulators (mc/c15_util.py replaces the numpy.random module-level
functions rpylib draws from by scripted ones and spies on the producers of jump sizes; nothing else is replaced).

Sub-check "sim"   one case = (simulator, product, simulation mode, maximum step, jump counts per interval); inside a case
                  every multiset of jump-time uniforms from {0.1, 0.5, 0.9} per interval is simulated (handed to the library
                  in DEcreasing order, so that the library's sort matters) on ONE simulator object, then the EDGE script
                  (u = 0: a jump ON the product date that opens its interval, time 0 in the first one; u = 1 - 2^-53, the
                  largest value random_sample returns: a jump one ulp before the next date or, after rounding, ON it - the
                  maturity in the last interval of the yearly products).  Fixed-date mode has no jump times: one case
                  simulates the batch of all count tuples {0,1,2}^n after ONE pre_computation (as the engines do), so that
                  the paths of a batch must consume disjoint pre-drawn rows.
    simulators    LevyProcess on HEM / Merton / exp-HEM (real jump_increment, spied), MarkovChainProcess (HEM; CGMY y=1.2
                  whose diffusion coefficient carries the small-jump adjustment), MarkovChainLevyCopula (HEM x Merton,
                  Clayton, d=2), CouplingMarkovChain at level 0 (simulate_one_path, what the multilevel engine calls at its
                  first level), 1 and 2 (HEM; CGMY 1.2: fine and coarse coefficients differ), CouplingProcessLevyCopula at
                  level 0, 1 and 2.  State sampler: INVERSION, and on HEM also BINARYSEARCHTREE, ALIAS (chain and coupling),
                  TABLE, HUFFMANNTREE, BINARYSEARCHTREEADAPTED1D (coupling) and BINARYSEARCHTREEADAPTED (copula chain and
                  copula coupling).  Construction routes of a coupling at level >= 1: "direct" (initialisation, next_level
                  on the same object, path_managers=None) and "engine" (the multilevel engine's: at every level
                  pre_computation and one simulated path, copy.deepcopy, next_level on the copy WITH a list of real MLMCPath
                  path managers - the branch of next_level that builds the fine / coarse deterministic parts; the manager
                  appended for the level must give two components with one column per time of every path).  Models also
                  through the "reinit" route of mc.alphabets (Merton direct, CGMY chain, HEM coupling).
    products      Spot (T=1, 0.9, 0.5) and Asian YEARLY with T=1,2,3 / MONTHLY with T=2/12, 3/12: the two producers of time
                  grids in rpylib.product.underlying -> 1, 2, 3 intervals; MANY DATES: Asian MONTHLY T=2 (24 intervals) and
                  WEEKLY T=0.5 (26 intervals, thorough); identity payoff with payoff_dates_type
                  DETERMINISTIC (fixed dates) or STOCHASTIC (jump times); maximum step eps in {T/4, T/2.5, 2T, T/5, T/10}
                  (T/5, T/10: gaps between the scripted jump times / to the maturity that are multiples of eps in decimal but
                  not in binary: 0.2 and 0.1 against 0.1, 0.5, 0.9, 1.0) and, for T = 0.9, {T/3 = 0.3, T/9 = 0.1, T/4};
                  eps = inf (no cap, said with a number; spot-1); EXACT TIES {T (eps equal to the maturity), T/2 (equal to a date interval of the 2-date products and to the
                  gap left by u = 0.5), T/8}: every gap of the no-jump path is an exact binary multiple; MANY POINTS
                  {T/50, T/200} on the 24 / 26-date products (50 to 200 inserted points, with and without jumps);
                  SMALL STEPS: Spot with T = 1e-4 and 1e-6 and eps = T/100 = 1e-6, 1e-8 (what eps = h**beta gives on a fine
                  grid; an ABSOLUTE tolerance in the refinement shows there) with 0 / 1 (/ 2) jumps and the "near" script;
                  GAPS JUST ABOVE A MULTIPLE OF EPS (script "near", 4 jumps per interval at eps(1+4e-6), + 3 eps(1+1e-6),
                  + 2.5 eps, end - 2 eps(1+4e-6): the remainders of the first gap, of a gap between jumps and of the last gap
                  exceed eps by 3e-6..8e-6 eps - far more than rounding, so they must be split) on spot-1 with eps = T/10
                  (asian-y2 with T/20 in thorough).
    sizes         jump counts {0,1,2}^n; MANY jumps in one interval and none in the others (6 in the first / last / middle
                  interval; fixed dates: also (3,..,3)) with pairwise distinct uniforms (2j+1)/12 and with all-equal ones;
                  many dates: counts all 0 / all 1 / (7k+1) mod 3 / one interval with 2; A HUNDRED jumps on spot-1 (jump
                  times, eps T/4 and T/10, distinct and all-equal uniforms; fixed dates on the non-coupled simulators only:
                  the reference of the coupled fixed-date path enumerates 2^jumps coarse sums); fixed dates additionally: a
                  pre-computation for ZERO paths followed by one for a SINGLE path on the same object (a pass of the engine in
                  which a level needs no / one further path); jump times: a zero-path pre-computation before the second one.
    forms         the maturity of the product and the maximum step handed over as Python int (where integral), numpy scalar
                  (np.float64; np.float32 where exact) and 0-d array (thorough), the number of paths as np.int64: same
                  oracle as for Python floats (cases with "form"; spot-1 and asian-y2; fixed, jump, max eps T/4, T, 2T).
    tiers         quick: 12 simulators (levy HEM/Merton, chain HEM/CGMY/HEM-bst, copula chain, coupling HEM/CGMY/HEM-bst/
                  HEM-alias, copula coupling inversion/bsta; level 1) x {spot-1, spot-09, asian-y2, asian-m3} + 7 simulators
                  (level-0 couplings 1-d / copula, engine route 1-d / copula, the three reinit models) x {spot-1, spot-09,
                  asian-y2}; the 5 base simulators (levy-hem, chain-hem, copula-chain, coupling-hem, coupling-copula) x
                  {exact ties on spot-1 / asian-y2; many jumps on spot-1 / asian-y2 / asian-m3; many dates on asian-m24;
                  forms int / np}; thorough: every simulator of c15_util.SIMS x all 8 products, x the ties / many-jumps /
                  many-dates groups (asian-w26 too), forms int / np / 0d on the 12 quick simulators.  "near" script: one
                  case per quick simulator (19) / per simulator of SIMS (thorough); small steps: 9 simulators (TINY_SIMS: the
                  five classes, level-0 couplings, Merton, CGMY) x 2 horizons x {0 jump, 1 jump, near}, all SIMS in thorough.
    oracle        t[0]=0 and both components 0 there; times non-decreasing (strictly where the scripted jump times differ),
                  last = maturity; fixed dates: times = product dates; jump times: times = {0} + scripted jump times + {T};
                  jump component: at every product date (fixed) / jump time the increment since the previous point is the
                  sum of exactly the jump sizes produced for that interval / one fresh jump size of that interval (multiset
                  match inside an interval), i.e. the running sum over ALL intervals; coarse component: every increment is
                  one of the moves the coarse grid allows for the fine state increment (same state for even increments, one
                  of the two neighbours for odd ones), again as a running sum; diffusion component: every increment divided
                  by coefficient*sqrt(dt) is one scripted Brownian variate, each used at most once (per path and, in a
                  pre-drawn batch, across paths AND across the batches of one object) - layout independent; maximum step:
                  every step <= eps(1+1e-12) + 4 ulp(T) per point of the path (the times are a cumulative sum), every
                  original time present with its value, inserted points repeat the
                  preceding jump value and are times of their own (an inserted point within 1e-9*eps of a neighbour is a
                  violation "times-not-strictly-increasing:inserted-point-at-the-next/previous-time" in gaps of at most 128
                  eps; in longer gaps such points are counted "near_duplicate_inserted_points_in_long_gaps", see below),
                  all components have
                  one column per time; the accessors the engines read agree with the stored components (value() =
                  diffusion + jumps, value_jump() = jumps, times() = jump_times).
    histories     (on the one simulator object of a case; every path is checked by the oracle right after its simulation)
                  * KEPT PATHS: the object returned for every path is kept next to a snapshot, as a pool worker keeps the
                    paths of its chunk; it is read again after the next path, and all kept paths are read again at the end
                    of the case and after every operation below: any change of times / diffusion / jumps is a violation
                    "kept-path-changes:<operation>:<component>" (operation next-path | pre-computation-again |
                    initialisation-again | other-object | copy-deepcopy | copy-dill: the last three kept paths must
                    survive copy.deepcopy and a dill round trip, as the results of a chunk sent back by a pool worker).
                    Jump-time / maximum-step cases simulate the first script twice
                    more at the end, so that the single path of a case without jumps is followed by a later one too.
                  * pre-computation-again: reset_one_simulation_cost + pre_computation on the same object (engines: once per
                    pass); fixed dates: a second batch (count tuples in reverse order) must be built from fresh variates.
                  * POOL COPY (every case, alternately "dill" and "deepcopy"): right after that second pre_computation the
                    simulator is replaced by dill.loads(dill.dumps(simulator)) / copy.deepcopy(simulator) - what a pool
                    worker receives with the closure of its chunk - and the copy simulates the rest of the case (fixed
                    dates: the whole second batch from ITS pre-drawn rows, then the later batches).  A simulation that
                    raises on the copy gets the key suffix ":after-pool-copy-<how>".  (The spies are module-level
                    callables that find the scripted RNG through a registry, so that they survive both kinds of copy.)
                  * initialisation-again: initialisation + pre_computation on the same object (engines: once per pricing);
                    fixed dates: a third batch; then the zero-path and the single-path pre-computations.
                  * other-object: in the middle of the case a second simulator of the same class simulates one path:
                    copy.deepcopy of the object and, for a coupling, next_level on the copy (what the multilevel engine
                    does while it goes on using the object of the previous level; for the copula coupling in maximum-step
                    mode the copy stays at its level - cost).  Leaks through class attributes / module caches show up as a
                    changed kept path or as a failed oracle on the following paths.
                  * other-parameters-object (right after other-object, every case, every simulator class, all three modes):
                    a THIRD simulator of the same class and level with OTHER parameters - copy.deepcopy, public
                    initialisation() for a product of the same kind with TWICE the maturity and (maximum-step mode) 2.5 times
                    the maximum step, pre_computation, one path - is prepared and used, THEN the object of the case goes on
                    simulating: the order "object 1 prepared, object 2 prepared, object 1 simulates" of the levels of a
                    multilevel estimator (one maximum step per level).  A closure / table stored on the class or the module
                    makes the following paths of the case carry the other object's maximum step or maturity
                    (step-exceeds-maximum, times-decrease, last-time-not-maturity).
                  * initialisation-for-another-product (right before initialisation-again): the object of the case ITSELF is
                    initialised for that other product / maximum step, pre-computes and simulates one path; the
                    initialisation-again that follows must leave nothing of the detour on the object.
Sub-check "finer" the two copies of build_finer_grid (levyprocess.SimulationMaximumStep.create_build_finer_grid_fun and
                  coupling/helper.create_build_finer_grid_fun - markovchain.py, markovchainlevycopula.py and the couplings
                  reuse these two; the helper's function also refines the step from the last point to the declared
                  maturity, which is judged too)
                  * decimal lattice: ALL increasing time arrays with 1..4 points from {0.1,...,1.0} x eps in
                    {0.1, 0.15, 0.2, 0.3, 0.7, 1.5} x declared maturity in {1, 2} x values 1-d / 2-d;
                  * binary lattice (exact ties): ALL increasing arrays with 0..4 points from {0, 0.25, ..., 2.0} (a point at
                    time 0, a point at the declared maturity, no point at all) x eps in {0.125, 0.25, 0.5, 0.75, 1.0} x
                    maturity in {2, 3}: every gap is an exact multiple of 0.125 and 0.25;
                  * argument forms: eps and maturity as Python int (eps = 1), np.float64, np.float32, 0-d array on the
                    2-point arrays of the binary lattice: exactly the answer obtained with Python floats;
                  * many points: gaps of 64, 100, 128, 300, 1000 eps (maturity 1 and 3; no point / one early point / one
                    point in the middle / two close points); SMALL STEPS: (maturity, eps) = (1e-4, 1e-6), (1e-6, 1e-8), the
                    same point sets and a point at 35.5 eps (remainder of half a step);
                  * gaps JUST ABOVE / BELOW A MULTIPLE OF EPS: k eps (1 + d), k in {1, 2, 3, 7}, d in {4e-9, 1e-6, 4e-6}
                    (remainder eps(1 + k d) > eps: must be split; the step bound eps(1+1e-12) + 4 ulp per point sees a guard
                    wider than rounding, e.g. np.isclose defaults) and d = -1e-6 (remainder below eps: no split), as the
                    first gap, as a gap between two points and as the last gap to the maturity, for (maturity, eps) in
                    {(1, 0.1), (2, 0.25), (1e-4, 1e-6), (1e-6, 1e-8)}, values 1-d / 2-d;
                  * purity: before every call a SECOND function created for 2.5 eps and twice the maturity is called on the
                    same arrays, and every call is repeated with the same arguments: same answer
                    ("second-call-answers-differently");
                  * the arrays handed in are compared with copies taken before the call ("argument-modified").
                  Returned times must be
                  strictly increasing: consecutive times closer than 1e-9*eps are a violation (an inserted point at the
                  time of the next one is what splitting a remainder of eps + a few ulps produces) in gaps of at most 128 eps.

Counted, not judged: in a gap of MORE than 128 eps the library's repeated subtraction of eps accumulates a rounding error
proportional to the GAP (about sqrt(k) ulps of the gap after k subtractions) while its tolerance for "the remainder is one
step" is 1e-12 relative to EPS: from about 300 steps per gap on (eps = T/300, T/2000 with T = 1, 2, 3, 0.5) the remainder
exceeds the tolerance and one more point is inserted 1e-15..1e-13 before the point that closes the gap (both copies). The
times are then still strictly increasing and no step exceeds eps, which is all the statement asks for; the points are counted
as "near_duplicate_inserted_points_in_long_gaps" (set NEAR_DUP_JUDGED_UP_TO = inf to judge them).  Same root (the refined
times are the cumulative sum of the repeatedly shortened steps, the originals are not copied back): a jump time tied with the
maturity (u = 1 - 2^-53 in the last interval) came back a few ulps ABOVE the maturity which the library then appends exactly -
last step of -1e-16, sqrt(dt) = nan in the last diffusion value; repaired in /repo by 32afd07 (refined times are clamped to the
last original time) and judged since ("times-decrease:last-point-an-ulp-beyond-the-maturity").

Tolerances on short horizons: two times are "the same" within 1e-12 max(1, T) for T >= 0.01 and within 1e-11 T below (T = 1e-4,
1e-6), so that a remainder of 4e-6 steps of 1e-2 T stays visible; d = 1e-9 is not in NEAR_D because the check's own rule "an
inserted point closer than 1e-9 eps to its neighbour is a duplicate" would meet the legitimate remainder of k d eps.

Outside the alphabet (statement silent): where inside a long gap the extra points are put; presence of the interior product
dates in jump-time mode (the library returns jump times and the maturity only); which variate feeds which jump inside one
interval; law of the coupling decision (C03) and of the state sampler (C02); infinite-variation copula models (their
constructor opens a process pool) and copulas of dimension 3 (cost of the constructor); tied ORIGINAL jump times (scripted
equal uniforms, a jump at time 0, a jump rounded onto the maturity) are only required to be non-decreasing; sharing of the
(constant) array of product dates between the paths of one simulator is not judged (only changes of values are); a path
object written to by its holder; time / value arguments of the finer-grid functions as Python lists or integer arrays (the
unchanged tree rejects them: it reads `.size` / subtracts eps in place); a fixed-date simulation after a pre-computation for
zero paths (nothing was pre-drawn: the unchanged tree raises IndexError); sharing of pre-drawn rows between the original and
its pool copy (C08's known finding: the copy's paths are judged on their own); antithetic_value (no statement).
"""
from __future__ import annotations

import itertools
import math

import numpy as np

from mc import c15_util as U
from mc import core

PID = "C15"
LEVEL = "exploration"
RULE = (
    "complete product: simulator (incl. level-0 couplings, engine construction route with path managers, reinit models) x "
    "product (1,2,3 intervals) x mode {fixed, jump times, max step eps in {T/4,T/2.5,2T,T/5,T/10} ({T/3,T/9,T/4} for T=0.9)} x "
    "jump counts {0,1,2}^intervals x all multisets of jump-time uniforms from {0.1,0.5,0.9} + the edge script {0, 1-2^-53}, "
    "all on one simulator object per case with the history operations next-path / pre-computation-again (also for zero and "
    "one path) / pool copy (dill | deepcopy) / initialisation-again / other-object and every returned path kept, re-read and "
    "copied; plus, on 5 base simulators (all in thorough): exact ties eps in {T,T/2,T/8}, 6 jumps in one interval and none in "
    "the others, 24/26 product dates with eps in {T/50,T/200}, maturity / eps / number of paths as int, numpy scalar, 0-d "
    "array; plus both build_finer_grid copies on all <=4-point time arrays of a 10-point decimal lattice x 6 eps and of a "
    "9-point binary lattice (time 0, maturity, empty) x 5 eps, argument forms, gaps of up to 1000 eps, arguments unmodified, "
    "gaps k*eps*(1+d) just above / below a multiple of eps for eps in {0.1, 0.25, 1e-6, 1e-8}, a second closure with other "
    "parameters called in between and every call repeated; sims: the same near-multiple gaps as scripted jump times (one case "
    "per simulator), horizons 1e-4 / 1e-6 with eps = T/100, a hundred jumps in one interval, and in every case a second object "
    "of the same class with twice the maturity and 2.5 eps prepared before the object of the case goes on, and the object "
    "itself initialised for that product and back; "
    "a case is non-trivial when at least one real path (or finer grid) was compared with the reference assembly from the "
    "scripted variates; distinct = distinct case dict"
)
ASSUMPTIONS = [
    "numpy.random.{poisson,random_sample,random,normal,uniform,choice} and random.getrandbits are replaced by scripted functions while a case runs; "
    "jump sizes are observed by wrapping model.jump_increment / <sampler class>.sample (real code runs underneath)",
    "draw protocol assumed: jump counts are drawn interval by interval (fixed dates: interval-major over the batch, checked "
    "through the Poisson rate when interval lengths differ); the k-th producer call of a path feeds interval k",
    "diffusion coefficients are read from the simulator (model.diffusion_coefficient, equivalent_diffusion_coefficient[_fine/"
    "_coarse], diffusion_matrix / _diffusion_matrix_h/_2h): their values are C04's subject, only their use is checked here",
]
CHUNK = 4

U_MENU = (0.1, 0.5, 0.9)
EPS_FRACS = {"T/4": 0.25, "T/2.5": 0.4, "2T": 2.0, "T": 1.0, "T/2": 0.5, "T/8": 0.125, "inf": math.inf}  # eps = fraction * T
EPS_DIVS = {"T/5": 5.0, "T/10": 10.0, "T/3": 3.0, "T/9": 9.0, "T/50": 50.0, "T/200": 200.0, "T/20": 20.0,
            "T/100": 100.0}  # eps = T / divisor
# maximum steps per product: T/5 and T/10 divide the yearly maturities and the gaps between the scripted jump times exactly
# in decimal but not in binary (0.2, 0.1 against the times 0.1, 0.5, 0.9, 1.0); T = 0.9 with eps = 0.3 and 0.1 likewise
EPS_MENU = ["T/4", "T/2.5", "2T", "T/5", "T/10"]
EPS_MENU_BY_PRODUCT = {"spot-09": ["T/3", "T/9", "T/4"]}
LATTICE = [round(0.1 * k, 10) for k in range(1, 11)]
FINER_EPS = [0.1, 0.15, 0.2, 0.3, 0.7, 1.5]
# exact ties: maximum steps equal to the maturity (T), to a date interval of the yearly / monthly products and to the gap left
# by u = 0.5 (T/2), and a smaller power of two (T/8): every gap of the no-jump path and of u = 0.5 is an exact multiple
EPS_TIES = ["T", "T/2", "T/8"]
EPS_MANY = ["T/50", "T/200"]  # many refinement points (accumulation)
# binary lattice for the finer-grid functions: all times, gaps and maximum steps are exact in binary, every gap is an exact
# multiple of 0.125 and 0.25, and a jump time may sit at time 0 and at the declared maturity
LATTICE_B = [0.25 * k for k in range(0, 9)]
FINER_EPS_B = [0.125, 0.25, 0.5, 0.75, 1.0]
FINER_FORMS = ["int", "np64", "np32", "0d"]  # Python lists are rejected by the unchanged tree
FINER_ACC_DIVS = [64, 100, 128, 300, 1000]
# gaps JUST ABOVE a multiple of the maximum step, k * eps * (1 + d): the remainder eps * (1 + k d) exceeds eps by more than
# rounding and must be split (a guard against rounding that is wider than rounding - np.isclose defaults, an absolute
# tolerance - leaves a step longer than eps); d < 0: the remainder is below eps and must not be split
NEAR_D = [4e-9, 1e-6, 4e-6, -1e-6]
NEAR_K = [1, 2, 3, 7]
# (declared maturity, eps) of the near-multiple inputs: ordinary steps and small ones, where an ABSOLUTE tolerance shows
FINER_NEAR = [(1.0, 0.1), (2.0, 0.25), (1e-4, 1e-6), (1e-6, 1e-8)]
FINER_TINY = [(1e-4, 1e-6), (1e-6, 1e-8)]  # (maturity, eps): 100 steps
TINY_PRODUCTS = ["spot-tiny4", "spot-tiny6"]  # T = 1e-4, 1e-6 with eps = T/100
TINY_SIMS = ["levy-hem", "levy-merton", "chain-hem", "chain-cgmy12", "copula-chain", "coupling-hem", "coupling-copula",
             "coupling-hem-l0", "coupling-copula-l0"]
NEAR_COUNT = 4  # jumps per interval of the "near" script
# an inserted point closer than 1e-9 * eps to its neighbour is judged in gaps of at most this many maximum steps; in longer
# gaps the rounding of the library's repeated subtraction of eps (relative to the GAP) may exceed the library's own tolerance
# (1e-12 relative to EPS): such points are counted, not judged (see the module docstring)
NEAR_DUP_JUDGED_UP_TO = 128
QUICK_SIMS = ["levy-hem", "levy-merton", "chain-hem", "chain-cgmy12", "copula-chain", "coupling-hem", "coupling-cgmy12",
              "coupling-copula", "chain-hem-bst", "coupling-hem-bst", "coupling-hem-alias", "coupling-copula-bsta"]
BASE5 = ["levy-hem", "chain-hem", "copula-chain", "coupling-hem", "coupling-copula"]
MANY = 6  # "many" jumps in one interval
HUNDRED = 100


def _eps_of(name, T):
    if name is None:
        return None
    return EPS_FRACS[name] * T if name in EPS_FRACS else T / EPS_DIVS[name]


# ----------------------------------------------------------------------------------------------------------------------
# the stated space
# ----------------------------------------------------------------------------------------------------------------------

def _n_intervals(prod):
    return U.n_intervals(prod)


def _patterns(n):
    """count patterns for products with many dates"""
    onehot = [0] * n
    onehot[n // 2] = 2
    return {"zeros": [0] * n, "ones": [1] * n, "mod3": [(7 * k + 1) % 3 for k in range(n)], "onehot": onehot}


def _many_counts(n):
    """many jumps in one interval and none in the others"""
    if n == 1:
        return [[MANY]]
    first, last = [MANY] + [0] * (n - 1), [0] * (n - 1) + [MANY]
    out = [first, last]
    if n > 2:
        mid = [0] * n
        mid[n // 2] = MANY
        out.append(mid)
    return out


def _preload():
    """import the library once in the parent so that the forked workers inherit it (about 5 s of imports otherwise)"""
    import rpylib.process.coupling.couplinglevycopula  # noqa: F401
    import rpylib.process.coupling.couplingmarkovchain  # noqa: F401
    import rpylib.product.product  # noqa: F401
    import rpylib.model.utils  # noqa: F401


def cases(tier):
    _preload()
    thorough = tier == "thorough"
    out = []
    # finer grid functions first (cheapest, simplest)
    for copy in ("levyprocess", "helper"):
        for vals in ("1d", "2d"):
            for mat in (1.0, 2.0):
                for eps in FINER_EPS:
                    for k in (1, 2, 3, 4):
                        out.append({"sub": "finer", "copy": copy, "vals": vals, "maturity": mat, "eps": eps, "k": k})
    # ... on the binary lattice (exact ties, time 0, the maturity itself, no point at all)
    for copy in ("levyprocess", "helper"):
        for vals in ("1d", "2d"):
            for mat in (2.0, 3.0):
                for eps in FINER_EPS_B:
                    for k in (0, 1, 2, 3, 4):
                        out.append({"sub": "finer", "copy": copy, "vals": vals, "maturity": mat, "eps": eps, "k": k, "lattice": "B"})
    # ... with the arguments in their other legal forms (same answer as with Python floats / float arrays)
    for copy in ("levyprocess", "helper"):
        for form in FINER_FORMS:
            for vals in ("1d", "2d"):
                for eps in ([1.0] if form == "int" else [0.25, 0.75, 1.0]):
                    out.append({"sub": "finer", "copy": copy, "vals": vals, "maturity": 2.0, "eps": eps, "k": 2, "lattice": "B",
                                "form": form})
    # ... with many refinement points
    for copy in ("levyprocess", "helper"):
        for mat in (1.0, 3.0):
            for div in FINER_ACC_DIVS:
                out.append({"sub": "finer", "copy": copy, "vals": "1d", "maturity": mat, "eps": mat / div, "k": "acc"})
    # ... with small maximum steps (short horizon) and with gaps just above / below a multiple of the maximum step
    for copy in ("levyprocess", "helper"):
        for mat, eps in FINER_TINY:
            out.append({"sub": "finer", "copy": copy, "vals": "1d", "maturity": mat, "eps": eps, "k": "acc"})
        for vals in ("1d", "2d"):
            for mat, eps in FINER_NEAR:
                out.append({"sub": "finer", "copy": copy, "vals": vals, "maturity": mat, "eps": eps, "k": "near"})
    if thorough:
        sims = list(U.SIMS)
        prods = ["spot-1", "spot-05", "spot-09", "asian-y1", "asian-y2", "asian-m2", "asian-y3", "asian-m3"]
    else:
        sims = list(QUICK_SIMS)
        prods = ["spot-1", "spot-09", "asian-y2", "asian-m3"]
        # level-0 couplings, engine construction route and reinit models: 1 and 2 intervals in quick (3 in thorough)
        short = ["coupling-hem-l0", "coupling-copula-l0", "coupling-hem-engine", "coupling-copula-engine",
                 "levy-merton-reinit", "chain-cgmy12-reinit", "coupling-hem-reinit"]
    sim_cases = []
    for prod in prods:
        n = _n_intervals(prod)
        for sim in sims + (short if not thorough and n < 3 else []):
            sim_cases.append({"sub": "sim", "sim": sim, "prod": prod, "mode": "fixed", "eps": None})
            for counts in itertools.product((0, 1, 2), repeat=n):
                sim_cases.append({"sub": "sim", "sim": sim, "prod": prod, "mode": "jump", "eps": None, "counts": list(counts)})
            for ef in EPS_MENU_BY_PRODUCT.get(prod, EPS_MENU):
                for counts in itertools.product((0, 1, 2), repeat=n):
                    sim_cases.append({"sub": "sim", "sim": sim, "prod": prod, "mode": "max", "eps": ef, "counts": list(counts)})
    base = list(U.SIMS) if thorough else BASE5
    # exact ties of the maximum step with the maturity / a date interval / a gap
    for prod in (["spot-1", "asian-y2", "asian-m2"] if thorough else ["spot-1", "asian-y2"]):
        n = _n_intervals(prod)
        for sim in base:
            for ef in EPS_TIES:
                for counts in itertools.product((0, 1, 2), repeat=n):
                    sim_cases.append({"sub": "sim", "sim": sim, "prod": prod, "mode": "max", "eps": ef, "counts": list(counts)})
    # many jumps in one interval and none in the others
    for prod in (["spot-1", "asian-y2", "asian-m3", "asian-y3"] if thorough else ["spot-1", "asian-y2", "asian-m3"]):
        n = _n_intervals(prod)
        for sim in base:
            tuples = _many_counts(n) + [[0] * n, [3] * n]
            sim_cases.append({"sub": "sim", "sim": sim, "prod": prod, "mode": "fixed", "eps": None, "tuples": tuples})
            for counts in _many_counts(n):
                sim_cases.append({"sub": "sim", "sim": sim, "prod": prod, "mode": "jump", "eps": None, "counts": counts,
                                  "scripts": "spread"})
                for ef in ("T/4", "T/10"):
                    sim_cases.append({"sub": "sim", "sim": sim, "prod": prod, "mode": "max", "eps": ef, "counts": counts,
                                      "scripts": "spread"})
    # no maximum step at all, said with a number: eps = inf
    for sim in base:
        for counts in ([0], [2]):
            sim_cases.append({"sub": "sim", "sim": sim, "prod": "spot-1", "mode": "max", "eps": "inf", "counts": counts})
    # a hundred jumps in one interval (sizes beyond a handful)
    for sim in base:
        for mode, ef in (("jump", None), ("max", "T/4"), ("max", "T/10")):
            sim_cases.append({"sub": "sim", "sim": sim, "prod": "spot-1", "mode": mode, "eps": ef, "counts": [HUNDRED],
                              "scripts": "spread"})
        if not (U.sim_class(sim).startswith("coupling") and U.SIMS[sim][2] > 0):
            # (fixed dates, coupled: the reference enumerates the coarse moves of an interval, 2^jumps sums)
            sim_cases.append({"sub": "sim", "sim": sim, "prod": "spot-1", "mode": "fixed", "eps": None, "tuples": [[HUNDRED], [0], [1]]})
    # many product dates, many refinement points
    for prod in (["asian-m24", "asian-w26"] if thorough else ["asian-m24"]):
        pats = _patterns(_n_intervals(prod))
        for sim in base:
            sim_cases.append({"sub": "sim", "sim": sim, "prod": prod, "mode": "fixed", "eps": None,
                              "tuples": [pats[k] for k in ("zeros", "ones", "mod3", "onehot")]})
            for pk in ("ones", "mod3", "onehot"):
                sim_cases.append({"sub": "sim", "sim": sim, "prod": prod, "mode": "jump", "eps": None, "counts": pats[pk],
                                  "scripts": "spread"})
            for ef in EPS_MANY:
                for pk in ("zeros", "mod3", "onehot"):
                    sim_cases.append({"sub": "sim", "sim": sim, "prod": prod, "mode": "max", "eps": ef, "counts": pats[pk],
                                      "scripts": "spread"})
    # the maturity and the maximum step in their other legal forms (Python int, numpy scalar, 0-d array)
    for form in (U.FORMS if thorough else U.FORMS[:2]):
        for prod in ("spot-1", "asian-y2"):
            n = _n_intervals(prod)
            for sim in (QUICK_SIMS if thorough else BASE5):
                sim_cases.append({"sub": "sim", "sim": sim, "prod": prod, "mode": "fixed", "eps": None, "form": form})
                sim_cases.append({"sub": "sim", "sim": sim, "prod": prod, "mode": "jump", "eps": None, "counts": [1] * n, "form": form})
                for ef in ("T/4", "T", "2T"):
                    for counts in ([0] * n, [1] * n):
                        sim_cases.append({"sub": "sim", "sim": sim, "prod": prod, "mode": "max", "eps": ef, "counts": counts,
                                          "form": form})
    # jump times that leave a gap just above a multiple of the maximum step (first gap, between two jumps, last gap to the
    # maturity), one case per simulator; small maximum steps (eps = 1e-6, 1e-8 on a short horizon)
    near_sims = list(U.SIMS) if thorough else list(QUICK_SIMS) + short
    for sim in near_sims:
        for prod, ef in (("spot-1", "T/10"), ("asian-y2", "T/20")) if thorough else (("spot-1", "T/10"),):
            sim_cases.append({"sub": "sim", "sim": sim, "prod": prod, "mode": "max", "eps": ef,
                              "counts": [NEAR_COUNT] * _n_intervals(prod), "scripts": "near"})
    for sim in (list(U.SIMS) if thorough else TINY_SIMS):
        for prod in TINY_PRODUCTS:
            sim_cases.append({"sub": "sim", "sim": sim, "prod": prod, "mode": "max", "eps": "T/100", "counts": [NEAR_COUNT],
                              "scripts": "near"})
            for counts in ([0], [1], [2]) if thorough else ([0], [1]):
                sim_cases.append({"sub": "sim", "sim": sim, "prod": prod, "mode": "max", "eps": "T/100", "counts": counts})
    # what the pool does between pre_computation and the simulations, alternately by dill and by copy.deepcopy
    for i, c in enumerate(sim_cases):
        c["pool_copy"] = ("dill", "deepcopy")[i % 2]
    return out + sim_cases


def check_case(sh, case):
    if case["sub"] == "finer":
        _sub_finer(sh, case)
    else:
        _sub_sim(sh, case)


# ----------------------------------------------------------------------------------------------------------------------
# small helpers
# ----------------------------------------------------------------------------------------------------------------------

def _vclose(a, b, scale):
    a = np.atleast_1d(np.asarray(a, dtype=float))
    b = np.atleast_1d(np.asarray(b, dtype=float))
    if a.shape != b.shape:
        return False
    return bool(np.all(np.abs(a - b) <= 1e-13 + 1e-9 * scale))


def _match(obs, pool, used, scale):
    """index of an unused member of `pool` equal to `obs` (vector), or None"""
    for i, r in enumerate(pool):
        if i not in used and _vclose(obs, r, scale):
            return i
    return None


def _locate(t, ref_t, tt):
    """indices of the original points ref_t (non-decreasing, possibly tied) in t; an inserted point may coincide with the
    original that follows it (residual of the repeated subtraction of eps): the LAST coincident points are the originals.
    Returns the list of indices, or the first original time that is missing (float)."""
    m, idx, pos, i = len(t), [], 0, 0
    while i < len(ref_t):
        r, g = ref_t[i], 1
        while i + g < len(ref_t) and abs(ref_t[i + g] - r) <= tt:
            g += 1
        while pos < m and t[pos] < r - tt:
            pos += 1
        c0 = pos
        while pos < m and abs(t[pos] - r) <= tt:
            pos += 1
        if pos - c0 < g:
            return float(r)
        idx.extend(range(pos - g, pos))
        i += g
    return idx


def _time_tol(T):
    """two times closer than this are the same time: 1e-12 on the horizons of order one, relative to the maturity on the
    short ones (T = 1e-4, 1e-6: the maximum step is 1e-2 T, a remainder of 4e-6 steps must stay visible)"""
    return 1e-12 * max(1.0, T) if T >= 0.01 else 1e-11 * T


def _icls(n):
    return "intervals=1" if n == 1 else "intervals>1"


def _multisets(c):
    """all multisets of size c from the menu, each as a DEcreasing list"""
    return [sorted(m, reverse=True) for m in itertools.combinations_with_replacement(U_MENU, c)]


U_TOP = 1.0 - 2.0 ** -53  # the largest value numpy.random.random_sample can return


def _edge_script(counts):
    """jump-time uniforms at the ends of [0, 1): u = 0 puts a jump on the product date that opens its interval (time 0 in
    the first interval), u = 1 - 2^-53 puts it one ulp before the next product date - or, when the interval does not start
    at 0, ON it after rounding (the maturity in the last interval)"""
    out = []
    for k, c in enumerate(counts):
        if c == 0:
            out.append([])
        elif c == 1:
            out.append([0.0] if k % 2 == 0 else [U_TOP])
        else:
            out.append([U_TOP] + [0.5] * (c - 2) + [0.0])
    return tuple(out)


def _near_script(case, counts):
    """NEAR_COUNT jumps per interval whose times (from the start of the interval, eps the maximum step) are
    eps(1+4e-6) | + 3 eps (1+1e-6) | + 2.5 eps | (interval length) - 2 eps (1+4e-6): the first gap, a gap between two jumps
    and the last gap (to the maturity in the last interval) are just above a multiple of eps - their remainder exceeds eps
    by 4e-6, 3e-6 and 8e-6 eps and must be split - and one gap leaves a remainder of eps / 2"""
    prod = case["prod"]
    T = U.PRODUCTS[prod][2]
    eps = _eps_of(case["eps"], T)
    dt = T / len(counts)
    if any(c != NEAR_COUNT for c in counts) or dt < 9.5 * eps:
        raise ValueError("near script: 4 jumps per interval of at least 10 maximum steps")
    t1 = eps * (1 + 4e-6)
    t2 = t1 + 3 * eps * (1 + 1e-6)
    t3 = t2 + 2.5 * eps
    t4 = dt - 2 * eps * (1 + 4e-6)
    return tuple([t4 / dt, t3 / dt, t2 / dt, t1 / dt] for _ in counts)


def _scripts_of(case, counts):
    """the jump-time scripts of a jump-time / maximum-step case: every multiset of the menu per interval ("std") or, for
    large counts / many dates ("spread"), pairwise distinct uniforms and all-equal uniforms; then the edge script"""
    if case.get("scripts") == "near":
        return [_near_script(case, counts)]
    if case.get("scripts") == "spread":
        spread = tuple([(2 * j + 1) / (2.0 * c) for j in reversed(range(c))] for c in counts)
        equal = tuple([U_MENU[k % 3]] * c for k, c in enumerate(counts))
        scripts = [spread, equal]
    else:
        scripts = list(itertools.product(*[_multisets(c) for c in counts]))
    if sum(counts):
        scripts.append(_edge_script(counts))
    return scripts


def _pool_copy(sh, d, mode, n, how):
    """history operation: from here on a copy of the simulator (dill / deepcopy) simulates, as in a pool worker"""
    if not how:
        return True
    sh.count("pool_copies")
    try:
        d.pool_copy(how)
    except U.ProtocolError:
        raise
    except Exception as e:
        sh.violation(_raise_key(mode, d.cls, e, n) + ":pool-copy-" + how,
                     f"{d.sim} {d.product_name} {mode}: the simulator could not be copied ({how}) after pre_computation: {e!r}", None)
        return False
    return True


# ----------------------------------------------------------------------------------------------------------------------
# sub-check: the real simulators
# ----------------------------------------------------------------------------------------------------------------------

def _sub_sim(sh, case):
    sim, prod, mode = case["sim"], case["prod"], case["mode"]
    T = U.PRODUCTS[prod][2]
    eps = _eps_of(case.get("eps"), T)
    cls = U.sim_class(sim)
    sh.cls(f"sim:{sim}")
    sh.cls(f"mode:{mode}")
    sh.cls(f"product:{prod}")
    if eps is not None:
        sh.cls("eps>maturity" if eps > T else "eps=maturity" if eps == T else "eps<maturity")
    if case.get("form"):
        sh.cls("form:" + case["form"])
    if case.get("pool_copy"):
        sh.cls("pool-copy:" + case["pool_copy"])
    if mode == "fixed":
        _run_fixed(sh, case, sim, prod, cls)
    else:
        _run_jump(sh, case, sim, prod, cls, mode, eps)
    sh.nontriv()


def _raise_key(mode, cls, e, n):
    return f"C15:{_mode_name(mode)}:{cls}:raises:{type(e).__name__}:{_icls(n)}"


def _hist(d):
    """suffix of a violation key of a simulation that raised: the argument form of the case and whether the simulator in use
    is a copy made after the pre-computation (the same failure on the usual form / on the original object has no suffix)"""
    out = ""
    if getattr(d, "form", None):
        out += f":form-{d.form}"
    if getattr(d, "copied", None):
        out += f":after-pool-copy-{d.copied}"
    return out


def _mode_name(mode):
    return {"fixed": "fixed-dates", "jump": "jump-times", "max": "max-step"}[mode]


class _Kept:
    """Paths kept while the simulator goes on (what a pool worker does with the paths of its chunk, what any caller holding
    a list of paths does): the object returned by the library next to the snapshot taken right after its simulation.
    `reread(op)` reads every kept object again and compares it EXACTLY with its snapshot; `op` names the operation that
    happened in between and goes into the violation key. A path that changed is reported once and dropped."""

    NAMES = ("times", "diffusion", "jumps")

    def __init__(self, sh, d, mode):
        self.sh, self.d, self.mode = sh, d, mode
        self.items = []

    def keep(self, label, sp, snap):
        self.items.append((label, sp, snap))

    def reread(self, op, last_only=False):
        todo = self.items[-1:] if last_only else list(self.items)
        for item in todo:
            label, sp, snap = item
            self.sh.count("kept_path_rereads")
            try:
                now = U.Driver.snapshot(sp)
            except Exception as e:  # noqa
                now = None
                changed = [f"unreadable ({e!r})"]
                comp = "unreadable"
            if now is not None:
                changed = [nm for nm, x, y in zip(self.NAMES, snap, now) if x.shape != y.shape or not np.array_equal(x, y, equal_nan=True)]
                comp = changed[0] if changed else None
            if changed:
                d = self.d
                for comp in ([comp] if now is None else changed):
                    self.sh.violation(
                        f"C15:{_mode_name(self.mode)}:{d.cls}:kept-path-changes:{op}:{comp}",
                        f"{d.sim} {d.product_name} {self.mode} eps={d.eps}: the path {label}, kept by the caller, no longer "
                        f"carries its own {comp} after {op} on the same simulator",
                        {"path": label, "operation": op, "before": list(snap), "after": None if now is None else list(now)})
                self.sh.outcome((d.sim, self.mode, "kept-path-changed", op, comp))
                self.items = [x for x in self.items if x is not item]


def _kept_copies(sh, kept, how_many=3):
    """a kept path survives copy.deepcopy and a dill round trip (the pool sends the results of a chunk back pickled)"""
    import copy as _copy

    import dill

    d = kept.d
    for label, sp, snap in kept.items[-how_many:]:
        for how in ("deepcopy", "dill"):
            sh.count("kept_path_copies")
            try:
                cp = _copy.deepcopy(sp) if how == "deepcopy" else dill.loads(dill.dumps(sp))
                now = U.Driver.snapshot(cp)
                changed = [nm for nm, x, y in zip(kept.NAMES, snap, now) if x.shape != y.shape or not np.array_equal(x, y, equal_nan=True)]
            except Exception as e:  # noqa
                changed, now = [f"raises-{type(e).__name__}"], None
            for comp in changed:
                sh.violation(f"C15:{_mode_name(kept.mode)}:{d.cls}:kept-path-changes:copy-{how}:{comp}",
                             f"{d.sim} {d.product_name} {kept.mode} eps={d.eps}: the {how} copy of the path {label} does not "
                             f"carry the path's {comp}", {"path": label, "before": list(snap), "after": None if now is None else list(now)})


def _other_object(sh, d, mode, n, kept):
    """history operation: another simulator of the same class (the engine's deepcopy [+ next_level]) simulates in between"""
    sh.count("other_object_operations")
    kept.reread("next-path")  # what changed before the operation is not the operation's
    try:
        # the copy of a Levy-copula coupling is not taken to the next level in maximum-step mode (cost of the finer chain,
        # there are 5 * 3^n such cases per simulator and product): it stays a copy at the same level
        d.other_object(next_level=not (d.cls == "coupling-copula" and d.levels > 0 and mode == "max"))
    except U.ProtocolError:
        raise
    except Exception as e:
        sh.violation(_raise_key(mode, d.cls, e, n) + ":other-object",
                     f"{d.sim} {d.product_name} {mode}: a deep copy of the simulator (taken to the next level for a coupling) "
                     f"could not simulate: {e!r}", None)
        return
    kept.reread("other-object")
    # ... and a second object of the same class and level with ANOTHER maximum step and ANOTHER maturity is prepared (and
    # simulates one path) before the object of the case goes on
    sh.count("other_parameters_object_operations")
    try:
        d.other_parameters_object()
    except U.ProtocolError:
        raise
    except Exception as e:
        sh.violation(_raise_key(mode, d.cls, e, n) + ":other-parameters-object",
                     f"{d.sim} {d.product_name} {mode}: a deep copy of the simulator initialised for twice the maturity (and 2.5 "
                     f"times the maximum step) could not simulate: {e!r}", None)
        return
    kept.reread("other-parameters-object")


def _detour(sh, d, mode, n, kept):
    """history operation: the simulator of the case is initialised for another product (twice the maturity) and another
    maximum step, pre-computes and simulates one path; the caller then re-initialises it for the product of the case"""
    sh.count("detours_through_other_parameters")
    try:
        d.detour_other_parameters()
    except U.ProtocolError:
        raise
    except Exception as e:
        sh.violation(_raise_key(mode, d.cls, e, n) + ":initialisation-for-another-product",
                     f"{d.sim} {d.product_name} {mode}: the simulator, initialised for twice the maturity (and 2.5 times the "
                     f"maximum step), could not simulate: {e!r}", None)
        return False
    kept.reread("initialisation-for-another-product")
    return True


def _run_fixed(sh, case, sim, prod, cls):
    """batch 1: all count tuples after ONE pre_computation, every path kept, in the middle of the batch another object of
    the same class simulates; batch 2 (same object, when batch 1 went through): pre_computation again for the tuples in
    reverse order.  Brownian variates are identified across both batches (each feeds at most one path)."""
    n = _n_intervals(prod)
    if case.get("tuples"):
        tuples = [tuple(int(c) for c in tp) for tp in case["tuples"]]
    else:
        tuples = list(itertools.product((0, 1, 2), repeat=n))
    remaining = list(tuples)
    guard = 0
    while remaining:
        guard += 1
        if guard > len(tuples) + 2:
            raise U.ProtocolError("fixed-date batch does not make progress")
        d = U.Driver(sim, prod, "fixed", None, form=case.get("form"))
        B = len(remaining)
        script = [remaining[p][k] for k in range(n) for p in range(B)]  # interval-major, as pre_computation draws
        try:
            ctx = d.open(counts=script)
            ctx.__enter__()
        except U.ProtocolError:
            raise
        except Exception as e:
            sh.violation(_raise_key("fixed", cls, e, n) + ":at-initialisation", f"{sim} {prod}: {e!r}", None)
            return
        try:
            G = d.grid_times
            kept = _Kept(sh, d, "fixed")

            def protocol(nb):
                lams = d.pre_lams
                want = [float((G[k + 1] - G[k]) * d.proc.intensity()) for k in range(n) for _ in range(nb)]
                if len(lams) != len(want) or any(not core.close(a, b, 1e-9) for a, b in zip(lams, want)):
                    raise U.ProtocolError(f"jump counts are not drawn interval-major with rate dt*intensity: {lams[:6]} vs {want[:6]}")

            def batch(todo, pool, used_batch, offset, middle_op):
                """returns the number of tuples of `todo` dealt with, and whether a simulation raised"""
                for p, counts in enumerate(todo):
                    if middle_op and p == (len(todo) + 1) // 2:
                        _other_object(sh, d, "fixed", n, kept)
                    try:
                        t, D, J = d.simulate(reload=False)
                    except U.ProtocolError:
                        raise
                    except Exception as e:
                        sh.count("evaluations")
                        sh.violation(_raise_key("fixed", cls, e, n) + _hist(d), f"{sim} {prod} counts {counts}: {e!r}", {"counts": counts})
                        sh.outcome((sim, "fixed", counts, "raises", type(e).__name__))
                        return p + 1, True
                    _oracle(sh, d, "fixed", None, counts, None, t, D, J, pool, used_batch, offset + p)
                    kept.reread("next-path", last_only=True)
                    kept.keep(f"#{offset + p} (counts {counts})", d.last_path, (t, D, J))
                kept.reread("next-path")
                return len(todo), False

            protocol(B)
            pool = list(d.pre_brownian)
            used_batch = {}
            done, raised = batch(remaining, pool, used_batch, 0, middle_op=True)
            remaining = remaining[done:]
            if not raised:
                # second batch on the same object, as the engines do at every pass
                todo = list(reversed(tuples))
                script2 = [todo[p][k] for k in range(n) for p in range(len(todo))]
                try:
                    d.precompute_again(script2)
                except U.ProtocolError:
                    raise
                except Exception as e:
                    sh.violation(_raise_key("fixed", cls, e, n) + ":pre-computation-again", f"{sim} {prod}: {e!r}", None)
                    return
                sh.count("second_batches")
                kept.reread("pre-computation-again")
                # the pool: the second batch is simulated by a copy taken after the pre-computation
                if not _pool_copy(sh, d, "fixed", n, case.get("pool_copy")):
                    return
                protocol(len(todo))
                pool.extend(d.pre_brownian)
                done, raised = batch(todo, pool, used_batch, len(tuples), middle_op=False)
                if raised:
                    return
                # third batch after the public initialisation() on the same object, as a second pricing does (with a pricing of
                # another product on the same object in between)
                if not _detour(sh, d, "fixed", n, kept):
                    return
                script3 = [tuples[p][k] for k in range(n) for p in range(len(tuples))]
                try:
                    d.precompute_again(script3, reinit=True)
                except U.ProtocolError:
                    raise
                except Exception as e:
                    sh.violation(_raise_key("fixed", cls, e, n) + ":initialisation-again", f"{sim} {prod}: {e!r}", None)
                    return
                kept.reread("initialisation-again")
                protocol(len(tuples))
                pool.extend(d.pre_brownian)
                done, raised = batch(tuples, pool, used_batch, 2 * len(tuples), middle_op=False)
                if raised:
                    return
                # degenerate sizes: nothing to pre-compute (what next_level asks for at an intermediate level), then one path
                try:
                    d.precompute_again((), n_paths=0)
                    single = tuples[len(tuples) // 2]
                    d.precompute_again(list(single), n_paths=1)
                except U.ProtocolError:
                    raise
                except Exception as e:
                    sh.violation(_raise_key("fixed", cls, e, n) + ":pre-computation-of-zero-or-one-path", f"{sim} {prod}: {e!r}", None)
                    return
                sh.count("single_path_batches")
                kept.reread("pre-computation-again")
                protocol(1)
                pool.extend(d.pre_brownian)
                batch([single], pool, used_batch, 3 * len(tuples), middle_op=False)
                _kept_copies(sh, kept)
        finally:
            ctx.__exit__(None, None, None)


def _run_jump(sh, case, sim, prod, cls, mode, eps):
    """all multisets of jump-time uniforms on ONE simulator, every path kept; half-way a second pre_computation on the same
    object and a path simulated by another object of the same class; at the end the first script once more (so that every
    path, also the only one of a case without jumps, is followed by a later one) and all the kept paths are read again."""
    counts = tuple(case["counts"])
    n = len(counts)
    d = U.Driver(sim, prod, mode, eps, form=case.get("form"))
    try:
        ctx = d.open()
        ctx.__enter__()
    except U.ProtocolError:
        raise
    except Exception as e:
        sh.violation(_raise_key(mode, cls, e, n) + ":at-initialisation", f"{sim} {prod}: {e!r}", None)
        return
    try:
        kept = _Kept(sh, d, mode)
        scripts = _scripts_of(case, counts)
        scripts.extend([scripts[0], scripts[0]])
        for q, us in enumerate(scripts):
            if q == len(scripts) - 1:
                kept.reread("next-path")  # what changed before the operation is not the operation's
                if not _detour(sh, d, mode, n, kept):
                    return
                try:
                    d.precompute_again(reinit=True)
                except U.ProtocolError:
                    raise
                except Exception as e:
                    sh.violation(_raise_key(mode, cls, e, n) + ":initialisation-again", f"{sim} {prod}: {e!r}", None)
                    return
                kept.reread("initialisation-again")
            if q == (len(scripts) - 1) // 2:
                kept.reread("next-path")
                try:
                    d.precompute_again(n_paths=0)  # a pass of the engine in which the level needs no further path
                    d.precompute_again()
                except U.ProtocolError:
                    raise
                except Exception as e:
                    sh.violation(_raise_key(mode, cls, e, n) + ":pre-computation-again", f"{sim} {prod}: {e!r}", None)
                    return
                kept.reread("pre-computation-again")
                # the pool: the following paths are simulated by a copy taken after the pre-computation
                if not _pool_copy(sh, d, mode, n, case.get("pool_copy")):
                    return
                _other_object(sh, d, mode, n, kept)
            try:
                t, D, J = d.simulate(counts=counts, times=us)
            except U.ProtocolError:
                raise
            except Exception as e:
                sh.count("evaluations")
                eq = "equal-counts" if len(set(counts)) == 1 else "unequal-counts"
                sh.violation(_raise_key(mode, cls, e, n) + (":" + eq if n > 1 else "") + _hist(d),
                             f"{sim} {prod} {mode} eps={eps} counts {counts} uniforms {us}: {e!r}", {"counts": counts, "us": us})
                sh.outcome((sim, mode, counts, "raises", type(e).__name__))
                continue
            left = d.rng.leftovers()
            if left != (0, 0):
                sh.violation(f"C15:{_mode_name(mode)}:{cls}:scripted-jump-counts-not-all-drawn:{_icls(n)}",
                             f"{sim} {prod}: {left} scripted counts/time lists were never drawn", {"counts": counts})
            _oracle(sh, d, mode, eps, counts, us, t, D, J, list(d.rng.brownian), {}, 0)
            kept.reread("next-path", last_only=True)
            kept.keep(f"#{q} (counts {counts}, uniforms {us})", d.last_path, (t, D, J))
        kept.reread("next-path")
        _kept_copies(sh, kept)
    finally:
        ctx.__exit__(None, None, None)


# ----------------------------------------------------------------------------------------------------------------------
# the oracle for one path
# ----------------------------------------------------------------------------------------------------------------------

def _oracle(sh, d, mode, eps, counts, us, t, D, J, pool, used_batch, p_index):
    sh.count("evaluations")
    sim, cls = d.sim, d.cls
    mname = _mode_name(mode)
    G = d.grid_times
    n = len(G) - 1
    T = d.maturity
    icls = _icls(n)
    tt = _time_tol(T)
    dim = d.dim
    m1 = len(t)

    def viol(failure, what, detail=None, extra=None):
        key = f"C15:{mname}:{cls}:{failure}:{extra or icls}"
        det = {"sim": sim, "counts": counts, "uniforms": us, "eps": eps, "times": t, "jump_path": J, "diffusion_path": D}
        if detail:
            det.update(detail)
        sh.violation(key, f"{sim} {d.product_name} {mode} eps={eps} counts {counts} uniforms {us}: {what}", det)

    # ---- components: list of (D_c, J_c) of shape (dim, m1)
    try:
        if d.coupled:
            comps = [(D[c].reshape(dim, -1), J[c].reshape(dim, -1)) for c in (0, 1)]
        else:
            comps = [(D.reshape(dim, -1), J.reshape(dim, -1))]
    except Exception as e:  # noqa
        viol("component-shape-unexpected", f"diffusion {D.shape}, jumps {J.shape}: {e!r}")
        return
    if any(Dc.shape[1] != m1 or Jc.shape[1] != m1 for Dc, Jc in comps):
        viol("components-not-aligned-on-the-times",
             f"{m1} times but diffusion/jump columns {[(Dc.shape[1], Jc.shape[1]) for Dc, Jc in comps]}")
        sh.outcome((sim, mode, counts, "misaligned"))
        return

    # ---- start
    if t[0] != 0.0 or any(np.any(Dc[:, 0] != 0.0) or np.any(Jc[:, 0] != 0.0) for Dc, Jc in comps):
        viol("does-not-start-at-zero", f"t0={t[0]}, first columns {[(Dc[:, 0], Jc[:, 0]) for Dc, Jc in comps]}")

    # ---- the accessors the engines read: value() = diffusion + jumps, value_jump() = jumps, times() = jump_times
    sp = d.last_path
    try:
        val = np.asarray(sp.value(), dtype=float)
        vj = np.asarray(sp.value_jump(), dtype=float)
        jt = np.array([float(x) for x in getattr(sp, "jump_times", sp.times())], dtype=float)
        acc = None
        if val.shape != D.shape or np.any(np.abs(val - (D + J)) > 1e-15 + 1e-12 * (np.abs(D) + np.abs(J))):
            acc = ("value", val, D + J)
        elif vj.shape != J.shape or not np.array_equal(vj, J):
            acc = ("value_jump", vj, J)
        elif jt.shape != t.shape or not np.array_equal(jt, t):
            acc = ("times", jt, t)
    except Exception as e:  # noqa
        acc = ("raises-" + type(e).__name__, repr(e), None)
    if acc is not None:
        viol(f"path-accessor-inconsistent:{acc[0]}", f"path.{acc[0]}() gives {acc[1]}, the stored components give {acc[2]}")

    # ---- engine route: the path manager that next_level appended evaluates its deterministic part on the times of the path and
    # adds it to value(): two components (fine, coarse), one column per time
    pms = getattr(d, "path_managers", None)
    if pms and d.coupled and len(pms) > 1:
        try:
            det = np.asarray(pms[-1].deterministic_path(sp.times()), dtype=float)
            tot = det + np.asarray(sp.value(), dtype=float)
            ok = tot.shape == D.shape and det.shape[0] == 2
        except Exception as e:  # noqa
            ok, det = False, repr(e)
        sh.count("path_manager_alignments")
        if not ok:
            viol("deterministic-part-not-aligned-with-the-path", f"path manager of the level: deterministic part "
                 f"{det if isinstance(det, str) else det.shape} against components {D.shape}")

    # ---- reference original times
    if mode == "fixed":
        ref_t = [float(x) for x in G]
        jump_interval = []  # no jump points
    else:
        ref_t = [0.0]
        jump_interval = []
        for k in range(n):
            dt = G[k + 1] - G[k]
            for u in sorted(us[k]):
                ref_t.append(float(G[k] + dt * u))
                jump_interval.append(k)
        ref_t.append(T)
    tied = any(ref_t[i + 1] == ref_t[i] for i in range(len(ref_t) - 1))
    if tied:
        sh.cls("tied-jump-times")
    if mode != "fixed" and sum(counts) == 0:
        sh.cls("path-without-jumps")

    # ---- times
    if np.any(np.diff(t) < 0):
        # the refined times are a cumulative sum of steps; before 32afd07 a jump time tied with the maturity came back a few ulps
        # ABOVE the maturity that the library appends exactly (last step of -1e-16, nan in the last diffusion value): judged,
        # under its own key
        dmin = float(np.diff(t).min())
        at_maturity = mode == "max" and t[-1] == T and abs(ref_t[-2] - T) <= tt and not np.any(np.diff(np.minimum(t, T)) < 0)
        if at_maturity and dmin >= -4 * m1 * float(np.spacing(T)):
            viol("times-decrease:last-point-an-ulp-beyond-the-maturity", f"times end with {t[-3:]}")
        else:
            viol("times-decrease", f"times {t}")
        return
    if abs(t[-1] - T) > tt:
        viol("last-time-not-maturity", f"last time {t[-1]} != maturity {T}")
    # locate the original points
    idx = []
    if mode in ("fixed", "jump"):
        if m1 != len(ref_t) or any(abs(a - b) > tt for a, b in zip(t, ref_t)):
            viol("times-differ-from-reference", f"times {t} but reference (dates / scripted jump times + maturity) {ref_t}")
            sh.outcome((sim, mode, counts, "times-differ"))
            return
        idx = list(range(m1))
    else:
        idx = _locate(t, ref_t, tt)
        if isinstance(idx, float):
            viol("original-time-missing", f"original time {idx} is not among the returned times {t}")
            sh.outcome((sim, mode, counts, "original-missing"))
            return
    orig = set(idx)
    for i in range(len(ref_t) - 1):
        if ref_t[i + 1] > ref_t[i] + tt and not t[idx[i + 1]] > t[idx[i]]:
            viol("times-not-strictly-increasing", f"times {t}")
            break

    # ---- jump component
    calls = d.rec.calls
    groups = None  # per interval: list of (value vector, state or None)
    if cls == "levy":
        flat = [float(x) for c in calls for x in c]
        if len(flat) != sum(counts):
            viol("jump-sizes-produced-differ-from-scripted-counts", f"{len(flat)} jump sizes produced for counts {counts}")
        else:
            groups, q = [], 0
            for c in counts:
                groups.append([(np.array([x]), None) for x in flat[q:q + c]])
                q += c
    else:
        if [len(c) for c in calls] != list(counts):
            viol("jump-sizes-produced-differ-from-scripted-counts",
                 f"sampler calls of sizes {[len(c) for c in calls]} for counts {counts}")
        else:
            groups = [[(d.state_value(list(s)), list(s)) for s in c] for c in calls]
    if groups is not None:
        scale = sum(float(np.max(np.abs(v))) for g in groups for v, _ in g) + 1e-300
        _check_jumps(sh, d, viol, mode, comps, groups, idx, jump_interval, n, scale, t, orig)

    # ---- diffusion component: every increment is one fresh scaled variate (per coordinate)
    coefs = d.diffusion_coefficients()
    dts = np.diff(t)
    small = 1e-9 * (min(eps, T) if eps else T)
    for c, (Dc, _) in enumerate(comps):
        C = coefs[c]
        name = "fine" if c == 0 else "coarse"
        Cm = np.atleast_2d(np.asarray(C, dtype=float))
        if abs(np.linalg.det(Cm)) < 1e-30:
            if np.any(np.abs(Dc) > 1e-15):
                viol(f"diffusion-nonzero-with-zero-coefficient:{name}", f"coefficient {C}, diffusion {Dc}", extra=icls)
            continue
        used = set()
        bad = None
        for j in range(m1 - 1):
            dD = Dc[:, j + 1] - Dc[:, j]
            if dts[j] <= 0.0:
                if np.any(np.abs(dD) > 1e-15):
                    bad = (j, "non-zero diffusion increment over a zero time step")
                    break
                continue
            if dts[j] < small:
                continue  # judged below (maximum step: an inserted point at the time of its neighbour)
            w = np.linalg.solve(Cm, dD) / math.sqrt(dts[j])
            for x in w:
                hit = None
                for i, z in enumerate(pool):
                    if abs(z - x) <= 1e-7:
                        hit = i
                        break
                if hit is None:
                    bad = (j, f"increment {dD} over dt {dts[j]} is not coefficient*sqrt(dt)*(a scripted Brownian variate): "
                              f"implied variate {x}")
                    break
                if hit in used:
                    bad = (j, f"scripted Brownian variate #{hit} is used twice in one path")
                    break
                used.add(hit)
                owner = used_batch.get((c, hit))
                if owner is not None and owner != p_index:
                    viol(f"brownian-variate-shared-by-two-paths:{name}",
                         f"pre-drawn variate #{hit} feeds path {owner} and path {p_index} of the batch")
                used_batch[(c, hit)] = p_index
            if bad:
                break
        if bad:
            viol(f"diffusion-not-running-sum-of-scaled-increments:{name}", f"step {bad[0]}: {bad[1]}")

    # ---- maximum step
    if mode == "max":
        # the times are a cumulative sum of the steps: a step read back from them carries a few ulps of the maturity per point
        step_max = eps * (1 + 1e-12) + 4 * m1 * float(np.spacing(max(T, eps)))
        # length of the gap between the two ORIGINAL points around every step
        srt = sorted(orig)
        gap_of = np.zeros(max(m1 - 1, 0))
        for a, b in zip(srt, srt[1:]):
            gap_of[a:b] = t[b] - t[a]
        for j in range(m1 - 1):
            if dts[j] > step_max:
                if j + 1 == m1 - 1:
                    gap = "no-jump-path" if sum(counts) == 0 else "last-gap-to-maturity"
                elif j == 0:
                    gap = "first-gap"
                else:
                    gap = "gap-between-jumps"
                viol("step-exceeds-maximum", f"step {t[j]} -> {t[j + 1]} = {dts[j]} > eps = {eps}", extra=gap)
        for j in range(m1 - 1):
            # an inserted point must be a time of its own: strictly between its neighbours, further than rounding
            if dts[j] < small and (j not in orig or (j + 1) not in orig):
                if gap_of[j] > NEAR_DUP_JUDGED_UP_TO * eps:
                    sh.count("near_duplicate_inserted_points_in_long_gaps")  # counted, not judged (docstring)
                    continue
                where = "inserted-point-at-the-next-time" if j not in orig else "inserted-point-at-the-previous-time"
                viol("times-not-strictly-increasing", f"times {t[j]!r} and {t[j + 1]!r} (step {dts[j]}) around an inserted point; "
                     f"eps = {eps}", extra=where)
                break
        for j in range(1, m1):
            if j not in orig:
                sh.count("inserted_points")
                for c, (_, Jc) in enumerate(comps):
                    if np.any(np.abs(Jc[:, j] - Jc[:, j - 1]) > 1e-15):
                        viol("inserted-point-does-not-repeat-preceding-value:" + ("fine" if c == 0 else "coarse"),
                             f"inserted time {t[j]}: jump value {Jc[:, j]} after {Jc[:, j - 1]}")
                        break

    sh.outcome((sim, mode, counts, m1, [round(float(x), 9) for x in comps[0][1][:, -1]]))
    if sim in ("levy-hem", "coupling-hem") and counts in ((1, 2), (2, 1, 0)) and (us is None or all(len(set(u)) == len(u) for u in us)):
        sh.sample({"sim": sim, "product": d.product_name, "mode": mode, "eps": eps, "counts": counts, "uniforms": us,
                   "times": t, "jump_path": J, "diffusion_path": D})


def _check_jumps(sh, d, viol, mode, comps, groups, idx, jump_interval, n, scale, t, orig):
    """fine component: running sum of the produced jump sizes; coarse component: running sum of allowed coarse moves.
    The whole path is fitted to the running-sum model; when that fails it is fitted to the "restart" model (sums restart
    from zero at every product date) only in order to give that known pattern its own violation key."""
    Jf = comps[0][1]
    Jc = comps[1][1] if len(comps) > 1 else None
    zero = np.zeros(Jf.shape[0])

    if mode == "fixed":
        def fit_fine(model):
            run = zero
            for k in range(n):
                tot = sum((v for v, _ in groups[k]), zero)
                run = run + tot if model == "running" else tot
                if not _vclose(Jf[:, k + 1], run, scale):
                    return f"jump component at date {k + 1} is {Jf[:, k + 1]}, {model} sum {run}"
            return None

        def fit_coarse(model, _hits=None):
            for k in range(n):
                sums = [zero]
                for _, s in groups[k]:
                    sums = [a + b for a in sums for b in d.coarse_allowed(s)]
                inc = Jc[:, k + 1] - (Jc[:, k] if model == "running" else zero)
                if not any(_vclose(inc, x, scale) for x in sums):
                    return (f"coarse component at date {k + 1} is {Jc[:, k + 1]} (previous date {Jc[:, k]}); allowed "
                            f"moves over interval {k + 1}: {sums[:6]}")
            return None
        hits = {"running": None, "restart": None}
    else:
        hits = {}

        def fit_fine(model):
            used = [set() for _ in range(n)]
            prev_k, out = None, []
            for q, k in enumerate(jump_interval):
                i = idx[q + 1]
                base = Jf[:, idx[q]]
                if model == "restart" and prev_k != k:
                    base = zero
                inc = Jf[:, i] - base
                hit = _match(inc, [v for v, _ in groups[k]], used[k], scale)
                if hit is None:
                    return (f"increment {inc} at jump time {t[i]} (value {Jf[:, i]}, previous point {Jf[:, idx[q]]}) is not one "
                            f"unused jump size of interval {k + 1}: {[v for v, _ in groups[k]]}")
                used[k].add(hit)
                out.append(hit)
                prev_k = k
            hits[model] = out
            return None

        def fit_coarse(model, hlist):
            prev_k = None
            for q, k in enumerate(jump_interval):
                i = idx[q + 1]
                base = Jc[:, idx[q]]
                if model == "restart" and prev_k != k:
                    base = zero
                cinc = Jc[:, i] - base
                state = groups[k][hlist[q]][1]
                allowed = d.coarse_allowed(state)
                if not any(_vclose(cinc, a, scale) for a in allowed):
                    return (f"coarse increment {cinc} at t={t[i]} (value {Jc[:, i]}, previous point {Jc[:, idx[q]]}) for fine "
                            f"state increment {state}; allowed {allowed}")
                prev_k = k
            return None

    fine_model = None
    msg = fit_fine("running")
    if msg is None:
        fine_model = "running"
    else:
        msg2 = fit_fine("restart") if n > 1 else "n/a"
        if msg2 is None:
            fine_model = "restart"
            viol("jump-sum-restarts-at-each-date:fine", "the jump component forgets the jumps of the previous intervals: " + msg)
        else:
            viol("jump-path-not-running-sum:fine", msg)
    if Jc is not None and fine_model is not None:
        hl = hits.get(fine_model)
        msg = fit_coarse("running", hl)
        if msg is not None:
            msg2 = fit_coarse("restart", hl) if n > 1 else "n/a"
            if msg2 is None:
                viol("jump-sum-restarts-at-each-date:coarse",
                     "the coarse jump component forgets the moves of the previous intervals: " + msg)
            else:
                viol("jump-path-not-running-sum:coarse", msg)
    if mode != "fixed":
        # maturity repeats the last value
        last, before = idx[-1], idx[-2]
        for c, (_, Jx) in enumerate(comps):
            if np.any(np.abs(Jx[:, last] - Jx[:, before]) > 1e-15):
                viol("jump-value-at-maturity-differs-from-last-jump:" + ("fine" if c == 0 else "coarse"),
                     f"jump component {Jx[:, last]} at maturity, {Jx[:, before]} at the last jump")
                return


# ----------------------------------------------------------------------------------------------------------------------
# sub-check: the build_finer_grid functions
# ----------------------------------------------------------------------------------------------------------------------

def _finer_fun(copy, eps, maturity):
    if copy == "levyprocess":
        from rpylib.process.levyprocess import SimulationMaximumStep

        return SimulationMaximumStep.create_build_finer_grid_fun(epsilon=eps, maturity=maturity)
    from rpylib.process.coupling.helper import create_build_finer_grid_fun

    return create_build_finer_grid_fun(epsilon=eps, maturity=maturity)


def _finer_form(x, form):
    """a scalar argument (maximum step / maturity) in another legal form; None when the form cannot carry the value"""
    if form in (None, "list"):
        return x
    if form == "int":
        return int(x) if float(x) == int(x) else None
    if form == "np64":
        return np.float64(x)
    if form == "np32":
        return np.float32(x) if float(np.float32(x)) == float(x) else None
    if form == "0d":
        return np.array(float(x))
    raise ValueError(form)


def _finer_inputs(case):
    """the time arrays of a finer-grid case (tuples of floats), in a fixed order"""
    k, mat = case["k"], case["maturity"]
    if k == "acc":
        # long gaps: no point at all / one early point / one point in the middle / two close points
        sets = [(), (0.1 * mat,), (0.5 * mat,), (0.3 * mat, 0.35 * mat)]
        if (mat, case["eps"]) in FINER_TINY:
            sets.append((0.355 * mat,))  # remainder of half a step
        if case["copy"] == "levyprocess":
            sets = [ts + (mat,) for ts in sets]  # this copy is handed the maturity by its caller
        return sets
    if k == "near":
        eps, sets = case["eps"], []
        for kk in NEAR_K:
            for dd in NEAR_D:
                g = kk * eps * (1 + dd)
                sets.append((g,))  # first gap
                sets.append((0.37 * eps, 0.37 * eps + g))  # gap between two points
                sets.append((mat - g,))  # last gap, to the maturity
        if case["copy"] == "levyprocess":
            sets = [ts + (mat,) for ts in sets]  # this copy is handed the maturity by its caller
        return sets
    lattice = LATTICE_B if case.get("lattice") == "B" else LATTICE
    return list(itertools.combinations(lattice, k))


def _sub_finer(sh, case):
    copy, vals, mat, eps, k = case["copy"], case["vals"], case["maturity"], case["eps"], case["k"]
    form = case.get("form")
    f = _finer_fun(copy, eps, mat)
    # a second function for another maximum step / maturity is created after `f` and called before every call of `f` (what the
    # levels of a multilevel estimator do to each other): `f` must go on answering for ITS parameters
    g_other = _finer_fun(copy, 2.5 * eps, 2.0 * mat)
    f_form = None
    if form is not None:
        e2, m2 = _finer_form(eps, form), _finer_form(mat, form)
        if e2 is None or m2 is None:
            sh.count("forms_not_representable")
            sh.nontriv()
            return
        f_form = _finer_fun(copy, e2, m2)
        sh.cls(f"finer:form:{form}")
    sh.cls(f"finer:{copy}:{vals}")
    sh.cls("finer:eps>=maturity" if eps >= mat else "finer:eps<maturity")
    if case.get("lattice") == "B":
        sh.cls("finer:binary-lattice")
    if k == "acc":
        sh.cls("finer:many-points")
    if k == "near":
        sh.cls("finer:gap-near-a-multiple-of-eps")
    if eps < 1e-5:
        sh.cls("finer:small-eps")
    nlong = 0
    for ts in _finer_inputs(case):
        times = np.array(ts, dtype=float)
        kk = len(ts)
        base = np.cumsum([U.ident(i, 0.1, 1.0) for i in range(kk)]) if kk else np.zeros(0)  # distinct, increasing -> identifiable
        if vals == "1d":
            v1 = base.copy()
            v2 = -2.0 * base
        else:
            v1 = np.array([base, 10.0 + base])
            v2 = np.array([-2.0 * base, 7.0 - base])
        sh.count("evaluations")
        key0 = f"C15:finer-grid:{copy}:{vals}"
        args_in = [times.copy(), v1.copy()] + ([v2.copy()] if copy == "helper" else [])
        args_ref = [a.copy() for a in args_in]
        try:
            g_other(None, *[a.copy() for a in args_in])
        except Exception:  # noqa
            sh.count("other_closure_raises")
        try:
            out = f(None, *args_in)
            at = np.array(out[0], dtype=float)
            avs = [np.array(o, dtype=float) for o in out[1:]]
            refs = [v1] if copy == "levyprocess" else [v1, v2]
        except Exception as e:
            sh.violation(f"{key0}:raises:{type(e).__name__}", f"times {ts} eps {eps}: {e!r}", {"times": ts})
            continue
        detail = {"times": ts, "eps": eps, "maturity": mat, "aug_times": at, "aug_values": avs}
        # the caller's arrays are the caller's: the function must not write to them
        for nm, a, b in zip(("times", "values", "values"), args_in, args_ref):
            if a.shape != b.shape or not np.array_equal(a, b):
                sh.violation(f"{key0}:argument-modified:{nm}", f"times {ts} eps {eps}: the {nm} array handed in was {b}, is {a} after "
                             f"the call", detail)
                break
        # a pure function: the same arguments again, the same answer
        try:
            out_b = f(None, *[a.copy() for a in args_ref])
            again = len(out_b) == len(out) and all(np.shape(x) == np.shape(y) and np.array_equal(np.asarray(x, dtype=float), np.asarray(y, dtype=float))
                                                   for x, y in zip(out_b, out))
        except Exception as e:  # noqa
            again, out_b = False, repr(e)
        sh.count("second_calls")
        if not again:
            sh.violation(f"{key0}:second-call-answers-differently", f"times {ts} eps {eps}: first call {[np.asarray(o) for o in out]}, "
                         f"second call with the same arguments {out_b if isinstance(out_b, str) else [np.asarray(o) for o in out_b]}", detail)
        # other legal forms of the arguments: same answer
        if f_form is not None:
            sh.count("form_comparisons")
            try:
                if form == "list":
                    fargs = [a.tolist() for a in args_ref]
                else:
                    fargs = [a.copy() for a in args_ref]
                out2 = f_form(None, *fargs)
                same = len(out2) == len(out) and all(
                    np.shape(np.asarray(x, dtype=float)) == np.shape(np.asarray(y, dtype=float))
                    and np.array_equal(np.asarray(x, dtype=float), np.asarray(y, dtype=float)) for x, y in zip(out2, out))
                if not same:
                    sh.violation(f"{key0}:argument-form-changes-the-answer:{form}",
                                 f"times {ts} eps {eps} maturity {mat}: with the arguments as {form}: {[np.asarray(o) for o in out2]}, "
                                 f"with floats: {[np.asarray(o) for o in out]}", detail)
            except Exception as e:
                sh.violation(f"{key0}:argument-form-raises:{form}:{type(e).__name__}",
                             f"times {ts} eps {eps} maturity {mat} with the arguments as {form}: {e!r}", detail)
        m = at.shape[0]
        if any(a.shape[-1] != m for a in avs):
            sh.violation(f"{key0}:values-not-aligned-on-the-times", f"times {ts} eps {eps}: {m} times, values {[a.shape for a in avs]}", detail)
            continue
        if np.any(np.diff(at) < 0):
            sh.violation(f"{key0}:times-decrease", f"times {ts} eps {eps}: {at}", detail)
            continue
        tt = _time_tol(mat)
        steps = np.diff(np.concatenate(([0.0], at)))
        ends = at
        if copy == "helper" and (m == 0 or at[-1] <= mat):
            # the helper's function also refines the step from the last point to the declared maturity
            steps = np.append(steps, mat - (at[-1] if m else 0.0))
            ends = np.append(at, mat)
        long_in = np.any(np.diff(np.concatenate(([0.0], times))) > eps) or (copy == "helper" and eps < mat and mat - (ts[-1] if ts else 0.0) > eps)
        nlong += int(long_in)
        step_max = eps * (1 + 1e-12) + 4 * (m + 1) * float(np.spacing(max(mat, eps)))
        if eps < mat and np.any(steps > step_max):
            j = int(np.argmax(steps > step_max))
            gap = "first-gap" if j == 0 else "last-gap-to-maturity" if j >= m else "gap-between-jumps"
            sh.violation(f"{key0}:step-exceeds-maximum:{gap}", f"times {ts} eps {eps}: step {steps[j]} ending at {ends[j]}", detail)
        # originals present, in order
        idx = _locate(at, [float(x) for x in times], tt)
        if isinstance(idx, float):
            sh.violation(f"{key0}:original-time-missing", f"times {ts} eps {eps}: {idx} not in {at}", detail)
            continue
        orig = set(idx)
        for a, r in zip(avs, refs):
            a2 = a.reshape(1, -1) if a.ndim == 1 else a
            r2 = r.reshape(1, -1) if r.ndim == 1 else r
            if not np.array_equal(a2[:, idx], r2):
                sh.violation(f"{key0}:original-value-changed", f"times {ts} eps {eps}: values {a2[:, idx]} for {r2}", detail)
                break
            stop = False
            for j in range(m):
                if j in orig:
                    continue
                prevv = a2[:, j - 1] if j > 0 else np.zeros(a2.shape[0])
                if not np.array_equal(a2[:, j], prevv):
                    where = "before-first-jump" if (not idx or j < idx[0]) else "after-last-jump" if j > idx[-1] else "between-jumps"
                    sh.violation(f"{key0}:inserted-point-does-not-repeat-preceding-value:{where}",
                                 f"times {ts} eps {eps}: inserted time {at[j]} has value {a2[:, j]}, preceding {prevv}", detail)
                    stop = True
                    break
            if stop:
                break
        small = 1e-9 * eps
        # length of the gap between the two original points (0 and, for the helper, the maturity included) around every step
        marks = [(-1, 0.0)] + [(i, float(at[i])) for i in sorted(orig)] + ([(m, mat)] if copy == "helper" else [])
        gap_after = np.zeros(m + 1)  # gap_after[j + 1]: gap containing the step that ends at point j (j = m: the maturity)
        for (a, ta), (b, tb) in zip(marks, marks[1:]):
            gap_after[a + 1:b + 1] = tb - ta
        if m and at[0] < small and 0 not in orig:
            sh.violation(f"{key0}:times-not-strictly-increasing:inserted-point-at-time-zero",
                         f"times {ts} eps {eps}: first returned time {at[0]!r}", detail)
        for j in range(len(ends) - 1):
            if ends[j + 1] - ends[j] < small:
                if j in orig and ((j + 1) in orig or j + 1 == m):
                    if j + 1 == m:
                        continue  # an original point at the declared maturity
                    where = "original-points"
                elif gap_after[j + 1] > NEAR_DUP_JUDGED_UP_TO * eps:
                    sh.count("near_duplicate_inserted_points_in_long_gaps")  # counted, not judged (docstring)
                    continue
                else:
                    # the remainder of a gap that is a multiple of eps up to rounding must not be split once more
                    where = "inserted-point-at-the-next-time" if j not in orig else "inserted-point-at-the-previous-time"
                sh.violation(f"{key0}:times-not-strictly-increasing:{where}",
                             f"times {ts} eps {eps}: {ends[j]!r} then {ends[j + 1]!r} in {ends}", detail)
                break
        sh.outcome((copy, vals, eps, ts, m))
    sh.count("finer_inputs_with_a_long_gap", nlong)
    sh.nontriv()
    if k == 2 and eps == 0.3 and vals == "1d" and mat == 1.0 and not case.get("lattice"):
        times = np.array([0.2, 0.9])
        out = f(None, times.copy(), np.array([1.0, 3.0])) if copy == "levyprocess" else f(None, times.copy(), np.array([1.0, 3.0]), np.array([2.0, 6.0]))
        sh.sample({"sub": "finer", "copy": copy, "times": [0.2, 0.9], "eps": eps, "result": [np.array(o) for o in out]})
