"""C20 - calibration reprices its target; derived parameters stay in sync with updates.

Six sub-checks, all complete enumerations of the stated finite spaces on the real code.

 calib-atm / calib-default / calib-product   (lattice sweep)
     exponential models of the four calibratable types (HEM, Merton, CGMY, VG) x start parameter sets (2; CGMY 5 in the
     thorough tier: y = 0.5, 1.2, -0.5, 1, 0) x (r, d, spot) in {(0.02, 0, 100), (0.05, 0.02, 100), thorough: (0.02, 0, 50)}
     (quick: the second triple only with the default parameter of each type) x maturity T in {0.25, 1} x target:
       atm      calibrate_model_parameter_to_atm_call for every (parameter, interval) of the menu CALIB (the default
                parameter of utils.default_calibration plus two others per type) x Black-Scholes volatility {0.1, 0.2, 0.35}
       default  run_default_calibration x volatility {0.1, 0.2, 0.35}
       product  calibrate_model_parameter with a call / put (strike 0.9, 1, 1.1 x spot) whose market price is the COS price
                of a freshly constructed model of the same type at a known parameter value x* inside the interval (so a
                solution exists), and with a forward target (market price = model forward, and model forward + 1: the
                forward does not depend on the parameter, no root)
     plus, on the first start set and the first (r, d, spot) (thorough: both start sets, every parameter of the menu):
       other maturities / volatilities   (T, vol) in {(1/52, .2), (1/12, .2), (3, .2), (1, .05), (1, .6), (.25, omitted), (1, omitted)}
                (thorough: {1/365, 1/52, 1/12, .25, 1, 3, 10} x {.05, .2, .6, omitted}); bs_sigma omitted = the default
                written in the function's signature is the volatility requested
       construction routes of the INPUT model: creator (utils.create_exponential_of_levy_model), reinit (a parameters object
                built with other values, every attribute re-assigned, initialisation(), model constructor: what the
                calibration helpers themselves do; the check's own version of mc.alphabets.with_reinit, for exponential
                models), deepcopy, pickle round trip, dill round trip, copy.copy, calibrated (the model returned by a first
                run_default_calibration is calibrated again)
       other market data  (r, d, spot) in {(0, 0, 1), (0.01, 0.04, 80)} (no rates and unit spot; d > r)
       call forms  positional arguments; the interval as a list; the interval in decreasing order (a returned value is
                judged, a raise is not: the statement does not say a decreasing interval must be accepted); a product the
                COS pricer does not support (library Digital payoff: only "input untouched" is judged)
       argument forms  (T = 1, volatility 0.2, all three functions; quick: two parameters of the menu) `int`: Python ints
                wherever the value is integral (maturity 1, spot 100, interval end points 0 / 1 / 2 / 100, strike 110,
                parameter values such as eta1 = 20, intensity = 3, c = 1) and `numpy`: numpy.float64 scalars for the
                maturity, the volatility, the market price, the strike, the spot and every parameter value, the interval as
                a numpy array.  Judged like the usual form (the references are built from Python floats); a form the
                library refuses with anything but the ValueError of a failed root search is counted
                (argument_form_rejected), never an alarm.  The interval and the product handed over are compared with
                their state before the call (failure class argument-modified)
       exact ties  the solution is an END POINT of the interval: market price = fresh price at x* = a and at x* = b (quick:
                call 1.0 / put 1.1, default parameter; thorough: every vanilla product, every parameter of the menu)
       quick only: the CGMY start sets with y = -0.5, 1, 0 (the exact ties of the branches of cgmy.py) once per function
       the CGMY start sets of the library's own scripts (scripts/mlmc/tools/utils.py, scripts/statistics/ctmc/levy_copula.py:
                y = 0.2, 1.2, 1.5, 0.3 with spot 80, c = 10), called as the scripts call (maturity 3/12, bs_sigma omitted)
     oracle, evaluated on models *constructed directly* from parameter values (never on the calibration's own objects):
       - a returned value is a finite real inside the interval; the COS price of the product under the model constructed
         with that value equals the market price within 4 x slope x (brentq xtol + rtol|x|) + 1e-8 max(1, |price|), the
         slope being a finite difference of the same fresh price;
       - if the call raises although the fresh objective has opposite signs at the two interval ends (a solution exists by
         continuity) that is a violation; a raise without a bracketed root is what the statement allows;
       - run_default_calibration returns an object of the input's class whose parameter lies in the default interval, whose
         ATM call (COS) equals the Black-Scholes closed form (re-derived here with math.erf), and which behaves like the
         model constructed directly from its parameter values (cached fields, exponent, masses, drifts; observed on models
         rebuilt from its parameters object AND on the returned object itself);
       - the input model is untouched, whether the call returned or raised: (a) a deep snapshot taken immediately after the
         call (float.hex of every number reachable from the model through instance dictionaries, containers, arrays, and
         the values read through the settable properties of every class met - the constraint properties of
         tools/parameter.py - wherever the library keeps them) is identical to the one taken before; (b) afterwards the
         model still behaves like a model constructed directly with the values it was built from: its public parameter
         values and spot / r / d, Levy exponent at 4 points, density, masses, cumulants, drifts, omega, log characteristic
         function, mean, two COS prices, observed on the object itself, and the same battery on models rebuilt from its
         parameters object.
     On numpy 2.5 scipy's brentq refuses an objective that returns a 1-element array; the library now squeezes the COS
     price itself.  Should the TypeError come back it is reported once per function (failure class
     raises-although-root-bracketed:TypeError) and the case is re-run with the name `COSPricer` in rpylib.model.utils bound
     to a subclass whose price() squeezes the result to a float (counter seam_reruns; stated in ASSUMPTIONS).

 calib-history   (all operation sequences up to a length bound on ONE scene of re-used objects)
     scene per family: A = first start set, B = same family, second start set, same market data, C = a model with other
     market data (0.05, 0.02, 80) built ON A's PARAMETERS OBJECT (shared), D = a model of the next family.  Operations:
     run_default_calibration(A, T=1, vol=.2) | (A, T=.25, bs_sigma omitted) | calibrate_..._to_atm_call(A, second parameter
     of the menu) | calibrate_model_parameter(A, put 1.1) | run_default_calibration(B) | (D) | (C) (all three with the SAME
     T / vol as the first: a memo keyed on too little shows) | use A (the behaviour battery above) | continue on a deep copy
     of A (the original stays in the scene) | adopt: A := the model returned by the last default calibration of A |
     reparam: one parameter of A's OWN parameters object is re-assigned (the first one the default calibration does not
     move), initialisation(), A := a new model built on that object (the models built on it before - the old A, C - alias
     it: outside the statement, they leave the scene and later operations on them are skipped and counted).
     quick: every valid sequence of length <= 2, and every calibration - {use, deepcopy, adopt, reparam} - calibration triple;
     thorough: every valid sequence of length <= 3 (valid = adopt has a default calibration of A before it, and at least one
     calibration occurs).  Oracle: every calibration is judged as above on directly constructed models (so a value that
     leaked from another call does not reprice); the deep snapshot of EVERY model of the scene (the one given and the
     others, copies and shared-parameter siblings included) is identical before / immediately after every calibration; at
     the end every model of the scene passes the behaviour battery against a directly constructed twin.

 calib-recal   (calibration histories whose START model is already calibrated, or almost: second pass after a small move of
     the quote, bump-and-recalibrate, recalibration of a calibrated model)
     per family x function x calibrated parameter x problem (quick: default calibration (T, vol) in {(1, .2), (.25, .2),
     (1, .1), (.5, .1), (.25, .35)} and the second start set at (1, .2); ATM call: every parameter of the menu at (1, .2),
     the default one at (.25, .35), the last one from the second start set at (.5, .1); product route: put 1.1 T = .25
     x* = 30 %, call 1.0 T = 1 x* = 70 %, second parameter with the put; thorough: both start sets x T in {.25, .5, 1} x vol
     in {.1, .2, .35} x every parameter, four products) x route by which the model holding a returned VALUE is built
     (ctor | reinit | deepcopy; the default calibration hands over the returned object itself):
       first pass from the start set; then the returned model is calibrated again
       star     to the quote (volatility requested / market price) moved by relative 0 (same quote again), 1e-9, 1e-7, 4e-6,
                -7e-6, 1e-4, 1e-2, each time from the model of the first pass
       chain    to the same quotes in that order, each time from the model returned by the step before
       rounded  from a model holding the first-pass value rounded to 6 significant digits, to the quote of the first pass
       other    (value-returning functions) the NEXT parameter of the menu of the calibrated model, quote moved by 0 / 4e-6 /
                1e-4; reference: the same model with that parameter displaced to a + 0.37 (b - a)
       halves   (value-returning functions) quote moved by 4e-6, on the lower and the upper half of the interval (one of them
                does not hold the start value)
       input    the INPUT object of the first pass once more, quote moved by 0 / 4e-6
     Oracle: every outcome judged like a first pass (value in the interval GIVEN, the directly constructed model reprices
     the NEW target within the root-finder tolerance above, raise only without a bracketed root, model given untouched,
     default calibration: the whole oracle of the returned model), and the answer does not depend on the value the
     calibrated parameter had in the start model: equal, within 8 (xtol + rtol |x|) + 1e-11 max(1, |price|) / slope, to the
     first-pass answer for the same target (from a freshly constructed start-set model / the displaced model); not compared
     when the slope is 0 or one side raised (counted).  First passes without a solution (e.g. volatility 0.1 below the jump
     volatility of the HEM / Merton start set) end the case (counter recal_first_pass_without_value).
     Violation keys: C20:calib:<function>:recalibration:<class>:... and C20:recal:<function>:answer-depends-on-the-start-
     value-of-the-calibrated-parameter:<family>:<parameter>:<class>, class = same-quote | quote-moved-by-less-than-1e-5 |
     quote-moved-by-more-than-1e-5 | rounded-start-value | other-parameter:* | half-interval-* | input-object-again:*.

 calib-neighbours   (two calibration problems that differ in exactly ONE thing, solved one after the other in one process)
     per family x function (run_default_calibration | calibrate_model_parameter_to_atm_call | calibrate_model_parameter with
     a put 1.1 x spot, T = .25, market = fresh price at x* = 30 % of the interval) x calibrated parameter (quick: default /
     second of the menu / default; thorough: every parameter of the menu) x difference:
       twin          nothing differs but the identity of the model object
       param k far   ONE parameter of the model differs, each attribute of the family in turn (sigma, p, eta1, eta2,
                     intensity | sigma, mu_j, sigma_j, intensity | c, g, m, y | sigma, nu, theta: in particular those a
                     repr / str / hash / fingerprint of the model may omit), value of the second start set
       param k near  the same with a relative change of 5e-5 (a fingerprint that rounds; quick: default calibration only)
       env           spot | r | d alone
       arg           ONE argument of the call: maturity | volatility | upper half / lower half of the interval (the
                     solution lies in one of them at most) | the parameter's name with the same interval (NEIGH_COMMON); for
                     the product route also x* | strike | call-put | maturity of the product (market price recomputed) and
                     market price only | strike | call-put | maturity with the SAME market price
     x order (first problem, second, first again | second, first, second again; quick: the second order for the `far`
     variants of the default calibration and the argument variants) x models kept alive | constructed for each call and
     discarded, gc.collect() in between (a memo keyed on id(); quick: `far` variants of the default calibration).
     Oracle: every one of the three outcomes is judged as above on directly constructed models, so a value handed over
     from the neighbouring problem does not reprice / lies outside the interval; both models are untouched by every call
     (deep snapshots) and pass the behaviour battery at the end.

 assign   (explicit-state search, core.bfs)
     per Parameters class (HEM, Merton, VG, CGMY, Black-Scholes): state = history of events on one parameters object built
     by the public constructor with the library's default values; events = setattr(attribute, value) for 2-4 values per
     attribute (legal ones, the legal boundary of a non-strict constraint, one illegal value where a constraint is
     declared, nan on one constrained attribute per class), initialisation(), interlude (USE the object: build the Levy and
     the exponential model from it and evaluate the whole battery; then build, re-assign, initialise and use a SECOND
     object of the same class), copy (continue on copy.deepcopy of the object), pickle (continue on a pickle round trip);
     depth <= 3 (quick) / 4 (thorough).  Canonical state = complete vars() of the object (float.hex) + its public
     parameter values + "initialisation() completed since the last successful assignment" + "has been used" + "is a copy":
     vars() and the public values are the whole state of such an object, so merged states have equal futures.
     invariants on every transition:
       - an illegal value raises ValueError and leaves vars() and the public values unchanged; a legal value is stored,
         reads back, and changes no other parameter (legality = the constraint declared in the class, with the meaning
         given by its error message: positive x>=0, strictly positive x>0, strictly less than 2 x<2; nan satisfies none);
       - the public constructor enforces the same constraints on the assignments it makes (every menu value, the other
         attributes at their start values);
       - initialisation() raises iff the constructor raises for the same values;
       - an interlude changes neither the public values nor (its second half) anything of the object; an object left
         behind by copy / pickle never changes afterwards; a copy holds the same public values;
       - whenever initialisation() has completed since the last assignment (whatever happened before: use, copies ...):
         the object's derived entries equal those of a freshly constructed parameters object with the same values (entries
         are read after both objects have been used in the same way; an entry existing on one side only is noted, not
         judged), its public data attributes (dir(), non-callable) agree, and the Levy model and the exponential model
         built from the updated object give the same observations as those built from the fresh one: levy_exponent at 4
         points, density at 2, mass on 4 intervals, cumulants 1/2/4/6, process_drift, triplet (a, sigma, representation),
         omega, drift, log characteristic function (an observation is a value or the type of the exception raised);
       - at the end of the search the reference of every value combination met is constructed once more and must give the
         observations it gave when first constructed (class-level / module-level memory shows here).

 constraints   every factory of rpylib/tools/parameter.py x an alphabet of values around its bound(s) (the bound and its two
     float neighbours, ordinary values, -0.0, Python ints, numpy scalars, nan, +-inf; for the sequence factories lists,
     tuples, numpy arrays, the empty sequence, sequences holding nan / inf) x assignment route {first assignment, after every
     legal value, inside a constructor, on a deep copy of an instance holding a legal value, on an instance of a subclass,
     while a second instance holds a legal value, on a class with a second constrained attribute of the same factory (bounds
     shifted by 10) assigned before and after}: accepted iff the documented relation holds (nan satisfies no relation);
     rejected with ValueError and the previous value kept; no other instance / attribute / original of the copy changes.

Not a defect by this statement (observed, not asserted): the order of the interval end points (brentq accepts a > b), the
content of utils.default_calibration (the library's own table defines "the default interval"; a difference from the table
in this module is recorded as a note), the value of the default bs_sigma (read from the signature).

Outside the alphabet (statement silent): vector strikes, Product.notional, models built *before* an assignment (they alias
the parameters object), VG nu/theta (no constraint declared: any value is legal; nu = 0 is not probed), HEM eta1 = 1,
intervals leaving the admissible domain of the parameter, the Black-Scholes model as calibration input (it has no
parameters object: every calibration function raises AttributeError), assignments to spot / r / d of an existing
exponential model (no initialisation() exists for them), the constraint properties of classes outside the anchored files
(LevyTriplet.sigma, grid num, copula theta / eta), copy.copy / dill of a bare Parameters object in the assignment search
(deep copy and pickle are events there; the classes define no __copy__ / __reduce__), 1-element arrays as maturity /
market price (the signatures say float).
"""
from __future__ import annotations

import enum
import math
import warnings

import numpy as np

from mc import core

PID = "C20"
LEVEL = "model_checking"
RULE = (
    "complete product family x start set x rates x calibrated parameter x maturity x target x construction route x call form x "
    "argument form (calibration), complete product family x function x one-difference variant x order x models kept / "
    "discarded (neighbouring calibration problems), every valid operation sequence up to the length bound on one scene of re-used / shared / copied models "
    "(calibration histories), complete product family x function x parameter x problem x rebuild route x quote move x {star, chain, "
    "rounded start, other parameter, half interval, input object again} (re-calibration of an already calibrated model), BFS over all assignment / initialisation / use / copy histories up to the depth bound per "
    "Parameters class, complete product factory x value x assignment route (constraints); a case is non-trivial when a "
    "calibration returned and was re-priced on a fresh model or raised and the bracket was examined, or when at least one "
    "updated-vs-fresh model comparison was made; distinct = case dict"
)
ASSUMPTIONS = [
    "existence of a solution is decided by a sign change of the freshly computed objective at the two interval ends "
    "(continuity of the COS price in the parameter); cases without a sign change only require 'returns a repricing value "
    "or raises'",
    "when scipy.brentq rejects the library's 1-element-array objective (TypeError on numpy >= 2.5) the case is reported and "
    "re-run with rpylib.model.utils.COSPricer bound to a subclass whose price() returns float(np.squeeze(price))",
    "legality of an assigned value is the constraint declared in the Parameters class read as its error message states; nan "
    "satisfies no relation",
    "assignment search: 2-4 values per attribute, depth as stated; r=0.02, d=0, spot=100 for the exponential models there",
    "bs_sigma omitted: the volatility requested is the default value written in the signature of the function called",
    "a deep copy and a pickle round trip of a parameters object / of a model are the same parameters / model (the library "
    "deep-copies parameters in its calibration helpers and ships models to worker processes)",
]
CHUNK = 4

FAMILIES = ("hem", "merton", "cgmy", "vg")
XTOL = 2e-12  # scipy.optimize.brentq defaults
RTOL_BRENT = 4 * np.finfo(float).eps

# start parameter sets (first = library defaults of the exponential creators)
STARTS = {
    "hem": [
        {"sigma": 0.05, "p": 0.6, "eta1": 20.0, "eta2": 25.0, "intensity": 3.0},
        {"sigma": 0.0, "p": 0.3, "eta1": 10.0, "eta2": 40.0, "intensity": 5.0},
    ],
    "merton": [
        {"sigma": 0.05, "sigma_j": 0.05, "mu_j": 0.03, "intensity": 3.0},
        {"sigma": 0.0, "sigma_j": 0.1, "mu_j": 0.0, "intensity": 3.0},
    ],
    "cgmy": [
        {"c": 1.0, "g": 15.0, "m": 20.0, "y": 0.5},
        {"c": 0.5, "g": 6.0, "m": 6.0, "y": 1.2},
        # thorough only: the remaining branch classes of y
        {"c": 1.0, "g": 15.0, "m": 20.0, "y": -0.5},
        {"c": 0.1, "g": 5.0, "m": 7.0, "y": 1.0},
        {"c": 1.0, "g": 15.0, "m": 20.0, "y": 0.0},
        # 5-9: the sets the library's scripts calibrate from (see SCRIPT_CGMY)
        {"c": 1.23, "g": 15.0, "m": 20.0, "y": 0.2},
        {"c": 0.019, "g": 2.0, "m": 4.0, "y": 1.2},
        {"c": 0.007, "g": 2.0, "m": 4.0, "y": 1.5},
        {"c": 0.01, "g": 15.0, "m": 20.0, "y": 0.3},
        {"c": 10.0, "g": 15.0, "m": 20.0, "y": 0.5},
    ],
    "vg": [
        {"sigma": 0.1, "nu": 0.06, "theta": 0.1},
        {"sigma": 0.2, "nu": 0.2, "theta": -0.15},
    ],
    "bs": [{"sigma": 0.1}],
}
# (parameter, interval): first entry = utils.default_calibration (checked against the library's table at run time)
CALIB = {
    "hem": [("sigma", (0.0, 1.0)), ("intensity", (0.0, 30.0)), ("eta1", (2.0, 200.0))],
    "merton": [("mu_j", (0.0, 1.0)), ("sigma", (0.0, 1.0)), ("sigma_j", (0.001, 1.0))],
    "cgmy": [("c", (1e-12, 20.0)), ("m", (2.0, 100.0)), ("y", (0.1, 0.9))],
    "vg": [("sigma", (0.00001, 1.0)), ("nu", (0.01, 2.0)), ("theta", (-0.5, 0.5))],
}
PRODUCT_KINDS = [
    ("call", 1.0), ("put", 1.0), ("call", 0.9), ("call", 1.1), ("put", 0.9), ("put", 1.1), ("forward", 1.0),
    ("forward+1", 1.0),
]


def _mt(fam):
    from rpylib.model.levymodel.levymodel import ModelType

    return {"hem": ModelType.HEM, "merton": ModelType.MERTON, "vg": ModelType.VG, "cgmy": ModelType.CGMY,
            "bs": ModelType.BLACKSCHOLES}[fam]


# start sets beyond the first two of STARTS that the library's own scripts calibrate from (scripts/mlmc/tools/utils.py,
# scripts/statistics/ctmc/levy_copula.py): (index in STARTS["cgmy"], spot)
SCRIPT_CGMY = [(5, 100.0), (6, 100.0), (7, 100.0), (8, 80.0), (9, 100.0)]
EXTRA_TV = [(1.0 / 52, 0.2), (1.0 / 12, 0.2), (3.0, 0.2), (1.0, 0.05), (1.0, 0.6), (0.25, None), (1.0, None)]
EXTRA_ENV = [(0.0, 0.0, 1.0), (0.01, 0.04, 80.0)]  # no rates / unit spot; dividend yield above the rate, the scripts' other spot


def cases(tier):
    thorough = tier == "thorough"
    out = []
    # constraint factories first (cheapest)
    for name in CONSTRAINT_FACTORIES:
        out.append({"sub": "constraints", "factory": name})
    # assignment graphs
    depth = 4 if thorough else 3
    for fam in ("bs", "merton", "vg", "hem", "cgmy"):
        n_ev = len(_events(fam))
        if thorough and fam != "bs":
            # split by first event so that the work spreads over the workers; the empty prefix covers depth-1 histories
            out.append({"sub": "assign", "cls": fam, "depth": 1, "prefix": []})
            for i in range(n_ev):
                out.append({"sub": "assign", "cls": fam, "depth": depth - 1, "prefix": [i]})
        else:
            out.append({"sub": "assign", "cls": fam, "depth": depth, "prefix": []})
    # (r, d, spot): thorough = full product; quick = the first triple everywhere, the second (d != 0, r != d) for the
    # default parameter of each type only
    env = [(0.02, 0.0, 100.0), (0.05, 0.02, 100.0)] + ([(0.02, 0.0, 50.0)] if thorough else [])
    Ts = [0.25, 1.0]
    vols = [0.1, 0.2, 0.35]
    for fam in FAMILIES:
        starts = range(5 if fam == "cgmy" else 2) if thorough else range(2)
        for ei, (r, d, spot) in enumerate(env):
            for s in starts:
                for T in Ts:
                    for vol in vols:
                        out.append({"sub": "calib-default", "family": fam, "start": s, "r": r, "d": d, "spot": spot,
                                    "T": T, "vol": vol})
                        for pi in range(len(CALIB[fam])):
                            if pi > 0 and (s >= 2 or (ei > 0 and not thorough)):
                                continue
                            out.append({"sub": "calib-atm", "family": fam, "start": s, "r": r, "d": d, "spot": spot,
                                        "param": pi, "T": T, "vol": vol})
    for fam in FAMILIES:
        for ei, (r, d, spot) in enumerate(env):
            for s in range(2):
                for pi in range(len(CALIB[fam]) if thorough else 1):
                    for T in Ts:
                        for frac in (0.3, 0.7):
                            if ei > 0 and not thorough and frac != 0.3:
                                continue
                            for kind, k in PRODUCT_KINDS:
                                if kind.startswith("forward") and frac != 0.3:
                                    continue
                                out.append({"sub": "calib-product", "family": fam, "start": s, "r": r, "d": d,
                                            "spot": spot, "param": pi, "T": T, "kind": kind, "k": k, "frac": frac})
    # ---- rarely used options and construction routes (fields absent from a case dict mean: route ctor, keyword call,
    #      interval given as an increasing tuple)
    r, d, spot = env[0]
    base = {"r": r, "d": d, "spot": spot}
    for fam in FAMILIES:
        n_par = len(CALIB[fam])
        # other maturities / volatilities / bs_sigma omitted
        tv = [(T, v) for T in [1.0 / 365, 1.0 / 52, 1.0 / 12, 0.25, 1.0, 3.0, 10.0] for v in [0.05, 0.2, 0.6, None]
              if not (T in Ts and v == 0.2)] if thorough else EXTRA_TV
        for s in (range(2) if thorough else range(1)):
            for T, vol in tv:
                out.append(dict(base, sub="calib-default", family=fam, start=s, T=T, vol=vol))
                for pi in range(n_par if thorough else 1):
                    out.append(dict(base, sub="calib-atm", family=fam, start=s, param=pi, T=T, vol=vol))
        # the input model reached by another public route
        for route in ROUTES[1:]:
            for s in (range(2) if thorough else range(1)):
                for T in Ts:
                    out.append(dict(base, sub="calib-default", family=fam, start=s, T=T, vol=0.2, route=route))
                    for pi in range(n_par if thorough else 2):
                        if not thorough and pi > 0 and T != 1.0:
                            continue
                        out.append(dict(base, sub="calib-atm", family=fam, start=s, param=pi, T=T, vol=0.2, route=route))
                out.append(dict(base, sub="calib-product", family=fam, start=s, param=0, T=0.25, kind="put", k=1.1, frac=0.3,
                                route=route))
        # other market data
        for (r2, d2, spot2) in EXTRA_ENV:
            b2 = {"r": r2, "d": d2, "spot": spot2}
            for T in Ts:
                out.append(dict(b2, sub="calib-default", family=fam, start=0, T=T, vol=0.2))
                out.append(dict(b2, sub="calib-atm", family=fam, start=0, param=n_par - 1, T=T, vol=0.2))
            out.append(dict(b2, sub="calib-product", family=fam, start=0, param=0, T=0.25, kind="put", k=1.1, frac=0.3))
            out.append(dict(b2, sub="calib-product", family=fam, start=0, param=0, T=0.25, kind="call", k=0.9, frac=0.7))
        # call forms: positional arguments, the interval as a list / in decreasing order, an unsupported product
        for T in (Ts if thorough else [0.25]):
            out.append(dict(base, sub="calib-default", family=fam, start=0, T=T, vol=0.2, form="positional"))
            out.append(dict(base, sub="calib-default", family=fam, start=0, T=T, vol=None, form="positional"))
            out.append(dict(base, sub="calib-atm", family=fam, start=0, param=0, T=T, vol=0.2, form="positional"))
            out.append(dict(base, sub="calib-product", family=fam, start=0, param=0, T=T, kind="put", k=1.1, frac=0.3,
                            form="positional"))
            for pi in range(n_par):
                for iform in ("list", "reversed"):
                    out.append(dict(base, sub="calib-atm", family=fam, start=0, param=pi, T=T, vol=0.2, interval_form=iform))
            out.append(dict(base, sub="calib-product", family=fam, start=0, param=0, T=T, kind="unsupported", k=1.0, frac=0.3))
    # the start sets of the library's scripts, called as the scripts call (maturity 3/12, bs_sigma omitted), and at T = 1
    for s, spot2 in SCRIPT_CGMY:
        for T, vol in [(0.25, None), (1.0, 0.2)]:
            out.append({"sub": "calib-default", "family": "cgmy", "start": s, "r": 0.02, "d": 0.0, "spot": spot2, "T": T,
                        "vol": vol})
            if thorough:
                for route in ROUTES[1:]:
                    out.append({"sub": "calib-default", "family": "cgmy", "start": s, "r": 0.02, "d": 0.0, "spot": spot2,
                                "T": T, "vol": vol, "route": route})
    if not thorough:
        # the remaining branch classes of the CGMY exponent (y < 0, y = 1, y = 0: exact ties of the comparisons in cgmy.py)
        for s in (2, 3, 4):
            out.append(dict(base, sub="calib-default", family="cgmy", start=s, T=1.0, vol=0.2))
            out.append(dict(base, sub="calib-atm", family="cgmy", start=s, param=1, T=1.0, vol=0.2))
            out.append(dict(base, sub="calib-product", family="cgmy", start=s, param=0, T=0.25, kind="put", k=1.1, frac=0.3))
    # exact ties: the solution is an end point of the interval (market price = price at x* = a / b)
    for fam in FAMILIES:
        for pi in range(len(CALIB[fam]) if thorough else 1):
            for frac in (0.0, 1.0):
                for kind, k in ([("call", 1.0), ("put", 1.1)] if not thorough else PRODUCT_KINDS[:6]):
                    out.append(dict(base, sub="calib-product", family=fam, start=0, param=pi, T=0.25, kind=kind, k=k, frac=frac))
    # other legal forms of the arguments (same problem as the usual form: T = 1, volatility 0.2, first market data)
    for fam in FAMILIES:
        for aform in ARG_FORMS:
            out.append(dict(base, sub="calib-default", family=fam, start=0, T=1.0, vol=0.2, arg_form=aform))
            for pi in range(len(CALIB[fam]) if thorough else 2):
                out.append(dict(base, sub="calib-atm", family=fam, start=0, param=pi, T=1.0, vol=0.2, arg_form=aform))
            out.append(dict(base, sub="calib-product", family=fam, start=0, param=0, T=1.0, kind="put", k=1.1, frac=0.3,
                            arg_form=aform))
    # two calibration problems that differ in exactly ONE thing, solved one after the other
    for fam in FAMILIES:
        out.extend(_neighbour_cases(fam, thorough))
    # histories of calibrations on re-used / shared / copied models
    for fam in FAMILIES:
        for seq in _history_cases(tier):
            out.append({"sub": "calib-history", "family": fam, "ops": seq})
    # re-calibrations: the start model is (almost) calibrated already
    for fam in FAMILIES:
        out.extend(_recal_cases(fam, thorough))
    return out


def check_case(sh, case):
    with warnings.catch_warnings():
        warnings.simplefilter("ignore")
        with np.errstate(all="ignore"):
            globals()["_sub_" + case["sub"].replace("-", "_")](sh, case)


# ----------------------------------------------------------------------------------------------------------------------
# generic helpers: snapshots, observations, comparisons
# ----------------------------------------------------------------------------------------------------------------------

def snap(x, _seen=None):
    """Deep, hashable, bit-exact snapshot of everything reachable from x through __dict__, containers and arrays."""
    if _seen is None:
        _seen = set()
    if x is None or isinstance(x, (bool, str)):
        return x
    if isinstance(x, enum.Enum):
        return ("enum", type(x).__name__, x.name)
    if isinstance(x, (int,)):
        return ("i", int(x))
    if isinstance(x, float):
        return ("f", float(x).hex())
    if isinstance(x, complex):
        return ("c", float(x.real).hex(), float(x.imag).hex())
    if isinstance(x, np.generic):
        return snap(x.item(), _seen)
    if isinstance(x, np.ndarray):
        return ("a", x.shape, tuple(snap(v, _seen) for v in x.ravel().tolist()))
    if isinstance(x, dict):
        return ("d", tuple(sorted(((repr(k), snap(v, _seen)) for k, v in x.items()), key=lambda kv: kv[0])))
    if isinstance(x, (list, tuple)):
        return ("l", tuple(snap(v, _seen) for v in x))
    if isinstance(x, (set, frozenset)):
        return ("s", tuple(sorted(repr(snap(v, _seen)) for v in x)))
    if callable(x) and not hasattr(x, "__dict__"):
        return ("callable", getattr(x, "__qualname__", type(x).__name__))
    if hasattr(x, "__func__") or isinstance(x, type) or type(x).__name__ in ("function", "builtin_function_or_method", "method"):
        return ("callable", getattr(x, "__qualname__", type(x).__name__))
    if hasattr(x, "__dict__"):
        if id(x) in _seen:
            return ("ref", type(x).__name__)
        _seen.add(id(x))
        d = dict(vars(x))
        d.update(_settable_properties(x))
        return ("o", type(x).__name__, snap(d, _seen))
    return ("repr", repr(x))


def _settable_properties(x):
    """Public values read through the class's settable properties (the constraint properties of tools/parameter.py are
    such): part of the state of an object wherever the library happens to keep them (instance dict, descriptor, ...)."""
    out = {}
    for klass in type(x).__mro__:
        for name, attr in vars(klass).items():
            key = "<property> " + name
            if isinstance(attr, property) and attr.fset is not None and key not in out:
                try:
                    out[key] = getattr(x, name)
                except Exception as e:  # never assigned yet
                    out[key] = "<raises " + type(e).__name__ + ">"
    return out


def snap_diff(a, b, path="", out=None, limit=6):
    """Paths at which two snapshots differ (for the report)."""
    if out is None:
        out = []
    if len(out) >= limit or a == b:
        return out
    if isinstance(a, tuple) and isinstance(b, tuple) and len(a) == len(b) and a[:1] == b[:1] and a and a[0] in ("o", "d", "l", "a"):
        if a[0] == "o":
            if a[1] != b[1]:
                out.append(f"{path}: class {a[1]} -> {b[1]}")
            else:
                snap_diff(a[2], b[2], path + "<" + a[1] + ">", out, limit)
            return out
        if a[0] == "d":
            da, db = dict(a[1]), dict(b[1])
            for k in sorted(set(da) | set(db)):
                if da.get(k) != db.get(k):
                    snap_diff(da.get(k), db.get(k), path + "." + k.strip("'"), out, limit)
            return out
        if a[0] == "l" and len(a[1]) == len(b[1]):
            for i, (u, v) in enumerate(zip(a[1], b[1])):
                snap_diff(u, v, f"{path}[{i}]", out, limit)
            return out
    out.append(f"{path}: {_pretty(a)} -> {_pretty(b)}")
    return out


def _pretty(s):
    if isinstance(s, tuple) and s and s[0] == "f":
        return repr(float.fromhex(s[1]))
    if isinstance(s, tuple) and s and s[0] == "i":
        return repr(s[1])
    return repr(s)[:120]


def _num_equal(x, y, rtol=1e-9):
    """Equality of two observed values: numbers within rtol (nan = nan, equal infinities), everything else exactly."""
    if isinstance(x, (tuple, list)) and isinstance(y, (tuple, list)):
        return len(x) == len(y) and all(_num_equal(u, v, rtol) for u, v in zip(x, y))
    if isinstance(x, (bool, str)) or isinstance(y, (bool, str)) or x is None or y is None:
        return x == y
    try:
        cx, cy = complex(x), complex(y)
    except Exception:
        return x == y
    for u, v in ((cx.real, cy.real), (cx.imag, cy.imag)):
        if math.isnan(u) or math.isnan(v):
            if not (math.isnan(u) and math.isnan(v)):
                return False
            continue
        if math.isinf(u) or math.isinf(v):
            if u != v:
                return False
            continue
        scale = max(abs(cx), abs(cy))
        if not math.isfinite(scale):  # the other part is nan/inf (compared on its own): scale by this part only
            scale = max(abs(u), abs(v))
        if not core.close(u, v, rtol=rtol, atol=0.0, scale=scale):
            return False
    return True


def _obs(fn):
    try:
        v = fn()
    except Exception as e:  # an observation is a value or the type of the exception
        return ("raises", type(e).__name__)
    if isinstance(v, np.ndarray):
        v = v.tolist()
    if isinstance(v, np.generic):
        v = v.item()
    if isinstance(v, enum.Enum):
        v = v.name
    return ("value", v)


def _obs_equal(a, b):
    if a[0] != b[0]:
        return False
    if a[0] == "raises":
        return a[1] == b[1]
    return _num_equal(a[1], b[1])


ATTRS = {
    "hem": ["sigma", "p", "eta1", "eta2", "intensity"],
    "merton": ["sigma", "mu_j", "sigma_j", "intensity"],
    "vg": ["sigma", "nu", "theta"],
    "cgmy": ["c", "g", "m", "y"],
    "bs": ["sigma"],
}
U_POINTS = [0.4, -1.3, 4.0, -1j]
MASS_INTERVALS = [(-math.inf, -0.3), (-0.3, -0.01), (0.01, 0.3), (0.3, math.inf)]


def _classes(fam):
    from rpylib.model import utils as U

    return U.models_description[_mt(fam)]


def make_parameters(fam, values):
    return _classes(fam).parameters(**{k: values[k] for k in ATTRS[fam]})


def make_exp_model(fam, values, r, d, spot):
    """A model constructed directly with the final values (the reference of the statement)."""
    cl = _classes(fam)
    return cl.exponential_of_levy_model(spot=spot, r=r, d=d, parameters=make_parameters(fam, values))


def param_values(fam, parameters):
    return {k: getattr(parameters, k) for k in ATTRS[fam]}


def derived_fields(fam, parameters):
    return {k: v for k, v in vars(parameters).items() if k not in ATTRS[fam]}


def observe_models(fam, parameters, r=0.02, d=0.0, spot=100.0):
    """Observations of the Levy model and of the exponential model built from `parameters` (a Parameters object)."""
    cl = _classes(fam)
    obs = {}
    models = {}
    if fam != "bs":
        try:
            models["levy"] = cl.levy_model(parameters=parameters)
        except Exception as e:
            obs["levy:construct"] = ("raises", type(e).__name__)
    try:
        models["exp"] = cl.exponential_of_levy_model(spot=spot, r=r, d=d, parameters=parameters)
    except Exception as e:
        obs["exp:construct"] = ("raises", type(e).__name__)
    for tag, m in models.items():
        lm = getattr(m, "levy_model", m)
        for u in U_POINTS:
            obs[f"{tag}:levy_exponent({u})"] = _obs(lambda: complex(lm.levy_exponent(u)))
        nu = m.levy_triplet.nu
        for x in (-0.1, 0.2):
            obs[f"{tag}:density({x})"] = _obs(lambda: float(nu(x)))
        for (a, b) in MASS_INTERVALS:
            obs[f"{tag}:mass({a},{b})"] = _obs(lambda: float(m.mass(a, b)))
        for n in (1, 2, 4, 6):
            obs[f"{tag}:cumulant{n}"] = _obs(lambda: float(getattr(m.cumulant, f"cumulant{n}")(1.0)))
        obs[f"{tag}:process_drift"] = _obs(lambda: float(m.process_drift()))
        obs[f"{tag}:triplet.a"] = _obs(lambda: float(m.levy_triplet.a))
        obs[f"{tag}:triplet.sigma"] = _obs(lambda: float(m.levy_triplet.sigma))
        obs[f"{tag}:representation"] = _obs(lambda: m.levy_triplet.representation)
        obs[f"{tag}:intensity"] = _obs(lambda: float(m.intensity()))
        if tag == "exp":
            obs["exp:omega"] = _obs(lambda: float(m.omega))
            obs["exp:drift"] = _obs(lambda: float(m.drift()))
            obs["exp:logcf(1,0.7)"] = _obs(lambda: complex(m.log_characteristic_function(1.0, 0.7)))
            obs["exp:mean(1)"] = _obs(lambda: float(m.mean(1.0)))
    # the derived entries are read AFTER the object has been used, on the updated object and on the fresh one alike: an
    # entry that is filled on first use is then filled on both sides
    # every public data attribute of the parameters object, however it is provided (instance entry, property, ...)
    for k in sorted(n for n in dir(parameters) if not n.startswith("_")):
        try:
            v = getattr(parameters, k)
        except Exception as e:
            obs["public:" + k] = ("raises", type(e).__name__)
            continue
        if not callable(v):
            obs["public:" + k] = _obs(lambda v=v: v)
    for k, v in sorted(derived_fields(fam, parameters).items()):
        obs["field:" + k] = _obs(lambda v=v: v)
    return obs


OBS_T = 0.5  # maturity of the two COS prices observed on an existing exponential model


def observe_exp_model(fam, m):
    """Observations made directly on an EXISTING exponential model object (nothing is rebuilt): what a user of that model
    sees.  Used to decide whether a model that a calibration was given still behaves like a model constructed directly
    with the values it was built from."""
    from rpylib.numerical.cosmethod import COSPricer

    obs = {}
    lm = m.levy_model
    for k in ATTRS[fam]:
        obs["parameter:" + k] = _obs(lambda k=k: getattr(lm.parameters, k))
    for k in ("spot", "r", "d"):
        obs["market:" + k] = _obs(lambda k=k: float(getattr(m, k)))
    for u in U_POINTS:
        obs[f"levy_exponent({u})"] = _obs(lambda: complex(lm.levy_exponent(u)))
    for x in (-0.1, 0.2):
        obs[f"density({x})"] = _obs(lambda: float(m.levy_triplet.nu(x)))
    for (a, b) in MASS_INTERVALS:
        obs[f"mass({a},{b})"] = _obs(lambda: float(m.mass(a, b)))
    for n in (1, 2, 4):
        obs[f"cumulant{n}"] = _obs(lambda: float(getattr(m.cumulant, f"cumulant{n}")(1.0)))
    obs["process_drift"] = _obs(lambda: float(m.process_drift()))
    obs["omega"] = _obs(lambda: float(m.omega))
    obs["drift"] = _obs(lambda: float(m.drift()))
    obs["logcf(1,0.7)"] = _obs(lambda: complex(m.log_characteristic_function(1.0, 0.7)))
    obs["mean(1)"] = _obs(lambda: float(m.mean(1.0)))
    spot = obs["market:spot"][1] if obs["market:spot"][0] == "value" else 100.0
    obs["cos:call(atm)"] = _obs(lambda: float(np.squeeze(COSPricer(m).price(product=make_product("call", spot, OBS_T)))))
    obs["cos:put(0.9)"] = _obs(lambda: float(np.squeeze(COSPricer(m).price(product=make_product("put", 0.9 * spot, OBS_T)))))
    return obs


# parameter values that differ from every start set in EVERY entry (second objects, "reinit" route)
DONOR = {
    "hem": {"sigma": 0.11, "p": 0.45, "eta1": 33.0, "eta2": 17.0, "intensity": 1.7},
    "merton": {"sigma": 0.13, "sigma_j": 0.07, "mu_j": 0.05, "intensity": 1.3},
    "cgmy": {"c": 0.37, "g": 9.0, "m": 11.0, "y": 0.8},
    "vg": {"sigma": 0.17, "nu": 0.33, "theta": -0.07},
    "bs": {"sigma": 0.23},
}
ROUTES = ("ctor", "creator", "reinit", "deepcopy", "pickle", "calibrated", "copy", "dill")


def make_exp_model_via(route, fam, values, r, d, spot):
    """(model, values): an exponential model holding `values`, reached by one of the public construction routes.
      ctor        Parameters(**values) handed to the model constructor (the reference route)
      creator     utils.create_exponential_of_levy_model(type)(spot=, r=, d=, **values)
      reinit      a Parameters object built with other values (DONOR), every attribute re-assigned, initialisation(), then the
                  model constructor: what calibrate_model_parameter / run_default_calibration do
      deepcopy    copy.deepcopy of a ctor model;   pickle / dill   round trip of a ctor model (what a worker pool receives)
      copy        copy.copy of a ctor model (shares the Levy model and the parameters object of the discarded original)
      calibrated  the model RETURNED by run_default_calibration(ctor model, maturity 0.5, volatility 0.25): calibrating again
                  from a calibrated model; `values` are then read from the returned model (its public parameter values)"""
    import copy
    import pickle

    from rpylib.model import utils as U

    if route == "ctor":
        return make_exp_model(fam, values, r, d, spot), dict(values)
    if route == "creator":
        return U.create_exponential_of_levy_model(_mt(fam))(spot=spot, r=r, d=d, **values), dict(values)
    if route == "reinit":
        p = make_parameters(fam, DONOR[fam])
        for k in ATTRS[fam]:
            setattr(p, k, values[k])
        p.initialisation()
        return _classes(fam).exponential_of_levy_model(spot=spot, r=r, d=d, parameters=p), dict(values)
    if route == "deepcopy":
        return copy.deepcopy(make_exp_model(fam, values, r, d, spot)), dict(values)
    if route == "pickle":
        return pickle.loads(pickle.dumps(make_exp_model(fam, values, r, d, spot))), dict(values)
    if route == "copy":
        return copy.copy(make_exp_model(fam, values, r, d, spot)), dict(values)
    if route == "dill":
        import dill

        return dill.loads(dill.dumps(make_exp_model(fam, values, r, d, spot))), dict(values)
    if route == "calibrated":
        cm = U.run_default_calibration(model=make_exp_model(fam, values, r, d, spot), maturity=0.5, bs_sigma=0.25)
        return cm, param_values(fam, cm.levy_model.parameters)
    raise ValueError(route)


def _obs_name_class(name):
    """Stable component name of an observation for the violation key (no floats)."""
    return name.split("(")[0]


# ----------------------------------------------------------------------------------------------------------------------
# constraints
# ----------------------------------------------------------------------------------------------------------------------

# factory name -> (arguments, relation as documented by the error message, kind)
CONSTRAINT_FACTORIES = {
    "positive": ((), lambda x: x >= 0, "scalar"),
    "negative": ((), lambda x: x <= 0, "scalar"),
    "strictly_positive": ((), lambda x: x > 0, "scalar"),
    "strictly_negative": ((), lambda x: x < 0, "scalar"),
    "greater_than": ((1.5,), lambda x: x >= 1.5, "scalar"),
    "strictly_greater_than": ((1.5,), lambda x: x > 1.5, "scalar"),
    "less_than": ((2.0,), lambda x: x <= 2.0, "scalar"),
    "strictly_less_than": ((2.0,), lambda x: x < 2.0, "scalar"),
    "between": ((-1.0, 2.0), lambda x: -1.0 <= x <= 2.0, "scalar"),
    "strictly_between": ((-1.0, 2.0), lambda x: -1.0 < x < 2.0, "scalar"),
    "positive_sequence": ((), lambda s: all(x >= 0 for x in s), "sequence"),
    "negative_sequence": ((), lambda s: all(x <= 0 for x in s), "sequence"),
    "strictly_positive_sequence": ((), lambda s: all(x > 0 for x in s), "sequence"),
    "strictly_negative_sequence": ((), lambda s: all(x < 0 for x in s), "sequence"),
}


NAN, INF = math.nan, math.inf


def _constraint_values(args, kind):
    """Values around the bound(s) (the bound, its two neighbours in float), ordinary values, the signed zeros, Python ints,
    numpy scalars and the non-finite values."""
    pts = {0.0, -1.0, 1.0, 3.0, -3.0}
    for b in args + (0.0,):
        pts |= {b, float(np.nextafter(b, math.inf)), float(np.nextafter(b, -math.inf))}
    pts = sorted(pts)
    if kind == "scalar":
        extra = [-0.0, 0, 1, -1, 2, 3, np.float64(args[0] if args else 0.0), np.float64(0.25), np.float64(-0.25), NAN, INF, -INF]
        return pts + extra
    base = [-1.0, 0.0, 1.0]
    seqs = [[a] for a in base] + [[a, b] for a in base for b in base] + [[]]
    seqs += [(1.0, -1.0), (1.0, 2.0), (-1.0, -2.0), np.array([1.0, 0.0]), np.array([-1.0, -2.0]), np.array([2.0, -1.0]),
             [NAN], [1.0, NAN], [-1.0, NAN], [INF], [-INF], [-0.0], [0, 1], [-1, 0]]
    return seqs


def _where(val, args, kind):
    if kind != "scalar":
        return "off-the-bound"
    if isinstance(val, float) and not math.isfinite(val):
        return "non-finite"
    return "on-the-bound" if val in args + ((0.0,) if not args else ()) else "off-the-bound"


def _same(a, b):
    if a is b:
        return True
    try:
        return bool(np.all(np.asarray(a == b)))
    except Exception:
        return False


def _snap_vars(o):
    try:
        return snap(dict(vars(o), **_settable_properties(o)))
    except Exception:
        return repr(vars(o))


CONSTRAINT_ROUTES = ("first-assignment", "after-a-legal-assignment", "constructor", "on-a-deep-copy", "on-a-subclass-instance",
                     "with-a-second-instance", "with-a-second-constrained-attribute")


def _second_factory(P, name, args):
    """The same factory once more, with shifted bounds where it has any: a class with two constrained attributes."""
    fac = getattr(P, name)
    if args:
        fac = fac(*[a + 10.0 for a in args])
    return fac, (lambda v: v + 10.0)


def _sub_constraints(sh, case):
    """Every factory x value x assignment route: accepted iff the documented relation holds, a rejected value raises
    ValueError and changes nothing - neither on the object assigned to nor on another instance / another constrained
    attribute / the original of a deep copy."""
    import copy

    from rpylib.tools import parameter as P

    name = case["factory"]
    args, rel, kind = CONSTRAINT_FACTORIES[name]
    fac = getattr(P, name)
    if args:
        fac = fac(*args)
    cls = type("Scratch", (), {"v": fac("v")})

    def ctor_init(self, v):
        self.v = v

    cls_ctor = type("ScratchCtor", (), {"v": fac("v"), "__init__": ctor_init})
    cls_sub = type("ScratchSub", (cls,), {})
    fac2, shift = _second_factory(P, name, args)
    cls_two = type("ScratchTwo", (), {"v": fac("v"), "w": fac2("w")})
    values = _constraint_values(args, kind)
    legal_values = [v for v in values if rel(v)]
    legal0 = legal_values[0]
    # a legal value of the second attribute (bounds shifted by 10 for the parametrised factories)
    if kind == "scalar":
        # (only values whose shift is exact: the float neighbours of a bound lose their ulp when 10 is added)
        w_legal = [shift(v) if args else v for v in legal_values
                   if isinstance(v, float) and math.isfinite(v) and (not args or shift(v) - 10.0 == v and v in (-3.0, -1.0, 0.0, 1.0, 3.0) + args)][:2]
    else:
        w_legal = legal_values[:2]
    outcomes = []

    def judge(route, o, val, exc, before, first=None, bystanders=()):
        sh.count("evaluations")
        legal = bool(rel(val))
        where = _where(val, args, kind)
        suffix = "" if route in CONSTRAINT_ROUTES[:2] else ":" + route
        detail = {"value": repr(val), "previous": repr(first), "route": route}
        if legal:
            if exc is not None:
                sh.violation(f"C20:constraints:{name}:legal-value-rejected:{where}{suffix}",
                             f"{name}{args}: {val!r} satisfies the documented relation but assigning it raised {exc!r} ({route})",
                             detail)
            elif o is not None and not (_same(vars(o).get("v", o.v), val) and _same(o.v, val)):
                sh.violation(f"C20:constraints:{name}:assignment-not-stored{suffix}",
                             f"{name}{args}: assigned {val!r}, reads {o.v!r} ({route})", detail)
        else:
            if exc is None:
                sh.violation(f"C20:constraints:{name}:illegal-value-accepted:{where}{suffix}",
                             f"{name}{args}: {val!r} violates the documented relation but was stored ({route})", detail)
            else:
                if not isinstance(exc, ValueError):
                    sh.violation(f"C20:constraints:{name}:illegal-value-wrong-exception:{type(exc).__name__}{suffix}",
                                 f"{name}{args}: assigning {val!r} raised {exc!r} instead of ValueError ({route})", detail)
                if o is not None and _snap_vars(o) != before:
                    sh.violation(f"C20:constraints:{name}:illegal-assignment-changed-state{suffix}",
                                 f"{name}{args}: rejected value {val!r} changed the instance from {before} to {_snap_vars(o)} "
                                 f"({route})", detail)
        for label, other, snap_before in bystanders:
            sh.count("evaluations")
            if _snap_vars(other) != snap_before:
                sh.violation(f"C20:constraints:{name}:assignment-changed-another-object:{label}",
                             f"{name}{args}: assigning {val!r} ({'accepted' if exc is None else 'rejected'}, {route}) changed "
                             f"{label} from {snap_before} to {_snap_vars(other)}", detail)
        outcomes.append((route, repr(val), exc is None))

    def assign(o, attr, val):
        try:
            setattr(o, attr, val)
        except Exception as e:
            return e
        return None

    # routes 1, 2: plain setattr on a new instance, first assignment / after every legal value
    for first in [None] + legal_values:
        for val in values:
            o = cls()
            if first is not None:
                e = assign(o, "v", first)
                if e is not None:
                    sh.violation(f"C20:constraints:{name}:legal-value-rejected", f"{name}{args}: assigning {first!r} raised {e!r}",
                                 {"value": repr(first)})
                    continue
            before = _snap_vars(o)
            exc = assign(o, "v", val)
            judge(CONSTRAINT_ROUTES[0] if first is None else CONSTRAINT_ROUTES[1], o, val, exc, before, first)
    for val in values:
        # constructor: the assignment is made by __init__
        o, exc = None, None
        try:
            o = cls_ctor(val)
        except Exception as e:
            exc = e
        judge("constructor", o, val, exc, None)
        # deep copy of an instance holding a legal value: the copy enforces the constraint, the original is not touched
        orig = cls()
        if assign(orig, "v", legal0) is None:
            o = copy.deepcopy(orig)
            s_orig = _snap_vars(orig)
            before = _snap_vars(o)
            if before != s_orig:
                sh.violation(f"C20:constraints:{name}:deep-copy-differs", f"{name}{args}: deep copy {before}, original {s_orig}", None)
            exc = assign(o, "v", val)
            judge("on-a-deep-copy", o, val, exc, before, legal0, [("the-original-of-the-deep-copy", orig, s_orig)])
        # instance of a subclass
        o = cls_sub()
        before = _snap_vars(o)
        exc = assign(o, "v", val)
        judge("on-a-subclass-instance", o, val, exc, before)
        # a second instance of the same class holds a legal value
        o1 = cls()
        if assign(o1, "v", legal0) is None:
            s1 = _snap_vars(o1)
            o = cls()
            before = _snap_vars(o)
            exc = assign(o, "v", val)
            judge("with-a-second-instance", o, val, exc, before, None, [("another-instance", o1, s1)])
        # a second constrained attribute on the same object, assigned before and after
        for wv in w_legal:
            o = cls_two()
            e = assign(o, "w", wv)
            if e is not None:
                sh.violation(f"C20:constraints:{name}:legal-value-rejected:second-attribute",
                             f"{name}: second attribute (bounds shifted by 10) rejected {wv!r}: {e!r}", None)
                continue
            before = _snap_vars(o)
            exc = assign(o, "v", val)
            judge("with-a-second-constrained-attribute", o, val, exc, before, None)
            sh.count("evaluations")
            if not _same(o.w, wv):
                sh.violation(f"C20:constraints:{name}:assignment-changed-another-attribute",
                             f"{name}{args}: assigning v = {val!r} changed w from {wv!r} to {o.w!r}", None)
            if exc is None:
                v_now = o.v
                e = assign(o, "w", w_legal[0])
                sh.count("evaluations")
                if e is not None or not _same(o.v, v_now) or not _same(o.w, w_legal[0]):
                    sh.violation(f"C20:constraints:{name}:assignment-changed-another-attribute",
                                 f"{name}{args}: after v = {val!r}, w = {w_legal[0]!r}: raised {e!r}, v reads {o.v!r}, w reads {o.w!r}",
                                 None)
    sh.outcome((name, tuple(outcomes)))
    sh.cls("constraint:" + name)
    for route in CONSTRAINT_ROUTES:
        sh.cls("constraint-route:" + route)
    sh.nontriv()


# ----------------------------------------------------------------------------------------------------------------------
# assignment graph
# ----------------------------------------------------------------------------------------------------------------------

# declared constraint per attribute (read from the class bodies) and the value menu: legal values, then illegal ones
DECLARED = {
    "hem": {"sigma": "positive", "p": "strictly_positive", "eta1": "strictly_positive", "eta2": "strictly_positive",
            "intensity": "positive"},
    "merton": {"sigma": "positive", "mu_j": "positive", "sigma_j": "strictly_positive", "intensity": "positive"},
    "vg": {"sigma": "positive", "nu": None, "theta": None},
    "cgmy": {"c": "strictly_positive", "g": "positive", "m": "positive", "y": "strictly_less_than_2"},
    "bs": {"sigma": "positive"},
}
LEGAL = {
    "positive": lambda x: x >= 0,
    "strictly_positive": lambda x: x > 0,
    "strictly_less_than_2": lambda x: x < 2.0,
    None: lambda x: True,
}
MENU = {
    "hem": {"sigma": [0.0, 0.2, -0.01, "nan"], "p": [0.3, 0.0], "eta1": [10.0, 0.0], "eta2": [40.0, -5.0],
            "intensity": [0.0, 5.0, -1.0]},
    "merton": {"sigma": [0.0, 0.2, -0.01], "mu_j": [0.0, 0.1, -0.02], "sigma_j": [0.1, 0.0, "nan"], "intensity": [0.0, 5.0, -1.0]},
    "vg": {"sigma": [0.2, 0.0, -0.1, "nan"], "nu": [0.2, 0.5], "theta": [-0.15, 0.0]},
    "cgmy": {"c": [0.5, 0.0], "g": [5.0, 0.0, -1.0], "m": [7.0, 0.0, -1.0], "y": [1.2, -0.5, 2.0, "nan"]},
    "bs": {"sigma": [0.0, 0.3, -0.1, "nan"]},
}


def _val(v):
    """Menu values are JSON-able; the non-finite one is written as a string."""
    return float(v) if isinstance(v, str) else v


def _events(fam):
    ev = []
    for a in ATTRS[fam]:
        for v in MENU[fam][a]:
            ev.append(["set", a, v])
    ev.append(["init"])
    # operations that must not change what the object is: using it (and a second object of its class) in between,
    # continuing on a deep copy / on a pickle round trip of it
    ev.append(["interlude"])
    ev.append(["copy"])
    ev.append(["pickle"])
    return ev


class _PState:
    __slots__ = ("obj", "flag", "used", "copied", "last", "retired")

    def __init__(self, obj):
        self.obj = obj
        self.flag = True  # the constructor has just computed the derived entries
        self.used = False  # models have been built from the object and evaluated (interlude)
        self.copied = False  # the object is a deep copy / pickle round trip of the one the history started on
        self.last = None  # record of the last event
        self.retired = []  # (object left behind by copy / pickle, its snapshot at that time)


def _public(fam, o):
    out = {}
    for k in ATTRS[fam]:
        try:
            out[k] = getattr(o, k)
        except Exception as e:
            out[k] = "<raises " + type(e).__name__ + ">"
    return out


def _apply(st, ev, fam):
    import copy
    import pickle

    o = st.obj
    before = dict(vars(o))
    public_before = _public(fam, o)
    exc = None
    extra = {}
    if ev[0] == "init":
        try:
            o.initialisation()
        except Exception as e:
            exc = e
        st.flag = exc is None
    elif ev[0] == "set":
        try:
            setattr(o, ev[1], _val(ev[2]))
        except Exception as e:
            exc = e
        if exc is None:
            st.flag = False
    elif ev[0] == "interlude":
        # use the object: build the Levy model and the exponential model from it and evaluate everything ...
        try:
            observe_models(fam, o)
        except Exception as e:
            exc = e
        extra["state_after_use"] = (_snap_vars(o), _public(fam, o))
        # ... then build, re-assign, re-initialise and use a SECOND object of the same class
        try:
            p2 = make_parameters(fam, DONOR[fam])
            twin = STARTS[fam][-1]
            for k in ATTRS[fam]:
                setattr(p2, k, twin[k])
            p2.initialisation()
            observe_models(fam, p2)
        except Exception as e:
            extra["second_object_raised"] = repr(e)
        st.used = True
    elif ev[0] in ("copy", "pickle"):
        try:
            new = copy.deepcopy(o) if ev[0] == "copy" else pickle.loads(pickle.dumps(o))
        except Exception as e:
            exc = e
        else:
            st.retired.append((o, _snap_vars(o)))
            st.obj = new
            st.copied = True
    st.last = {"ev": ev, "exc": exc, "before": before, "after": dict(vars(o)), "public_before": public_before,
               "public_after": _public(fam, o), "extra": extra}


def _sub_assign(sh, case):
    fam = case["cls"]
    base = STARTS[fam][0]
    events = _events(fam)
    prefix = [events[i] for i in case["prefix"]]
    fresh_cache = {}

    def fresh_obs(values_key):
        if values_key not in fresh_cache:
            values = dict(values_key)
            try:
                p = make_parameters(fam, values)
            except Exception as e:
                fresh_cache[values_key] = ("raises", type(e).__name__)
            else:
                fresh_cache[values_key] = ("ok", observe_models(fam, p))
        return fresh_cache[values_key]

    def build(hist):
        st = _PState(make_parameters(fam, base))
        for ev in prefix + hist:
            _apply(st, ev, fam)
        return st

    def menu(st, hist):
        return events

    def canon(st, hist):
        return (snap(vars(st.obj)), snap(_public(fam, st.obj)), st.flag, st.used, st.copied)

    def report(key, what, hist, detail=None):
        sh.violation(key, what, {"history": prefix + hist, "detail": detail})

    def constructor_route():
        """Every menu value handed to the public constructor (the other attributes at their start values): the constraint
        is enforced on the assignments the constructor makes."""
        for attr in ATTRS[fam]:
            for v in MENU[fam][attr]:
                val = _val(v)
                legal = LEGAL[DECLARED[fam][attr]](val)
                exc = None
                try:
                    p = make_parameters(fam, dict(base, **{attr: val}))
                except Exception as e:
                    exc = e
                sh.count("evaluations")
                bound = "on-the-bound" if val in (0.0, 2.0) and DECLARED[fam][attr] else "off-the-bound"
                sh.cls(f"assign:{fam}:constructor:{'legal' if legal else 'illegal'}:{attr}")
                if not legal:
                    if exc is None:
                        report(f"C20:assign:{fam}:illegal-value-accepted:{attr}:{bound}:constructor",
                               f"{fam}Parameters({attr}={val!r}) violates the declared constraint ({DECLARED[fam][attr]}) but the "
                               f"constructor stored it", [], {"stored": repr(_public(fam, p).get(attr))})
                    elif not isinstance(exc, ValueError):
                        report(f"C20:assign:{fam}:illegal-value-wrong-exception:{attr}:{type(exc).__name__}:constructor",
                               f"{fam}Parameters({attr}={val!r}) raised {exc!r} instead of ValueError", [])
                elif exc is None:
                    if not _same(getattr(p, attr), val):
                        report(f"C20:assign:{fam}:assignment-not-stored:{attr}:constructor",
                               f"{fam}Parameters({attr}={val!r}) reads back {getattr(p, attr)!r}", [])
                elif isinstance(exc, ValueError) and "expected" in str(exc):
                    # the derived entries may legitimately fail for a legal value (division by zero ...): only a rejection
                    # by the constraint itself is judged
                    report(f"C20:assign:{fam}:legal-value-rejected:{attr}:{bound}:constructor",
                           f"{fam}Parameters({attr}={val!r}) is admissible ({DECLARED[fam][attr]}) but raised {exc!r}", [])

    def invariant(st, hist, ev):
        if ev is None:
            if prefix:
                return None
            constructor_route()
            rec = None
        else:
            rec = st.last
        o = st.obj
        # objects left behind by copy / pickle are never touched again
        for n, (old, snap_then) in enumerate(st.retired):
            if rec is not None:
                sh.count("evaluations")
                if _snap_vars(old) != snap_then:
                    report(f"C20:assign:{fam}:operation-on-a-copy-changed-the-original:{rec['ev'][0]}",
                           f"{fam}: after {rec['ev']} on a copy, the object the copy was taken from changed: "
                           f"{snap_diff(snap_then, _snap_vars(old))}", hist)
        if rec is not None and ev[0] == "set":
            attr, val = ev[1], _val(ev[2])
            legal = LEGAL[DECLARED[fam][attr]](val)
            sh.count("evaluations")
            bound = "on-the-bound" if val in (0.0, 2.0) and DECLARED[fam][attr] else "off-the-bound"
            if isinstance(val, float) and not math.isfinite(val):
                bound = "non-finite"
            if legal:
                sh.cls(f"assign:{fam}:legal:{attr}:{bound}")
                if rec["exc"] is not None:
                    report(f"C20:assign:{fam}:legal-value-rejected:{attr}:{bound}",
                           f"{fam}.{attr} = {val!r} is admissible ({DECLARED[fam][attr]}) but raised {rec['exc']!r}", hist)
                else:
                    if getattr(o, attr) != val:
                        report(f"C20:assign:{fam}:assignment-not-stored:{attr}",
                               f"{fam}.{attr} = {val!r} reads back {getattr(o, attr)!r}", hist)
                    others_b = {k: v for k, v in rec["before"].items() if k != attr}
                    others_a = {k: v for k, v in rec["after"].items() if k != attr}
                    if snap(others_b) != snap(others_a):
                        sh.note(f"{fam}: assignment to {attr} also changes other entries of the object (observation)")
                    pb = {k: v for k, v in rec["public_before"].items() if k != attr}
                    pa = {k: v for k, v in rec["public_after"].items() if k != attr}
                    if snap(pb) != snap(pa):
                        report(f"C20:assign:{fam}:assignment-changed-another-parameter:{attr}",
                               f"{fam}.{attr} = {val!r} changed the other parameters from {pb} to {pa}", hist)
            else:
                sh.cls(f"assign:{fam}:illegal:{attr}:{bound}")
                if rec["exc"] is None:
                    report(f"C20:assign:{fam}:illegal-value-accepted:{attr}:{bound}",
                           f"{fam}.{attr} = {val!r} violates the declared constraint ({DECLARED[fam][attr]}) but was stored", hist)
                else:
                    if not isinstance(rec["exc"], ValueError):
                        report(f"C20:assign:{fam}:illegal-value-wrong-exception:{attr}:{type(rec['exc']).__name__}",
                               f"{fam}.{attr} = {val!r} raised {rec['exc']!r} instead of ValueError", hist)
                    if snap(rec["before"]) != snap(rec["after"]) or snap(rec["public_before"]) != snap(rec["public_after"]):
                        report(f"C20:assign:{fam}:illegal-assignment-changed-state:{attr}",
                               f"rejected {fam}.{attr} = {val!r} changed the object: "
                               f"{snap_diff(snap(rec['before']), snap(rec['after']))} "
                               f"{snap_diff(snap(rec['public_before']), snap(rec['public_after']))}", hist)
        if rec is not None and ev[0] == "interlude":
            sh.count("evaluations", 2)
            sh.cls(f"assign:{fam}:interlude")
            if rec["exc"] is not None:
                report(f"C20:assign:{fam}:using-the-object-raised:{type(rec['exc']).__name__}",
                       f"{fam}: building and evaluating models from the object raised {rec['exc']!r}", hist)
            if snap(rec["public_before"]) != snap(rec["public_after"]):
                report(f"C20:assign:{fam}:parameter-values-changed-without-assignment:interlude",
                       f"{fam}: after using the object and assigning to a SECOND object of the class its parameter values went "
                       f"from {rec['public_before']} to {rec['public_after']}", hist)
            after_use = rec["extra"].get("state_after_use")
            if after_use is not None and after_use != (_snap_vars(o), _public(fam, o)) and after_use[1] == rec["public_before"]:
                report(f"C20:assign:{fam}:second-object-of-the-class-changed-this-one",
                       f"{fam}: building / assigning / initialising another {fam} parameters object changed this one: "
                       f"{snap_diff(after_use[0], _snap_vars(o))}", hist)
            if "second_object_raised" in rec["extra"]:
                sh.note(f"{fam}: the second object of the interlude raised {rec['extra']['second_object_raised']}")
        if rec is not None and ev[0] in ("copy", "pickle"):
            sh.count("evaluations")
            sh.cls(f"assign:{fam}:{ev[0]}")
            if rec["exc"] is not None:
                report(f"C20:assign:{fam}:{ev[0]}-raised:{type(rec['exc']).__name__}",
                       f"{fam}: {ev[0]} of the parameters object raised {rec['exc']!r}", hist)
            elif snap(_public(fam, o)) != snap(rec["public_before"]):
                report(f"C20:assign:{fam}:{ev[0]}-has-other-parameter-values",
                       f"{fam}: {ev[0]} holds {_public(fam, o)}, the original {rec['public_before']}", hist)
        values = param_values(fam, o)
        vkey = tuple(sorted(values.items()))
        if rec is not None and ev[0] == "init":
            fr = fresh_obs(vkey)
            sh.count("evaluations")
            raised = type(rec["exc"]).__name__ if rec["exc"] is not None else None
            fresh_raised = fr[1] if fr[0] == "raises" else None
            if (raised is None) != (fresh_raised is None):
                report(f"C20:assign:{fam}:initialisation-and-constructor-disagree-on-raising",
                       f"{fam}{values}: initialisation() {'raised ' + raised if raised else 'returned'} but the constructor "
                       f"{'raised ' + fresh_raised if fresh_raised else 'returned'}", hist)
            if raised:
                sh.cls(f"assign:{fam}:initialisation-raises:{raised}")
        if st.flag:
            fr = fresh_obs(vkey)
            if fr[0] != "ok":
                return None
            mine = observe_models(fam, o)
            ref = fr[1]
            sh.count("evaluations", len(ref))
            sh.count("model_comparisons")
            sh.nontriv((fam, vkey, tuple(map(repr, prefix + hist))))
            if st.used:
                sh.cls(f"assign:{fam}:compared-after-use")
            if st.copied:
                sh.cls(f"assign:{fam}:compared-on-a-copy")
            bad_fields, bad_obs = [], []
            for name in sorted(set(ref) | set(mine)):
                a, b = mine.get(name, ("missing",)), ref.get(name, ("missing",))
                if name.startswith("field:") and (a[0] == "missing" or b[0] == "missing"):
                    # a private entry that exists on one side only is not a stale value: the behaviour decides
                    sh.note(f"{fam}: private entry {name[6:]} exists only on the "
                            f"{'freshly constructed' if a[0] == 'missing' else 'updated'} object (not judged)")
                    continue
                if a[0] == "missing" or b[0] == "missing" or not _obs_equal(a, b):
                    (bad_fields if name.startswith("field:") else bad_obs).append((name, a, b))
            for name, a, b in bad_fields:
                report(f"C20:assign:{fam}:derived-field-stale-after-initialisation:{name[6:]}",
                       f"{fam}{values} after initialisation(): {name[6:]} = {a[-1]!r} on the updated object, {b[-1]!r} on a "
                       f"freshly constructed one", hist, {"updated": a, "fresh": b})
            for name, a, b in bad_obs:
                report(f"C20:assign:{fam}:model-from-updated-parameters-differs:{_obs_name_class(name)}",
                       f"{fam}{values} after initialisation(): {name} = {a[-1]!r} from the updated object, {b[-1]!r} from a "
                       f"freshly constructed one", hist, {"updated": a, "fresh": b, "stale_fields": [f[0] for f in bad_fields]})
            if len(hist) + len(prefix) <= 2 and ev is not None and ev[0] == "init":
                sh.sample({"sub": "assign", "class": fam, "history": prefix + hist, "values": values,
                           "derived": {k: repr(v) for k, v in derived_fields(fam, o).items()},
                           "observations_compared": len(ref)})
        return None

    s, t, dmax = core.bfs(sh, build, menu, canon, invariant, case["depth"])
    # a freshly constructed object gives the same observations whenever it is constructed: the reference of every value
    # combination met is computed once more at the end (after all the histories above have run in this process)
    for vkey, first in sorted(fresh_cache.items(), key=lambda kv: repr(kv[0])):
        if first[0] != "ok":
            continue
        sh.count("evaluations")
        try:
            again = observe_models(fam, make_parameters(fam, dict(vkey)))
        except Exception as e:
            again = {"construct": ("raises", type(e).__name__)}
        bad = [n for n in sorted(set(first[1]) | set(again))
               if n not in again or n not in first[1] or not _obs_equal(first[1][n], again[n])]
        if bad:
            sh.violation(f"C20:assign:{fam}:fresh-object-depends-on-what-ran-before:{_obs_name_class(bad[0])}",
                         f"{fam}{dict(vkey)}: an object constructed at the end of the search differs from one constructed "
                         f"earlier with the same values in {bad[:6]}: {first[1].get(bad[0])} then, {again.get(bad[0])} now",
                         {"history": prefix, "detail": {"observations": bad}})
    sh.count("bfs_states", s)
    sh.count("bfs_transitions", t)
    sh.outcome((fam, tuple(case["prefix"]), s, t, len(fresh_cache)))
    for k, v in DECLARED[fam].items():
        if v is None:
            sh.note(f"{fam}.{k} has no declared constraint: every value is legal for this check (nu = 0 not probed)")


# ----------------------------------------------------------------------------------------------------------------------
# calibration
# ----------------------------------------------------------------------------------------------------------------------

def bs_call(spot, strike, r, d, sigma, T):
    N = lambda x: 0.5 * (1.0 + math.erf(x / math.sqrt(2.0)))  # noqa: E731
    sd = sigma * math.sqrt(T)
    d1 = (math.log(spot / strike) + (r - d) * T) / sd + 0.5 * sd
    d2 = d1 - sd
    return spot * math.exp(-d * T) * N(d1) - strike * math.exp(-r * T) * N(d2)


def make_product(kind, strike, T):
    from rpylib.product.payoff import Forward, PayoffType, Vanilla
    from rpylib.product.product import Product
    from rpylib.product.underlying import Spot

    if kind == "call":
        payoff = Vanilla(strike=strike, payoff_type=PayoffType.CALL)
    elif kind == "put":
        payoff = Vanilla(strike=strike, payoff_type=PayoffType.PUT)
    else:
        payoff = Forward(strike=strike)
    return Product(payoff_underlying=Spot(), payoff=payoff, maturity=T)


def make_unsupported_product(strike, T):
    """A library product whose payoff COSPricer.price does not handle (neither Forward nor Vanilla call / put)."""
    from rpylib.product.payoff import Digital, PayoffType
    from rpylib.product.product import Product
    from rpylib.product.underlying import Spot

    return Product(payoff_underlying=Spot(), payoff=Digital(strike=strike, payoff_type=PayoffType.CALL), maturity=T)


def fresh_price(fam, values, r, d, spot, product):
    from rpylib.numerical.cosmethod import COSPricer

    m = make_exp_model(fam, values, r, d, spot)
    return float(np.squeeze(COSPricer(m).price(product=product)))


class _Seam:
    """Binds rpylib.model.utils.COSPricer to a subclass whose price() returns a Python float."""

    def __enter__(self):
        from rpylib.model import utils as U

        self.U = U
        self.orig = U.COSPricer

        class ScalarCOSPricer(self.orig):
            def price(self, product):
                return float(np.squeeze(super().price(product=product)))

        U.COSPricer = ScalarCOSPricer
        return self

    def __exit__(self, *a):
        self.U.COSPricer = self.orig
        return False


def _call_with_seam_fallback(sh, fn_name, call, watched=()):
    """Run call(); on TypeError (array-valued objective refused by brentq) report through the caller and run again with the
    scalar seam. Returns list of attempts [(label, result|None, exception|None, snapshots)], `snapshots` being the deep
    snapshots of the `watched` objects taken immediately after the call (before the oracle constructs anything)."""
    attempts = []
    try:
        res = call()
        attempts.append(("as-is", res, None, [snap(w) for w in watched]))
    except Exception as e:
        attempts.append(("as-is", None, e, [snap(w) for w in watched]))
        if isinstance(e, TypeError):
            sh.count("seam_reruns")
            sh.note("brentq refused the library's array-valued objective (TypeError); case re-run with the scalar seam")
            with _Seam():
                try:
                    res = call()
                    attempts.append(("scalar-seam", res, None, [snap(w) for w in watched]))
                except Exception as e2:
                    attempts.append(("scalar-seam", None, e2, [snap(w) for w in watched]))
    return attempts


def _judge_parameter(sh, fn_name, case, fam, values, pname, interval, product, market, x, exc, label, raise_ok=False):
    """Oracle for one calibration outcome: returned value x, or exception exc.  `raise_ok`: a raise is what the statement
    allows whatever the bracket (interval given in decreasing order: the statement does not say it must be accepted)."""
    r, d, spot = case["r"], case["d"], case["spot"]
    lo, hi = min(interval), max(interval)
    if exc is not None and raise_ok:
        sh.count("evaluations")
        sh.cls(f"calib:{fn_name}:raises-not-judged")
        sh.outcome((fn_name, fam, pname, "raises-not-judged", type(exc).__name__))
        return None

    def f(v):
        return fresh_price(fam, dict(values, **{pname: v}), r, d, spot, product) - market

    sh.count("evaluations")
    if exc is not None:
        try:
            fa, fb = f(interval[0]), f(interval[1])
        except Exception:
            fa = fb = math.nan
        floor = 1e-8 * max(1.0, abs(market))
        if math.isfinite(fa) and math.isfinite(fb) and abs(fa) > floor and abs(fb) > floor:
            sh.nontriv()
            if fa * fb < 0:
                sh.outcome((fn_name, fam, pname, "raises-with-bracket", type(exc).__name__))
                sh.violation(
                    f"C20:calib:{fn_name}:raises-although-root-bracketed:{type(exc).__name__}",
                    f"{fn_name}({fam}, {pname} in {tuple(interval)}) raised {type(exc).__name__}: {exc} although the objective "
                    f"computed on freshly constructed models is {fa:.6g} at {interval[0]} and {fb:.6g} at {interval[1]} "
                    f"(a solution exists) [{label}]",
                    {"f(a)": fa, "f(b)": fb, "market_price": market, "exception": repr(exc)})
            else:
                sh.cls(f"calib:{fn_name}:raises-no-bracket")
                sh.outcome((fn_name, fam, pname, "raises-no-bracket", type(exc).__name__))
                if not isinstance(exc, (ValueError, TypeError)):
                    sh.note(f"{fn_name} raised {type(exc).__name__} where no root is bracketed (allowed by the statement)")
        else:
            sh.count("oracle_inconclusive")
            sh.outcome((fn_name, fam, pname, "raises-inconclusive"))
        return None
    # returned a value
    ok = True
    try:
        xv = float(x)
    except Exception:
        xv = math.nan
    if not math.isfinite(xv) or not (lo <= xv <= hi):
        ok = False
        sh.violation(f"C20:calib:{fn_name}:returned-value-outside-interval:{fam}:{pname}",
                     f"{fn_name}({fam}, {pname}) returned {x!r}, admissible interval {tuple(interval)} [{label}]",
                     {"returned": repr(x)})
        if not math.isfinite(xv):
            return None
    try:
        res = f(xv)
        h = max(1e-7, 1e-7 * abs(xv))
        up, dn = min(hi, xv + h), max(lo, xv - h)
        slope = 0.0
        if up > xv:
            slope = max(slope, abs(f(up) - res) / (up - xv))
        if dn < xv:
            slope = max(slope, abs(res - f(dn)) / (xv - dn))
    except Exception as e:
        sh.violation(f"C20:calib:{fn_name}:fresh-model-cannot-be-built-at-returned-value:{fam}:{pname}",
                     f"{fn_name}({fam}, {pname}) returned {xv!r} but constructing/pricing the model there raised {e!r} [{label}]",
                     None)
        return None
    if not math.isfinite(slope):
        sh.count("oracle_inconclusive")
        return xv
    tol = 4.0 * slope * (XTOL + RTOL_BRENT * abs(xv)) + 1e-8 * max(1.0, abs(market))
    sh.nontriv()
    sh.cls(f"calib:{fn_name}:returns")
    sh.outcome((fn_name, fam, pname, "returns", round(xv, 6)))
    if not (abs(res) <= tol):
        ok = False
        sh.violation(
            f"C20:calib:{fn_name}:does-not-reprice:{fam}:{pname}",
            f"{fn_name}({fam}, {pname} in {tuple(interval)}) returned {xv!r}; the model constructed with that value prices the "
            f"target at {res + market!r}, market price {market!r}: residual {res:.3e} > tolerance {tol:.3e} [{label}]",
            {"returned": xv, "residual": res, "tolerance": tol, "slope": slope, "market_price": market})
    return xv


def _check_untouched(sh, fn_name, fam, before, after, label, role="input-model-modified"):
    sh.count("evaluations")
    if after != before:
        diffs = snap_diff(before, after)
        sh.violation(f"C20:calib:{fn_name}:{role}:{fam}",
                     f"{fn_name} changed {'its input' if role == 'input-model-modified' else 'another'} {fam} model [{label}]: "
                     f"{diffs}", {"differences": diffs})


def _twin_obs(fam, values, r, d, spot):
    """Observations of a model constructed directly with `values`."""
    return observe_exp_model(fam, make_exp_model(fam, values, r, d, spot))


def _check_behaviour(sh, fn_name, fam, model, values, r, d, spot, label, role="input-model"):
    """The model still behaves like a model constructed directly with the values it was built from: observations made on
    the object itself and on models rebuilt from its parameters object."""
    mine = observe_exp_model(fam, model)
    ref = _twin_obs(fam, values, r, d, spot)
    try:
        rebuilt = observe_models(fam, model.levy_model.parameters, r, d, spot)
    except Exception as e:
        rebuilt = {"construct": ("raises", type(e).__name__)}
    rebuilt_ref = observe_models(fam, make_parameters(fam, values), r, d, spot)
    for k, v in rebuilt.items():
        mine["rebuilt:" + k] = v
    for k, v in rebuilt_ref.items():
        ref["rebuilt:" + k] = v
    sh.count("evaluations", len(ref))
    sh.count("behaviour_comparisons")
    bad = [n for n in sorted(ref) if (n not in mine and not n.startswith("rebuilt:field:"))
           or (n in mine and not _obs_equal(mine[n], ref[n]))]
    for n in bad[:4]:
        comp = _obs_name_class(n).replace("rebuilt:field:", "rebuilt-field-").replace("rebuilt:", "rebuilt-")
        sh.violation(f"C20:calib:{fn_name}:{role}-behaves-differently-afterwards:{fam}:{comp}",
                     f"{fn_name} [{label}]: {n} of the {role} is {mine.get(n, ('missing',))[-1]!r} afterwards, "
                     f"{ref[n][-1]!r} on a {fam} model constructed directly with {values}",
                     {"observations_differing": bad, "model": mine.get(n), "directly_constructed": ref[n]})
    return not bad


def _setup(case):
    fam = case["family"]
    values = dict(STARTS[fam][case["start"]])
    aform = case.get("arg_form")
    given = {k: _arg(aform, v) for k, v in values.items()}  # the oracle's reference models are built from the floats
    model, got = make_exp_model_via(case.get("route", "ctor"), fam, given, case["r"], case["d"], _arg(aform, case["spot"]))
    return fam, (values if aform else got), model


def _vol_kwargs(U, fn, vol):
    """bs_sigma omitted (vol None): the volatility requested is the default written in the function's signature."""
    import inspect

    if vol is not None:
        return {"bs_sigma": vol}, vol
    return {}, float(inspect.signature(fn).parameters["bs_sigma"].default)


ARG_FORMS = ("int", "numpy")


def _arg(form, x):
    """A legal form of a real argument: `int` = a Python int where the value is integral, `numpy` = a numpy float64."""
    if form == "int" and float(x).is_integer():
        return int(x)
    if form == "numpy":
        return np.float64(x)
    return x


def _interval_arg(form, interval):
    if form == "numpy":
        return np.array(interval, dtype=float)
    if form == "int":
        return tuple(_arg("int", v) for v in interval)
    return interval


def _check_argument_kept(sh, fn, name, given, before):
    """The callee does not modify the caller's argument objects."""
    sh.count("evaluations")
    if repr(given) != before:
        sh.violation(f"C20:calib:{fn}:argument-modified:{name}", f"{fn} changed its argument {name} from {before} to {given!r}", None)


def _interval_as(form, interval):
    if form == "list":
        return list(interval)
    if form == "reversed":
        return (interval[1], interval[0])
    return tuple(interval)


def _sub_calib_atm(sh, case):
    from rpylib.model import utils as U

    try:
        fam, values, model = _setup(case)
    except Exception as e:
        sh.count("oracle_inconclusive")
        sh.note(f"route {case.get('route')}: the input model could not be built ({type(e).__name__})")
        return
    pname, interval = CALIB[fam][case["param"]]
    T = case["T"]
    kw, vol = _vol_kwargs(U, U.calibrate_model_parameter_to_atm_call, case["vol"])
    form = case.get("interval_form", "tuple")
    aform = case.get("arg_form")
    given = _interval_arg(aform, _interval_as(form, interval))
    given_before = repr(given)
    product = make_product("call", case["spot"], T)
    market = bs_call(case["spot"], case["spot"], case["r"], case["d"], vol, T)
    before = snap(model)
    fn = "calibrate_model_parameter_to_atm_call"
    T_given = _arg(aform, T)
    kw = {k: _arg(aform, v) for k, v in kw.items()}
    if case.get("form") == "positional":
        call = lambda: U.calibrate_model_parameter_to_atm_call(model, pname, given, T_given, *([vol] if kw else []))  # noqa: E731
    else:
        call = lambda: U.calibrate_model_parameter_to_atm_call(model=model, parameter=pname, parameter_interval=given,  # noqa: E731
                                                               maturity=T_given, **kw)
    attempts = _call_with_seam_fallback(sh, fn, call, [model])
    for label, x, exc, after in attempts:
        _check_untouched(sh, fn, fam, before, after[0], label)
        _check_argument_kept(sh, fn, "parameter_interval", given, given_before)
        rejected = bool(aform) and exc is not None and not isinstance(exc, ValueError)
        if rejected:
            # a form the library refuses (anything but the ValueError of a failed root search, which is judged as usual)
            # is outside the alphabet
            sh.count("argument_form_rejected")
            sh.note(f"{fn}: argument form {aform} raised {type(exc).__name__} (not judged)")
        _judge_parameter(sh, fn, case, fam, values, pname, [float(v) for v in given], product, market, x, exc, label,
                         raise_ok=form == "reversed" or rejected)
    _check_behaviour(sh, fn, fam, model, values, case["r"], case["d"], case["spot"], attempts[-1][0])
    sh.cls(f"calib:family:{fam}:{pname}")
    sh.cls(f"calib:route:{case.get('route', 'ctor')}")
    sh.cls(f"calib:interval-form:{form}")
    sh.cls(f"calib:argument-form:{aform or 'usual'}")
    sh.cls("calib:volatility:" + ("omitted" if case["vol"] is None else "given"))
    if (case["T"] == 1.0 and case["vol"] == 0.2 and case["start"] == 0 and case.get("route", "ctor") == "ctor" and form == "tuple"
            and not aform):
        label, x, exc, _ = attempts[-1]
        sh.sample({"sub": "calib-atm", "family": fam, "parameter": pname, "interval": interval, "T": T, "vol": vol,
                   "market_price": market, "attempt": label, "returned": None if exc else float(x),
                   "raised": type(exc).__name__ if exc else None})


def _sub_calib_product(sh, case):
    from rpylib.model import utils as U

    try:
        fam, values, model = _setup(case)
    except Exception as e:
        sh.count("oracle_inconclusive")
        sh.note(f"route {case.get('route')}: the input model could not be built ({type(e).__name__})")
        return
    pname, interval = CALIB[fam][case["param"]]
    T, kind = case["T"], case["kind"]
    spot, r, d = case["spot"], case["r"], case["d"]
    a, b = interval
    xstar = a + case["frac"] * (b - a)
    strike = case["k"] * spot
    fn = "calibrate_model_parameter"
    before = snap(model)
    if kind == "unsupported":
        # a product the COS method does not price (the docstring of calibrate_model_parameter assumes it can): whatever
        # happens - the statement allows a raise - the input model is left untouched
        product = make_unsupported_product(strike, T)
        attempts = _call_with_seam_fallback(
            sh, fn, lambda: U.calibrate_model_parameter(model=model, parameter=pname, parameter_interval=interval,
                                                        product=product, market_price=5.0), [model])
        for label, x, exc, after in attempts:
            _check_untouched(sh, fn, fam, before, after[0], label)
            sh.outcome((fn, fam, "unsupported-product", type(exc).__name__ if exc else "returns"))
            if exc is None:
                sh.note("calibrate_model_parameter returned a value for a product the COS pricer does not support (not judged)")
        _check_behaviour(sh, fn, fam, model, values, r, d, spot, attempts[-1][0])
        sh.nontriv()
        sh.cls("calib:product:unsupported")
        return
    product = make_product("forward" if kind.startswith("forward") else kind, strike, T)
    try:
        market = fresh_price(fam, dict(values, **{pname: xstar}), r, d, spot, product)
    except Exception:
        sh.count("oracle_inconclusive")
        return
    if kind == "forward+1":
        market += 1.0
    if not math.isfinite(market):
        sh.count("oracle_inconclusive")
        return
    aform = case.get("arg_form")
    given = _interval_arg(aform, interval)
    given_before = repr(given)
    market_given = _arg(aform, market)
    if aform:
        # the product built with the same forms (strike, maturity)
        product_given = make_product("forward" if kind.startswith("forward") else kind, _arg(aform, strike), _arg(aform, T))
    else:
        product_given = product
    product_before = snap(product_given)
    if case.get("form") == "positional":
        call = lambda: U.calibrate_model_parameter(model, pname, given, product_given, market_given)  # noqa: E731
    else:
        call = lambda: U.calibrate_model_parameter(model=model, parameter=pname, parameter_interval=given,  # noqa: E731
                                                   product=product_given, market_price=market_given)
    attempts = _call_with_seam_fallback(sh, fn, call, [model])
    for label, x, exc, after in attempts:
        _check_untouched(sh, fn, fam, before, after[0], label)
        _check_argument_kept(sh, fn, "parameter_interval", given, given_before)
        sh.count("evaluations")
        if snap(product_given) != product_before:
            sh.violation(f"C20:calib:{fn}:argument-modified:product",
                         f"{fn} changed the product it was given: {snap_diff(product_before, snap(product_given))} [{label}]", None)
        rejected = bool(aform) and exc is not None and not isinstance(exc, ValueError)
        if rejected:
            sh.count("argument_form_rejected")
            sh.note(f"{fn}: argument form {aform} raised {type(exc).__name__} (not judged)")
        _judge_parameter(sh, fn, case, fam, values, pname, interval, product, market, x, exc, label, raise_ok=rejected)
    sh.cls(f"calib:argument-form:{aform or 'usual'}")
    _check_behaviour(sh, fn, fam, model, values, r, d, spot, attempts[-1][0])
    sh.cls(f"calib:product:{kind}")
    sh.cls(f"calib:route:{case.get('route', 'ctor')}")


def _default_entry(sh, U, fam):
    pname, interval = CALIB[fam][0]
    try:
        lib = U.default_calibration[_mt(fam)]
        lib_p, lib_i = lib.parameter, tuple(lib.parameter_interval)
    except Exception:
        lib_p, lib_i = pname, interval
    if lib_p != pname or (min(lib_i), max(lib_i)) != (min(interval), max(interval)):
        sh.note(f"utils.default_calibration[{fam}] = ({lib_p}, {lib_i}); the check's table has ({pname}, {interval}); "
                f"the library's entry is used")
        pname, interval = lib_p, lib_i
    return pname, interval


def _judge_default_result(sh, env, fam, values, model_type, model_market, cm, exc, T, vol, label, fn_label=None):
    """Oracle of run_default_calibration for one outcome (returned model cm, or exception): `values` = public parameter
    values of the input, `model_type` its class, `model_market` its (spot, r, d).  Returns the calibrated value.
    `fn_label`: the component of the violation keys (default: the function's name)."""
    from rpylib.model import utils as U
    from rpylib.numerical.cosmethod import COSPricer

    fn = fn_label or "run_default_calibration"
    spot, r, d = env["spot"], env["r"], env["d"]
    pname, interval = _default_entry(sh, U, fam)
    product = make_product("call", spot, T)
    market = bs_call(spot, spot, r, d, vol, T)
    if exc is not None:
        _judge_parameter(sh, fn, env, fam, values, pname, interval, product, market, None, exc, label)
        return None
    sh.count("evaluations")
    if type(cm) is not model_type:
        sh.violation(f"C20:calib:{fn}:result-not-of-the-input-type:{fam}",
                     f"{fn}({model_type.__name__}) returned {type(cm).__name__} [{label}]", None)
        return None
    # the returned model itself must reprice the ATM call at the Black-Scholes price
    try:
        p_cm = float(np.squeeze(COSPricer(cm).price(product=product)))
    except Exception as e:
        sh.violation(f"C20:calib:{fn}:result-cannot-be-priced:{fam}", f"COS price of the returned model raised {e!r} [{label}]", None)
        return None
    cvals = param_values(fam, cm.levy_model.parameters)
    x = cvals[pname]
    xv = _judge_parameter(sh, fn, env, fam, values, pname, interval, product, market, x, None, label)
    # tolerance as for the fresh model (same slope): reuse by comparing the two prices
    p_fresh = fresh_price(fam, cvals, r, d, spot, product)
    sh.count("evaluations")
    if not core.close(p_cm, p_fresh, rtol=1e-9, atol=1e-9):
        sh.violation(f"C20:calib:{fn}:returned-model-price-differs-from-directly-constructed-model:{fam}",
                     f"{fn}({fam}) [{label}]: ATM call {p_cm!r} under the returned model, {p_fresh!r} under the model "
                     f"constructed directly from its parameter values {cvals}; Black-Scholes price {market!r}",
                     {"returned_model_price": p_cm, "fresh_price": p_fresh, "bs": market})
    # other parameters untouched, spot/r/d carried over
    for k, v in values.items():
        if k != pname and cvals[k] != v:
            sh.violation(f"C20:calib:{fn}:uncalibrated-parameter-changed:{fam}:{k}",
                         f"{fn}({fam}) changed {k} from {v!r} to {cvals[k]!r} [{label}]", None)
    if (cm.spot, cm.r, cm.d) != tuple(model_market):
        sh.violation(f"C20:calib:{fn}:market-data-changed:{fam}",
                     f"spot/r/d {tuple(model_market)} -> {(cm.spot, cm.r, cm.d)} [{label}]", None)
    # behaves like the model constructed directly from its values (derived fields in sync)
    mine = observe_models(fam, cm.levy_model.parameters, r, d, spot)
    ref = observe_models(fam, make_parameters(fam, cvals), r, d, spot)
    mine["exp:process_drift(returned)"] = _obs(lambda: float(cm.process_drift()))
    ref["exp:process_drift(returned)"] = ref["exp:process_drift"]
    mine["exp:omega(returned)"] = _obs(lambda: float(cm.omega))
    ref["exp:omega(returned)"] = ref["exp:omega"]
    sh.count("evaluations", len(ref))
    for name in sorted(ref):
        a_, b_ = mine.get(name, ("missing",)), ref[name]
        if a_[0] == "missing" and name.startswith("field:"):
            sh.note(f"{fam}: private entry {name[6:]} exists only on the directly constructed object (not judged)")
            continue
        if a_[0] == "missing" or not _obs_equal(a_, b_):
            if name.startswith("field:"):
                key = f"C20:calib:{fn}:derived-field-stale-in-returned-model:{fam}:{name[6:]}"
            else:
                key = f"C20:calib:{fn}:returned-model-differs-from-directly-constructed-model:{fam}:{_obs_name_class(name)}"
            sh.violation(key, f"{fn}({fam}) [{label}] with {cvals}: {name} = {a_[1] if len(a_) > 1 else None!r} on the "
                              f"returned model, {b_[1]!r} on the model constructed directly", {"returned": a_, "fresh": b_})
    # ... observed on the returned object itself as well
    _check_behaviour(sh, fn, fam, cm, cvals, r, d, spot, label, role="returned-model")
    return xv, p_cm, market


def _sub_calib_default(sh, case):
    from rpylib.model import utils as U

    try:
        fam, values, model = _setup(case)
    except Exception as e:
        sh.count("oracle_inconclusive")
        sh.note(f"route {case.get('route')}: the input model could not be built ({type(e).__name__})")
        return
    T = case["T"]
    spot, r, d = case["spot"], case["r"], case["d"]
    kw, vol = _vol_kwargs(U, U.run_default_calibration, case["vol"])
    before = snap(model)
    fn = "run_default_calibration"
    aform = case.get("arg_form")
    T_given = _arg(aform, T)
    kw = {k: _arg(aform, v) for k, v in kw.items()}
    if case.get("form") == "positional":
        call = lambda: U.run_default_calibration(model, T_given, *([vol] if kw else []))  # noqa: E731
    else:
        call = lambda: U.run_default_calibration(model=model, maturity=T_given, **kw)  # noqa: E731
    attempts = _call_with_seam_fallback(sh, fn, call, [model])
    sh.cls(f"calib:argument-form:{aform or 'usual'}")
    for label, cm, exc, after in attempts:
        _check_untouched(sh, fn, fam, before, after[0], label)
        if aform and exc is not None and not isinstance(exc, ValueError):
            sh.count("argument_form_rejected")  # a form the library refuses is outside the alphabet
            sh.note(f"{fn}: argument form {aform} raised {type(exc).__name__} (not judged)")
            continue
        if exc is None and (cm is model or getattr(getattr(cm, "levy_model", None), "parameters", None) is model.levy_model.parameters):
            sh.violation(f"C20:calib:{fn}:result-aliases-the-input:{fam}",
                         f"{fn} returned an object sharing the input's {'model' if cm is model else 'parameters'} [{label}]", None)
        res = _judge_default_result(sh, case, fam, values, type(model), (model.spot, model.r, model.d), cm, exc, T, vol, label)
        if res and T == 1.0 and case["vol"] == 0.2 and case.get("route", "ctor") == "ctor":
            sh.sample({"sub": "calib-default", "family": fam, "start": values, "T": T, "vol": vol, "attempt": label,
                       "calibrated": {_default_entry(sh, U, fam)[0]: res[0]}, "atm_call": res[1], "black_scholes": res[2]})
    _check_behaviour(sh, fn, fam, model, values, r, d, spot, attempts[-1][0])
    sh.cls(f"calib:default:{fam}")
    sh.cls(f"calib:route:{case.get('route', 'ctor')}")
    sh.cls("calib:volatility:" + ("omitted" if case["vol"] is None else "given"))
    sh.cls("calib:call-form:" + case.get("form", "keyword"))


# ----------------------------------------------------------------------------------------------------------------------
# histories of calibrations on re-used models
# ----------------------------------------------------------------------------------------------------------------------

# operations; slots: A = the family's first start set, B = same family, second start set, same market data,
# C = a model with other market data built ON A's PARAMETERS OBJECT (shared), D = a model of the next family
HIST_ENV = {"r": 0.02, "d": 0.0, "spot": 100.0}
HIST_ENV_C = {"r": 0.05, "d": 0.02, "spot": 80.0}
HIST_OPS = [
    ["default", "A", 1.0, 0.2],
    ["default", "A", 0.25, None],
    ["atm", "A", 1, 1.0, 0.2],
    ["product", "A", 0, "put", 1.1, 0.3, 0.25],
    ["default", "B", 1.0, 0.2],
    ["default", "D", 1.0, 0.2],
    ["default", "C", 1.0, 0.2],
    ["use", "A"],
    ["deepcopy", "A"],
    ["adopt", "A"],
    ["reparam", "A"],
]
_H_CALIB = [0, 1, 2, 3, 4, 5, 6]
_H_USE, _H_COPY, _H_ADOPT, _H_REPARAM = 7, 8, 9, 10


def _history_valid(seq):
    """adopt needs a default calibration of A before it; sequences of non-calibrations only say nothing new"""
    have = False
    for i in seq:
        if i == _H_ADOPT and not have:
            return False
        if i in (0, 1):
            have = True
    return any(i in _H_CALIB for i in seq)


def _history_cases(tier):
    n = len(HIST_OPS)
    seqs = [[i] for i in range(n)] + [[i, j] for i in range(n) for j in range(n)]
    if tier == "thorough":
        seqs += [[i, j, k] for i in range(n) for j in range(n) for k in range(n)]
    else:
        # calibrate - use / deep copy / adopt the calibrated model - calibrate again
        seqs += [[i, j, k] for i in _H_CALIB for j in (_H_USE, _H_COPY, _H_ADOPT, _H_REPARAM) for k in _H_CALIB]
    return [s for s in seqs if _history_valid(s)]


def _sub_calib_history(sh, case):
    import copy

    from rpylib.model import utils as U

    fam = case["family"]
    other = FAMILIES[(FAMILIES.index(fam) + 1) % len(FAMILIES)]
    e0, eC = HIST_ENV, HIST_ENV_C

    class Slot:
        def __init__(self, fam, values, env, model):
            self.fam, self.values, self.env, self.model = fam, dict(values), env, model

    a = Slot(fam, STARTS[fam][0], e0, make_exp_model(fam, STARTS[fam][0], e0["r"], e0["d"], e0["spot"]))
    slots = {
        "A": a,
        "B": Slot(fam, STARTS[fam][1], e0, make_exp_model(fam, STARTS[fam][1], e0["r"], e0["d"], e0["spot"])),
        "C": Slot(fam, STARTS[fam][0], eC, _classes(fam).exponential_of_levy_model(
            spot=eC["spot"], r=eC["r"], d=eC["d"], parameters=a.model.levy_model.parameters)),
        "D": Slot(other, STARTS[other][0], e0, make_exp_model(other, STARTS[other][0], e0["r"], e0["d"], e0["spot"])),
    }
    watched = [("A", slots["A"]), ("B", slots["B"]), ("C", slots["C"]), ("D", slots["D"])]
    last_default = None
    done = []
    for step, i in enumerate(case["ops"]):
        op = HIST_OPS[i]
        where = "after " + " > ".join(done) if done else "first operation"
        done.append("-".join(str(x) for x in op))
        kind, name = op[0], op[1]
        sl = slots[name]
        if sl is None:  # a model that aliases a parameters object re-assigned since (outside the statement)
            sh.count("history_operation_on_an_aliasing_model_skipped")
            continue
        if kind == "use":
            _check_behaviour(sh, "history", sl.fam, sl.model, sl.values, sl.env["r"], sl.env["d"], sl.env["spot"],
                             f"{done[-1]}, {where}", role="re-used-model")
            continue
        if kind == "deepcopy":
            new = Slot(sl.fam, sl.values, sl.env, copy.deepcopy(sl.model))
            slots[name] = new
            watched.append((name + "'", new))
            continue
        if kind == "reparam":
            # re-parametrise the model's OWN parameters object (one parameter the default calibration does not move gets
            # another value), initialisation(), and a NEW model built on that object takes the slot.  Models built before
            # the assignment alias the object: outside the statement from now on, they leave the scene.
            pobj = sl.model.levy_model.parameters
            k = [a_ for a_ in ATTRS[sl.fam] if a_ != CALIB[sl.fam][0][0]][0]
            newv = dict(sl.values)
            newv[k] = _neigh_value(sl.fam, k, "far") if newv[k] == STARTS[sl.fam][0][k] else STARTS[sl.fam][0][k]
            setattr(pobj, k, newv[k])
            pobj.initialisation()
            new = Slot(sl.fam, newv, sl.env, _classes(sl.fam).exponential_of_levy_model(
                spot=sl.env["spot"], r=sl.env["r"], d=sl.env["d"], parameters=pobj))
            watched = [(n_, w) for n_, w in watched if getattr(w.model.levy_model, "parameters", None) is not pobj]
            for n_ in list(slots):
                if slots[n_] is not None and getattr(slots[n_].model.levy_model, "parameters", None) is pobj:
                    slots[n_] = None
            slots[name] = new
            watched.append((name + "-reparametrised", new))
            continue
        if kind == "adopt":
            cm, cvals = last_default
            new = Slot(sl.fam, cvals, sl.env, cm)
            slots[name] = new
            watched.append((name + "-calibrated", new))
            continue
        # a calibration on slot `name`
        env = dict(sl.env)
        before = [snap(w.model) for _, w in watched]
        models = [w.model for _, w in watched]
        label = f"{done[-1]}, {where}"
        if kind == "default":
            T = op[2]
            kw, vol = _vol_kwargs(U, U.run_default_calibration, op[3])
            fn = "run_default_calibration"
            attempts = _call_with_seam_fallback(sh, fn, lambda: U.run_default_calibration(model=sl.model, maturity=T, **kw), models)
        elif kind == "atm":
            pname, interval = CALIB[sl.fam][op[2]]
            T = op[3]
            kw, vol = _vol_kwargs(U, U.calibrate_model_parameter_to_atm_call, op[4])
            fn = "calibrate_model_parameter_to_atm_call"
            product = make_product("call", env["spot"], T)
            market = bs_call(env["spot"], env["spot"], env["r"], env["d"], vol, T)
            attempts = _call_with_seam_fallback(
                sh, fn, lambda: U.calibrate_model_parameter_to_atm_call(model=sl.model, parameter=pname,
                                                                        parameter_interval=interval, maturity=T, **kw), models)
        else:
            pname, interval = CALIB[sl.fam][op[2]]
            T = op[6]
            fn = "calibrate_model_parameter"
            product = make_product(op[3], op[4] * env["spot"], T)
            xstar = interval[0] + op[5] * (interval[1] - interval[0])
            try:
                market = fresh_price(sl.fam, dict(sl.values, **{pname: xstar}), env["r"], env["d"], env["spot"], product)
            except Exception:
                sh.count("oracle_inconclusive")
                continue
            attempts = _call_with_seam_fallback(
                sh, fn, lambda: U.calibrate_model_parameter(model=sl.model, parameter=pname, parameter_interval=interval,
                                                            product=product, market_price=market), models)
        for att_label, res, exc, after in attempts:
            lab = f"{att_label}; {label}"
            for (wname, w), b, af in zip(watched, before, after):
                if w is sl:
                    _check_untouched(sh, fn, w.fam, b, af, lab)
                else:
                    _check_untouched(sh, fn, w.fam, b, af, lab + f"; the other model is {wname}", role="model-not-given-modified")
            if kind == "default":
                got = _judge_default_result(sh, env, sl.fam, sl.values, type(sl.model),
                                            (sl.model.spot, sl.model.r, sl.model.d), res, exc, T, vol, lab)
                if exc is None and got and name == "A":
                    last_default = (res, param_values(sl.fam, res.levy_model.parameters))
            else:
                _judge_parameter(sh, fn, env, sl.fam, sl.values, pname, interval, product, market, res, exc, lab)
        sh.cls(f"history:{kind}:{name}:step{step}")
    # at the end every model of the scene behaves like a model constructed directly with its values
    for wname, w in watched:
        _check_behaviour(sh, "history", w.fam, w.model, w.values, w.env["r"], w.env["d"], w.env["spot"],
                         f"model {wname} after " + " > ".join(done), role="re-used-model")
    sh.outcome((fam, tuple(case["ops"])))


# ----------------------------------------------------------------------------------------------------------------------
# neighbouring calibration problems: two problems that differ in exactly ONE thing, solved one after the other
# ----------------------------------------------------------------------------------------------------------------------

NEIGH_ENV = {"r": 0.02, "d": 0.0, "spot": 100.0}
NEIGH_ENV_ALT = {"spot": 80.0, "r": 0.05, "d": 0.02}
NEIGH_T, NEIGH_VOL = 1.0, 0.2
NEIGH_T_ALT, NEIGH_VOL_ALT = 0.25, 0.35
NEIGH_NEAR = 5e-5  # relative size of the `near` perturbation: far above the repricing tolerance, lost by 4 printed digits
# an interval admissible for the first AND the second parameter of the menu (variant `parameter`: only the name changes)
NEIGH_COMMON = {"hem": (0.0, 1.0), "merton": (0.0, 1.0), "cgmy": (2.0, 20.0), "vg": (0.01, 1.0)}
NEIGH_PRODUCT = {"kind": "put", "k": 1.1, "T": 0.25, "frac": 0.3}
NEIGH_PRODUCT_ALT = {"kind": "call", "k": 0.9, "T": 1.0, "frac": 0.7}


def _neigh_value(fam, k, how):
    a = STARTS[fam][0][k]
    if how == "near":
        return a * (1.0 + NEIGH_NEAR) if a != 0 else NEIGH_NEAR
    v = STARTS[fam][1][k]
    return v if v != a else DONOR[fam][k]


def _neighbour_variants(fam, fn):
    """The ways in which the second problem differs from the first: exactly one item of the list each."""
    out = [["twin"]]  # nothing differs but the identity of the model object
    for k in ATTRS[fam]:
        out.append(["param", k, "far"])
    for k in ATTRS[fam]:
        out.append(["param", k, "near"])
    for k in ("spot", "r", "d"):
        out.append(["env", k])
    if fn == "default":
        out += [["arg", "T"], ["arg", "vol"]]
    elif fn == "atm":
        out += [["arg", "T"], ["arg", "vol"], ["arg", "interval-upper"], ["arg", "interval-lower"], ["arg", "parameter"]]
    else:
        out += [["arg", a] for a in ("frac", "k", "kind", "T", "market-only", "k-same-market", "kind-same-market", "T-same-market",
                                     "interval-upper", "interval-lower", "parameter")]
    return out


def _neighbour_cases(fam, thorough):
    out = []
    n_par = len(CALIB[fam])
    for fn in ("default", "atm", "product"):
        for pi in ([0] if fn == "default" else (range(n_par) if thorough else ([1] if fn == "atm" else [0]))):
            for var in _neighbour_variants(fam, fn):
                if var[0] == "arg" and var[1] == "parameter" and pi > 1:
                    continue
                for order in ("AV", "VA"):
                    for hold in (True, False):
                        if not thorough:
                            # quick: the second order for the `far` parameter variants and the argument variants; models
                            # discarded between the calls for the `far` parameter variants of the default calibration
                            if order == "VA" and not ((var[0] == "param" and var[2] == "far" and fn == "default") or var[0] == "arg"):
                                continue
                            if not hold and not (fn == "default" and order == "AV" and var[0] == "param" and var[2] == "far"):
                                continue
                            if fn != "default" and var[0] == "param" and var[2] == "near":
                                continue
                        if not hold and var[0] in ("arg", "twin"):
                            continue
                        out.append({"sub": "calib-neighbours", "family": fam, "fn": fn, "param": pi, "variant": var,
                                    "order": order, "hold": hold})
    return out


def _neighbour_problems(case):
    """(first problem, second problem): dicts with values, env, pname, interval, T, vol and, for the product route, the
    product description; `market` = None means "the fresh price at x* of this problem", a number means "that price"."""
    fam, fn, var = case["family"], case["fn"], case["variant"]
    pi = case["param"]
    pname, interval = CALIB[fam][pi]
    if var[0] == "arg" and var[1] == "parameter":
        pname, interval = CALIB[fam][0][0], NEIGH_COMMON[fam]
    p1 = {"values": dict(STARTS[fam][0]), "env": dict(NEIGH_ENV), "pname": pname, "interval": tuple(interval), "T": NEIGH_T,
          "vol": NEIGH_VOL, "same_model": False}
    if fn == "product":
        p1.update(NEIGH_PRODUCT, market=None)
    p2 = {k: (dict(v) if isinstance(v, dict) else v) for k, v in p1.items()}
    if var[0] == "twin":
        pass
    elif var[0] == "param":
        p2["values"][var[1]] = _neigh_value(fam, var[1], var[2])
        if fn == "product":
            p2["market"] = "first"
    elif var[0] == "env":
        p2["env"][var[1]] = NEIGH_ENV_ALT[var[1]]
        if fn == "product":
            p2["market"] = "first"
    else:
        p2["same_model"] = True
        a = var[1]
        lo, hi = p1["interval"]
        if a == "T" and fn != "product":
            p2["T"] = NEIGH_T_ALT
        elif a == "vol":
            p2["vol"] = NEIGH_VOL_ALT
        elif a == "interval-upper":
            p2["interval"] = (0.5 * (lo + hi), hi)
            p2["market"] = "first"
        elif a == "interval-lower":
            p2["interval"] = (lo, 0.5 * (lo + hi))
            p2["market"] = "first"
        elif a == "parameter":
            p2["pname"] = CALIB[fam][1][0]
            p2["market"] = "first"
        elif a == "market-only":
            p2["frac"] = NEIGH_PRODUCT_ALT["frac"]  # another market price for the same product
        elif a in ("frac", "k", "kind", "T"):
            p2[a] = NEIGH_PRODUCT_ALT[a]
        elif a.endswith("-same-market"):
            p2[a.split("-")[0]] = NEIGH_PRODUCT_ALT[a.split("-")[0]]
            p2["market"] = "first"
    return p1, p2


def _sub_calib_neighbours(sh, case):
    """first problem, second problem (one difference), first problem again: every outcome judged on directly constructed
    models, every model of the scene untouched by every call."""
    import gc

    from rpylib.model import utils as U

    fam, fn, var, hold = case["family"], case["fn"], case["variant"], case["hold"]
    base_problem, changed_problem = _neighbour_problems(case)
    p1, p2 = (changed_problem, base_problem) if case["order"] == "VA" else (base_problem, changed_problem)
    vname = "-".join(str(v) for v in var)

    def build(p):
        return make_exp_model(fam, p["values"], p["env"]["r"], p["env"]["d"], p["env"]["spot"])

    held = {}
    if hold:
        held[1] = build(p1)
        held[2] = held[1] if changed_problem["same_model"] else build(p2)
    markets = {}

    def market_of(p, which):
        """market price of the product route: the fresh price at x* of this problem, or - `market` = "first", set on the
        changed problem only - the price of the unchanged problem (so that exactly one thing differs)"""
        if which not in markets:
            src = base_problem if p.get("market") == "first" else p
            pn, (lo, hi) = src["pname"], src["interval"]
            xstar = lo + src["frac"] * (hi - lo)
            e = src["env"]
            product = make_product(src["kind"], src["k"] * e["spot"], src["T"])
            markets[which] = fresh_price(fam, dict(src["values"], **{pn: xstar}), e["r"], e["d"], e["spot"], product)
        return markets[which]

    fn_name = {"default": "run_default_calibration", "atm": "calibrate_model_parameter_to_atm_call",
               "product": "calibrate_model_parameter"}[fn]
    steps = [(1, p1, "first problem"), (2, p2, f"second problem (differs in {vname})"), (1, p1, "first problem again")]
    for n, (which, p, text) in enumerate(steps):
        env = p["env"]
        model = held[which] if hold else build(p)
        watched = list({id(m): m for m in ([model] + list(held.values()))}.values())
        before = [snap(m) for m in watched]
        label = f"neighbours {vname}, order {case['order']}, models {'kept' if hold else 'discarded'}: step {n + 1}, {text}"
        pname, interval, T, vol = p["pname"], p["interval"], p["T"], p["vol"]
        if fn == "default":
            call = lambda: U.run_default_calibration(model=model, maturity=T, bs_sigma=vol)  # noqa: E731
        elif fn == "atm":
            product = make_product("call", env["spot"], T)
            market = bs_call(env["spot"], env["spot"], env["r"], env["d"], vol, T)
            call = lambda: U.calibrate_model_parameter_to_atm_call(model=model, parameter=pname, parameter_interval=interval,  # noqa: E731
                                                                   maturity=T, bs_sigma=vol)
        else:
            product = make_product(p["kind"], p["k"] * env["spot"], p["T"])
            try:
                market = market_of(p, which)
            except Exception:
                market = math.nan
            if not math.isfinite(market):
                sh.count("oracle_inconclusive")
                continue
            call = lambda: U.calibrate_model_parameter(model=model, parameter=pname, parameter_interval=interval,  # noqa: E731
                                                       product=product, market_price=market)
        attempts = _call_with_seam_fallback(sh, fn_name, call, watched)
        for att_label, res, exc, after in attempts:
            lab = f"{att_label}; {label}"
            for m, b, af in zip(watched, before, after):
                _check_untouched(sh, fn_name, fam, b, af, lab,
                                 role="input-model-modified" if m is model else "model-not-given-modified")
            if fn == "default":
                _judge_default_result(sh, env, fam, p["values"], type(model), (model.spot, model.r, model.d), res, exc, T, vol, lab)
            else:
                _judge_parameter(sh, fn_name, env, fam, p["values"], pname, interval, product, market, res, exc, lab)
        sh.cls(f"neighbours:{fn}:{var[0]}:{var[1] if len(var) > 1 and var[0] != 'param' else (var[2] if var[0] == 'param' else '')}")
        if not hold:
            del model, watched, call, attempts
            gc.collect()
    for which, m in held.items():
        if which == 2 and changed_problem["same_model"]:
            continue
        p = p1 if which == 1 else p2
        _check_behaviour(sh, "neighbours", fam, m, p["values"], p["env"]["r"], p["env"]["d"], p["env"]["spot"],
                         f"model of problem {which} after neighbours {vname}", role="re-used-model")
    sh.outcome((fam, fn, case["param"], vname, case["order"], hold))


# ----------------------------------------------------------------------------------------------------------------------
# re-calibrations: the START model is (almost) calibrated already
# ----------------------------------------------------------------------------------------------------------------------

# relative moves of the quote (volatility requested / market price) between the first pass and the re-calibration; 0 = the
# same quote again
RECAL_MOVES = [0.0, 1e-9, 1e-7, 4e-6, -7e-6, 1e-4, 1e-2]
RECAL_ENV = {"r": 0.02, "d": 0.0, "spot": 100.0}
RECAL_FN = {"default": "run_default_calibration", "atm": "calibrate_model_parameter_to_atm_call",
            "product": "calibrate_model_parameter"}
RECAL_DISPLACED = 0.37  # the reference start model holds a + 0.37 (b - a) where the re-calibrated one holds the solution


def _move_class(delta):
    if delta == 0.0:
        return "same-quote"
    return "quote-moved-by-less-than-1e-5" if abs(delta) < 1e-5 else "quote-moved-by-more-than-1e-5"


def _recal_cases(fam, thorough):
    out = []
    n_par = len(CALIB[fam])

    def add(**kw):
        out.append(dict({"sub": "calib-recal", "family": fam, "start": 0, "rebuild": "ctor"}, **kw))

    if thorough:
        for s in range(2):
            for rb in ("ctor", "reinit", "deepcopy"):
                for T in (0.25, 0.5, 1.0):
                    for vol in (0.1, 0.2, 0.35):
                        if rb == "ctor":
                            add(fn="default", param=0, T=T, vol=vol, start=s)
                        for pi in range(n_par):
                            add(fn="atm", param=pi, T=T, vol=vol, start=s, rebuild=rb)
                for pi in range(n_par):
                    for kind, k, T, frac in (("put", 1.1, 0.25, 0.3), ("call", 1.0, 1.0, 0.7), ("call", 0.9, 0.25, 0.7),
                                             ("put", 0.9, 1.0, 0.3)):
                        add(fn="product", param=pi, kind=kind, k=k, T=T, frac=frac, start=s, rebuild=rb)
        return out
    for T, vol in ((1.0, 0.2), (0.25, 0.2), (1.0, 0.1), (0.5, 0.1), (0.25, 0.35)):
        add(fn="default", param=0, T=T, vol=vol)
    add(fn="default", param=0, T=1.0, vol=0.2, start=1)
    for pi in range(n_par):
        add(fn="atm", param=pi, T=1.0, vol=0.2, rebuild="reinit" if pi == 0 else "ctor")
    add(fn="atm", param=0, T=0.25, vol=0.35, rebuild="deepcopy")
    add(fn="atm", param=n_par - 1, T=0.5, vol=0.1, start=1, rebuild="reinit")
    add(fn="product", param=0, kind="put", k=1.1, T=0.25, frac=0.3, rebuild="reinit")
    add(fn="product", param=0, kind="call", k=1.0, T=1.0, frac=0.7)
    add(fn="product", param=1, kind="put", k=1.1, T=0.25, frac=0.3)
    return out


def _sub_calib_recal(sh, case):
    """Calibration histories in which the start model already prices the target (almost): first pass from the start set,
    then the RETURNED model (default calibration: the returned object; the two value-returning functions: a model holding
    the returned value, built by the route `rebuild`) is calibrated again
       star    to the quote moved by each relative amount of RECAL_MOVES (0 = the same quote again), always from the model of
               the first pass;
       chain   to the same quotes in that order, each time from the model returned by the step before;
       rounded from a model holding the first-pass value rounded to 6 significant digits, to the quote of the first pass;
       other   (value-returning functions) ANOTHER parameter of the menu of the calibrated model is calibrated to the quote
               moved by 0 / 4e-6 / 1e-4;
       halves  (value-returning functions) the model of the first pass is calibrated again, quote moved by 4e-6, on the lower
               and on the upper half of the interval (one of them does not hold the start value: no root there as a rule);
       input   the INPUT object of the first pass is calibrated again to the quote moved by 0 / 4e-6.
    Oracle: every outcome is judged like a first-pass calibration (value inside the interval, the directly constructed model
    reprices the NEW target within the root-finder tolerance, a raise only without a bracketed root, input untouched; default
    calibration: the whole oracle of the returned model); and the answer does not depend on the value the calibrated
    parameter had in the start model: it equals, within 8 (xtol + rtol |x|) + 1e-11 max(1, |price|) / slope, the answer for
    the same target from a model that holds a + 0.37 (b - a) instead (star / chain / rounded / input: from the start set
    itself)."""
    from rpylib.model import utils as U

    fam, fnk, T = case["family"], case["fn"], case["T"]
    fn = RECAL_FN[fnk]
    env = RECAL_ENV
    r, d, spot = env["r"], env["d"], env["spot"]
    start = dict(STARTS[fam][case["start"]])
    if fnk == "default":
        pname, interval = _default_entry(sh, U, fam)
    else:
        pname, interval = CALIB[fam][case["param"]]
    interval = tuple(interval)
    if fnk == "product":
        product = make_product(case["kind"], case["k"] * spot, T)
        xstar = interval[0] + case["frac"] * (interval[1] - interval[0])
        try:
            quote0 = fresh_price(fam, dict(start, **{pname: xstar}), r, d, spot, product)
        except Exception:
            quote0 = math.nan
        if not math.isfinite(quote0):
            sh.count("oracle_inconclusive")
            return
    else:
        product = make_product("call", spot, T)
        quote0 = case["vol"]

    def market_of(quote):
        return quote if fnk == "product" else bs_call(spot, spot, r, d, quote, T)

    def solve(model, quote, what, pn=pname, iv=interval, values=None, tag=None):
        """one calibration of `model` (holding `values`) to `quote`, judged; returns (x, returned model or None)"""
        values = values if values is not None else param_values(fam, model.levy_model.parameters)
        before = snap(model)
        if fnk == "default":
            call = lambda: U.run_default_calibration(model=model, maturity=T, bs_sigma=quote)  # noqa: E731
        elif fnk == "atm":
            call = lambda: U.calibrate_model_parameter_to_atm_call(model=model, parameter=pn, parameter_interval=iv,  # noqa: E731
                                                                   maturity=T, bs_sigma=quote)
        else:
            call = lambda: U.calibrate_model_parameter(model=model, parameter=pn, parameter_interval=iv, product=product,  # noqa: E731
                                                       market_price=quote)
        key_fn = fn if tag is None else f"{fn}:recalibration:{tag}"
        attempts = _call_with_seam_fallback(sh, fn, call, [model])
        out = (None, None)
        for att, res, exc, after in attempts:
            lab = f"{att}; {what}"
            _check_untouched(sh, key_fn, fam, before, after[0], lab)
            if fnk == "default":
                if exc is None and (res is model or getattr(getattr(res, "levy_model", None), "parameters", None)
                                    is model.levy_model.parameters):
                    sh.violation(f"C20:calib:{key_fn}:result-aliases-the-input:{fam}",
                                 f"{fn} returned an object sharing the input's {'model' if res is model else 'parameters'} [{lab}]", None)
                got = _judge_default_result(sh, env, fam, values, type(model), (model.spot, model.r, model.d), res, exc, T, quote,
                                            lab, fn_label=key_fn)
                out = (got[0], res) if got else (None, None)
            else:
                x = _judge_parameter(sh, key_fn, env, fam, values, pn, iv, product, market_of(quote), res, exc, lab)
                out = (x, None)
        return out

    def rebuilt(values):
        return make_exp_model_via(case["rebuild"], fam, values, r, d, spot)[0]

    def same_answer(x, x_ref, quote, values, what, tag, pn=pname, iv=interval):
        """the answer does not depend on the value the calibrated parameter had in the start model"""
        if x is None or x_ref is None:
            sh.count("recal_comparison_skipped_no_value")
            return
        market = market_of(quote)
        lo, hi = min(iv), max(iv)

        def f(v):
            return fresh_price(fam, dict(values, **{pn: v}), r, d, spot, product) - market
        try:
            h = max(1e-7, 1e-7 * abs(x_ref))
            up, dn = min(hi, x_ref + h), max(lo, x_ref - h)
            slope = abs(f(up) - f(dn)) / (up - dn)
        except Exception:
            slope = math.nan
        sh.count("evaluations")
        if not (math.isfinite(slope) and slope > 0.0):
            sh.count("oracle_inconclusive")
            return
        tol = 8.0 * (XTOL + RTOL_BRENT * abs(x_ref)) + 1e-11 * max(1.0, abs(market)) / slope
        sh.nontriv()
        sh.cls("recal:same-answer:" + ("bit-identical" if x == x_ref else "within-tolerance" if abs(x - x_ref) <= tol else "differs"))
        if not (abs(x - x_ref) <= tol):
            sh.violation(
                f"C20:recal:{fn}:answer-depends-on-the-start-value-of-the-calibrated-parameter:{fam}:{pn}:{tag}",
                f"{fn}({fam}, {pn} in {iv}) [{what}]: {x!r} from the (almost) calibrated start model, {x_ref!r} for the same "
                f"target from a start model that holds another value of {pn}: difference {abs(x - x_ref):.3e} > {tol:.3e}",
                {"recalibrated": x, "reference": x_ref, "tolerance": tol, "slope": slope, "quote": quote})

    # ---- first pass, from the start set
    m0 = make_exp_model(fam, start, r, d, spot)
    x0, cm0 = solve(m0, quote0, "first pass from the start set")
    if x0 is None:
        sh.count("recal_first_pass_without_value")
        sh.cls(f"recal:{fnk}:first-pass-raised")
        return
    model1 = cm0 if fnk == "default" else rebuilt(dict(start, **{pname: x0}))
    quotes = [quote0 * (1.0 + dl) for dl in RECAL_MOVES]
    # references: first-pass calibrations to the moved quotes, each from a freshly constructed start model
    refs = []
    for dl, q in zip(RECAL_MOVES, quotes):
        if dl == 0.0:
            refs.append(x0)
        else:
            refs.append(solve(make_exp_model(fam, start, r, d, spot), q, f"first pass to the quote moved by {dl:g}")[0])
    # ---- star
    for dl, q, x_ref in zip(RECAL_MOVES, quotes, refs):
        tag = _move_class(dl)
        what = f"the model of the first pass calibrated again, quote moved by {dl:g}"
        x, _ = solve(model1, q, what, tag=tag)
        same_answer(x, x_ref, q, start, what, tag)
    # ---- chain
    cur = model1
    for n, (dl, q, x_ref) in enumerate(zip(RECAL_MOVES, quotes, refs)):
        tag = _move_class(dl if n == 0 else RECAL_MOVES[n] - RECAL_MOVES[n - 1])
        what = f"chain step {n + 1}: the model returned by the step before calibrated to the quote moved by {dl:g}"
        if n > 0:  # step 1 of the chain is the first element of the star
            x, cm = solve(cur, q, what, tag=tag)
            same_answer(x, x_ref, q, start, what, tag)
            if x is None:
                sh.count("recal_chain_cut")
                break
            cur = cm if fnk == "default" else rebuilt(dict(start, **{pname: x}))
    # ---- rounded start value
    xr = float(f"{x0:.6g}")
    if min(interval) <= xr <= max(interval) and xr != x0:
        what = "start value = the first-pass value rounded to 6 significant digits, same quote"
        x, _ = solve(rebuilt(dict(start, **{pname: xr})), quote0, what, tag="rounded-start-value")
        same_answer(x, x0, quote0, start, what, "rounded-start-value")
    # ---- another parameter of the calibrated model
    if fnk != "default":
        n_par = len(CALIB[fam])
        pn2, iv2 = CALIB[fam][(case["param"] + 1) % n_par]
        vals1 = dict(start, **{pname: x0})
        if min(iv2) <= vals1[pn2] <= max(iv2):
            for dl in (0.0, 4e-6, 1e-4):
                q = quote0 * (1.0 + dl)
                tag = "other-parameter:" + _move_class(dl)
                what = f"{pn2} of the model calibrated in {pname} is calibrated, quote moved by {dl:g}"
                x, _ = solve(rebuilt(vals1), q, what, pn=pn2, iv=tuple(iv2), tag=tag)
                displaced = dict(vals1, **{pn2: iv2[0] + RECAL_DISPLACED * (iv2[1] - iv2[0])})
                try:
                    m_ref = make_exp_model(fam, displaced, r, d, spot)
                except Exception:
                    sh.count("oracle_inconclusive")
                    continue
                x_ref, _ = solve(m_ref, q, what + " (reference: displaced start value)", pn=pn2, iv=tuple(iv2), values=displaced)
                same_answer(x, x_ref, q, vals1, what, tag, pn=pn2, iv=tuple(iv2))
    # ---- the same parameter on the two halves of the interval: the start value lies in one of them at most
    if fnk != "default":
        lo, hi = min(interval), max(interval)
        mid = 0.5 * (lo + hi)
        for half, iv in (("lower", (lo, mid)), ("upper", (mid, hi))):
            inside = iv[0] <= x0 <= iv[1]
            tag = "half-interval-" + ("holding" if inside else "excluding") + "-the-start-value"
            what = f"the model of the first pass calibrated again on the {half} half {iv} of the interval, quote moved by 4e-06"
            q = quotes[RECAL_MOVES.index(4e-6)]
            x, _ = solve(model1, q, what, iv=iv, tag=tag)
            if inside and iv[0] < x0 < iv[1]:
                same_answer(x, refs[RECAL_MOVES.index(4e-6)], q, start, what, tag, iv=iv)
            sh.cls("recal:" + tag)
    # ---- the input object of the first pass, once more
    for dl in (0.0, 4e-6):
        i = RECAL_MOVES.index(dl)
        what = f"the input object of the first pass calibrated again, quote moved by {dl:g}"
        x, _ = solve(m0, quotes[i], what, values=start, tag="input-object-again:" + _move_class(dl))
        same_answer(x, refs[i], quotes[i], start, what, "input-object-again:" + _move_class(dl))
    _check_behaviour(sh, fn, fam, m0, start, r, d, spot, "input model after the re-calibrations")
    _check_behaviour(sh, fn, fam, model1, param_values(fam, model1.levy_model.parameters) if fnk == "default"
                     else dict(start, **{pname: x0}), r, d, spot, "first-pass model after the re-calibrations", role="re-used-model")
    sh.cls(f"recal:{fnk}:{fam}:{pname}")
    sh.cls(f"recal:rebuild:{case['rebuild']}")
    sh.outcome((fam, fnk, pname, "recal", round(x0, 6)))
