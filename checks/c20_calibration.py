"""C20 - calibration reprices its target; derived parameters stay in sync with updates.

Three sub-checks, all complete enumerations of the stated finite spaces on the real code.

 calib-atm / calib-default / calib-product   (lattice sweep)
     exponential models of the four calibratable types (HEM, Merton, CGMY, VG) x start parameter sets (2; CGMY 5 in the
     thorough tier: y = 0.5, 1.2, -0.5, 1, 0) x (r, d, spot) in {(0.02, 0, 100), (0.05, 0.02, 100), thorough: (0.02, 0, 50)}
     (quick: the second triple only with the default parameter of each type) x maturity T in {0.25, 1} x target:
       atm      calibrate_model_parameter_to_atm_call for every (parameter, interval) of the menu CALIB (the default
                parameter of utils.default_calibration plus two others per type) x Black-Scholes volatility {0.1, 0.2, 0.35}
       default  run_default_calibration x volatility {0.1, 0.2, 0.35}
       product  calibrate_model_parameter with a call / put (strike 0.9, 1, 1.1 x spot) whose market price is the COS price
                of a freshly constructed model of the same type at a known parameter value x* inside the interval (so a
                solution exists), and with a forward target (market price = model forward, and model forward + 1: the
                forward does not depend on the parameter, no root)
     oracle, evaluated on models *constructed directly* from parameter values (never on the calibration's own objects):
       - a returned value is a finite real inside the interval; the COS price of the product under the model constructed
         with that value equals the market price within 4 x slope x (brentq xtol + rtol|x|) + 1e-8 max(1, |price|), the
         slope being a finite difference of the same fresh price;
       - if the call raises although the fresh objective has opposite signs at the two interval ends (a solution exists by
         continuity) that is a violation; a raise without a bracketed root is what the statement allows;
       - run_default_calibration returns an object of the input's class whose parameter lies in the default interval, whose
         ATM call (COS) equals the Black-Scholes closed form (re-derived here with math.erf), and which behaves like the
         model constructed directly from its parameter values (cached fields, exponent, masses, drifts);
       - a deep snapshot (float.hex of every number reachable from the input model) is identical before and after, whether
         the call returned or raised.
     On the installed numpy (2.5) scipy's brentq refuses an objective that returns a 1-element array, which is what
     COSPricer.call/put return: every vanilla-target calibration raises TypeError. That is reported once per function
     (failure class raises-although-root-bracketed:TypeError); the case is then re-run with the name `COSPricer` in
     rpylib.model.utils bound to a subclass whose price() squeezes the result to a float, so that the rest of the oracle is
     still evaluated (counter seam_reruns; stated in ASSUMPTIONS).

 assign   (explicit-state search, core.bfs)
     per Parameters class (HEM, Merton, VG, CGMY, Black-Scholes): state = history of events on one parameters object built
     by the public constructor with the library's default values; events = setattr(attribute, value) for 2-3 values per
     attribute (legal ones, the legal boundary of a non-strict constraint, and one illegal value where a constraint is
     declared) and initialisation(); depth <= 3 (quick) / 4 (thorough).  Canonical state = complete vars() of the object
     (float.hex) + "initialisation() completed since the last successful assignment": vars() is the whole state of such an
     object, so merged states have equal futures.
     invariants on every transition:
       - an illegal value raises ValueError and leaves vars() unchanged; a legal value is stored, reads back, and changes
         no other entry (legality = the constraint declared in the class, with the meaning given by its error message:
         positive x>=0, strictly positive x>0, strictly less than 2 x<2);
       - initialisation() raises iff the constructor raises for the same values;
       - whenever initialisation() has completed since the last assignment: the object's derived entries equal those of a
         freshly constructed parameters object with the same values, and the Levy model and the exponential model built
         from the updated object give the same observations as those built from the fresh one: levy_exponent at 4 points,
         density at 2, mass on 4 intervals, cumulants 1/2/4/6, process_drift, triplet (a, sigma, representation), omega,
         drift, log characteristic function (an observation is a value or the type of the exception raised).

 constraints   every factory of rpylib/tools/parameter.py on a scratch class x an alphabet of values around its bound(s)
     x {first assignment, assignment after a legal one}: accepted iff the documented relation holds; rejected with
     ValueError and the previous value kept.

Not a defect by this statement (observed, not asserted): the order of the interval end points (brentq accepts a > b), the
content of utils.default_calibration (the library's own table defines "the default interval"; a difference from the table
in this module is recorded as a note).

Outside the alphabet (statement silent): vector strikes, products other than call/put/forward, models built *before* an
assignment (they alias the parameters object), VG nu/theta (no constraint declared: any value is legal; nu = 0 is not
probed), HEM eta1 = 1, intervals leaving the admissible domain of the parameter.
"""
from __future__ import annotations

import enum
import math
import warnings

import numpy as np

from mc import core

PID = "C20"
LEVEL = "model_checking"
RULE = (
    "complete product family x start set x rates x calibrated parameter x maturity x target (calibration), BFS over all "
    "assignment/initialisation histories up to the depth bound per Parameters class, complete product factory x value x "
    "history (constraints); a case is non-trivial when a calibration returned and was re-priced on a fresh model or raised "
    "and the bracket was examined, or when at least one updated-vs-fresh model comparison was made; distinct = case dict"
)
ASSUMPTIONS = [
    "existence of a solution is decided by a sign change of the freshly computed objective at the two interval ends "
    "(continuity of the COS price in the parameter); cases without a sign change only require 'returns a repricing value "
    "or raises'",
    "when scipy.brentq rejects the library's 1-element-array objective (TypeError on numpy >= 2.5) the case is reported and "
    "re-run with rpylib.model.utils.COSPricer bound to a subclass whose price() returns float(np.squeeze(price))",
    "legality of an assigned value is the constraint declared in the Parameters class read as its error message states",
    "assignment search: 2-3 values per attribute, depth as stated; r=0.02, d=0, spot=100 for the exponential models there",
]
CHUNK = 4

FAMILIES = ("hem", "merton", "cgmy", "vg")
XTOL = 2e-12  # scipy.optimize.brentq defaults
RTOL_BRENT = 4 * np.finfo(float).eps

# start parameter sets (first = library defaults of the exponential creators)
STARTS = {
    "hem": [
        {"sigma": 0.05, "p": 0.6, "eta1": 20.0, "eta2": 25.0, "intensity": 3.0},
        {"sigma": 0.0, "p": 0.3, "eta1": 10.0, "eta2": 40.0, "intensity": 5.0},
    ],
    "merton": [
        {"sigma": 0.05, "sigma_j": 0.05, "mu_j": 0.03, "intensity": 3.0},
        {"sigma": 0.0, "sigma_j": 0.1, "mu_j": 0.0, "intensity": 3.0},
    ],
    "cgmy": [
        {"c": 1.0, "g": 15.0, "m": 20.0, "y": 0.5},
        {"c": 0.5, "g": 6.0, "m": 6.0, "y": 1.2},
        # thorough only: the remaining branch classes of y
        {"c": 1.0, "g": 15.0, "m": 20.0, "y": -0.5},
        {"c": 0.1, "g": 5.0, "m": 7.0, "y": 1.0},
        {"c": 1.0, "g": 15.0, "m": 20.0, "y": 0.0},
    ],
    "vg": [
        {"sigma": 0.1, "nu": 0.06, "theta": 0.1},
        {"sigma": 0.2, "nu": 0.2, "theta": -0.15},
    ],
    "bs": [{"sigma": 0.1}],
}
# (parameter, interval): first entry = utils.default_calibration (checked against the library's table at run time)
CALIB = {
    "hem": [("sigma", (0.0, 1.0)), ("intensity", (0.0, 30.0)), ("eta1", (2.0, 200.0))],
    "merton": [("mu_j", (0.0, 1.0)), ("sigma", (0.0, 1.0)), ("sigma_j", (0.001, 1.0))],
    "cgmy": [("c", (1e-12, 20.0)), ("m", (2.0, 100.0)), ("y", (0.1, 0.9))],
    "vg": [("sigma", (0.00001, 1.0)), ("nu", (0.01, 2.0)), ("theta", (-0.5, 0.5))],
}
PRODUCT_KINDS = [
    ("call", 1.0), ("put", 1.0), ("call", 0.9), ("call", 1.1), ("put", 0.9), ("put", 1.1), ("forward", 1.0),
    ("forward+1", 1.0),
]


def _mt(fam):
    from rpylib.model.levymodel.levymodel import ModelType

    return {"hem": ModelType.HEM, "merton": ModelType.MERTON, "vg": ModelType.VG, "cgmy": ModelType.CGMY,
            "bs": ModelType.BLACKSCHOLES}[fam]


def cases(tier):
    thorough = tier == "thorough"
    out = []
    # constraint factories first (cheapest)
    for name in CONSTRAINT_FACTORIES:
        out.append({"sub": "constraints", "factory": name})
    # assignment graphs
    depth = 4 if thorough else 3
    for fam in ("bs", "merton", "vg", "hem", "cgmy"):
        n_ev = len(_events(fam))
        if thorough and fam != "bs":
            # split by first event so that the work spreads over the workers; the empty prefix covers depth-1 histories
            out.append({"sub": "assign", "cls": fam, "depth": 1, "prefix": []})
            for i in range(n_ev):
                out.append({"sub": "assign", "cls": fam, "depth": depth - 1, "prefix": [i]})
        else:
            out.append({"sub": "assign", "cls": fam, "depth": depth, "prefix": []})
    # (r, d, spot): thorough = full product; quick = the first triple everywhere, the second (d != 0, r != d) for the
    # default parameter of each type only
    env = [(0.02, 0.0, 100.0), (0.05, 0.02, 100.0)] + ([(0.02, 0.0, 50.0)] if thorough else [])
    Ts = [0.25, 1.0]
    vols = [0.1, 0.2, 0.35]
    for fam in FAMILIES:
        starts = range(len(STARTS[fam])) if thorough else range(2)
        for ei, (r, d, spot) in enumerate(env):
            for s in starts:
                for T in Ts:
                    for vol in vols:
                        out.append({"sub": "calib-default", "family": fam, "start": s, "r": r, "d": d, "spot": spot,
                                    "T": T, "vol": vol})
                        for pi in range(len(CALIB[fam])):
                            if pi > 0 and (s >= 2 or (ei > 0 and not thorough)):
                                continue
                            out.append({"sub": "calib-atm", "family": fam, "start": s, "r": r, "d": d, "spot": spot,
                                        "param": pi, "T": T, "vol": vol})
    for fam in FAMILIES:
        for ei, (r, d, spot) in enumerate(env):
            for s in range(2):
                for pi in range(len(CALIB[fam]) if thorough else 1):
                    for T in Ts:
                        for frac in (0.3, 0.7):
                            if ei > 0 and not thorough and frac != 0.3:
                                continue
                            for kind, k in PRODUCT_KINDS:
                                if kind.startswith("forward") and frac != 0.3:
                                    continue
                                out.append({"sub": "calib-product", "family": fam, "start": s, "r": r, "d": d,
                                            "spot": spot, "param": pi, "T": T, "kind": kind, "k": k, "frac": frac})
    return out


def check_case(sh, case):
    with warnings.catch_warnings():
        warnings.simplefilter("ignore")
        with np.errstate(all="ignore"):
            globals()["_sub_" + case["sub"].replace("-", "_")](sh, case)


# ----------------------------------------------------------------------------------------------------------------------
# generic helpers: snapshots, observations, comparisons
# ----------------------------------------------------------------------------------------------------------------------

def snap(x, _seen=None):
    """Deep, hashable, bit-exact snapshot of everything reachable from x through __dict__, containers and arrays."""
    if _seen is None:
        _seen = set()
    if x is None or isinstance(x, (bool, str)):
        return x
    if isinstance(x, enum.Enum):
        return ("enum", type(x).__name__, x.name)
    if isinstance(x, (int,)):
        return ("i", int(x))
    if isinstance(x, float):
        return ("f", float(x).hex())
    if isinstance(x, complex):
        return ("c", float(x.real).hex(), float(x.imag).hex())
    if isinstance(x, np.generic):
        return snap(x.item(), _seen)
    if isinstance(x, np.ndarray):
        return ("a", x.shape, tuple(snap(v, _seen) for v in x.ravel().tolist()))
    if isinstance(x, dict):
        return ("d", tuple(sorted(((repr(k), snap(v, _seen)) for k, v in x.items()), key=lambda kv: kv[0])))
    if isinstance(x, (list, tuple)):
        return ("l", tuple(snap(v, _seen) for v in x))
    if isinstance(x, (set, frozenset)):
        return ("s", tuple(sorted(repr(snap(v, _seen)) for v in x)))
    if callable(x) and not hasattr(x, "__dict__"):
        return ("callable", getattr(x, "__qualname__", type(x).__name__))
    if hasattr(x, "__func__") or isinstance(x, type) or type(x).__name__ in ("function", "builtin_function_or_method", "method"):
        return ("callable", getattr(x, "__qualname__", type(x).__name__))
    if hasattr(x, "__dict__"):
        if id(x) in _seen:
            return ("ref", type(x).__name__)
        _seen.add(id(x))
        return ("o", type(x).__name__, snap(vars(x), _seen))
    return ("repr", repr(x))


def snap_diff(a, b, path="", out=None, limit=6):
    """Paths at which two snapshots differ (for the report)."""
    if out is None:
        out = []
    if len(out) >= limit or a == b:
        return out
    if isinstance(a, tuple) and isinstance(b, tuple) and len(a) == len(b) and a[:1] == b[:1] and a and a[0] in ("o", "d", "l", "a"):
        if a[0] == "o":
            if a[1] != b[1]:
                out.append(f"{path}: class {a[1]} -> {b[1]}")
            else:
                snap_diff(a[2], b[2], path + "<" + a[1] + ">", out, limit)
            return out
        if a[0] == "d":
            da, db = dict(a[1]), dict(b[1])
            for k in sorted(set(da) | set(db)):
                if da.get(k) != db.get(k):
                    snap_diff(da.get(k), db.get(k), path + "." + k.strip("'"), out, limit)
            return out
        if a[0] == "l" and len(a[1]) == len(b[1]):
            for i, (u, v) in enumerate(zip(a[1], b[1])):
                snap_diff(u, v, f"{path}[{i}]", out, limit)
            return out
    out.append(f"{path}: {_pretty(a)} -> {_pretty(b)}")
    return out


def _pretty(s):
    if isinstance(s, tuple) and s and s[0] == "f":
        return repr(float.fromhex(s[1]))
    if isinstance(s, tuple) and s and s[0] == "i":
        return repr(s[1])
    return repr(s)[:120]


def _num_equal(x, y, rtol=1e-9):
    """Equality of two observed values: numbers within rtol (nan = nan, equal infinities), everything else exactly."""
    if isinstance(x, (tuple, list)) and isinstance(y, (tuple, list)):
        return len(x) == len(y) and all(_num_equal(u, v, rtol) for u, v in zip(x, y))
    if isinstance(x, (bool, str)) or isinstance(y, (bool, str)) or x is None or y is None:
        return x == y
    try:
        cx, cy = complex(x), complex(y)
    except Exception:
        return x == y
    for u, v in ((cx.real, cy.real), (cx.imag, cy.imag)):
        if math.isnan(u) or math.isnan(v):
            if not (math.isnan(u) and math.isnan(v)):
                return False
            continue
        if math.isinf(u) or math.isinf(v):
            if u != v:
                return False
            continue
        scale = max(abs(cx), abs(cy))
        if not math.isfinite(scale):  # the other part is nan/inf (compared on its own): scale by this part only
            scale = max(abs(u), abs(v))
        if not core.close(u, v, rtol=rtol, atol=0.0, scale=scale):
            return False
    return True


def _obs(fn):
    try:
        v = fn()
    except Exception as e:  # an observation is a value or the type of the exception
        return ("raises", type(e).__name__)
    if isinstance(v, np.ndarray):
        v = v.tolist()
    if isinstance(v, np.generic):
        v = v.item()
    if isinstance(v, enum.Enum):
        v = v.name
    return ("value", v)


def _obs_equal(a, b):
    if a[0] != b[0]:
        return False
    if a[0] == "raises":
        return a[1] == b[1]
    return _num_equal(a[1], b[1])


ATTRS = {
    "hem": ["sigma", "p", "eta1", "eta2", "intensity"],
    "merton": ["sigma", "mu_j", "sigma_j", "intensity"],
    "vg": ["sigma", "nu", "theta"],
    "cgmy": ["c", "g", "m", "y"],
    "bs": ["sigma"],
}
U_POINTS = [0.4, -1.3, 4.0, -1j]
MASS_INTERVALS = [(-math.inf, -0.3), (-0.3, -0.01), (0.01, 0.3), (0.3, math.inf)]


def _classes(fam):
    from rpylib.model import utils as U

    return U.models_description[_mt(fam)]


def make_parameters(fam, values):
    return _classes(fam).parameters(**{k: values[k] for k in ATTRS[fam]})


def make_exp_model(fam, values, r, d, spot):
    """A model constructed directly with the final values (the reference of the statement)."""
    cl = _classes(fam)
    return cl.exponential_of_levy_model(spot=spot, r=r, d=d, parameters=make_parameters(fam, values))


def param_values(fam, parameters):
    return {k: getattr(parameters, k) for k in ATTRS[fam]}


def derived_fields(fam, parameters):
    return {k: v for k, v in vars(parameters).items() if k not in ATTRS[fam]}


def observe_models(fam, parameters, r=0.02, d=0.0, spot=100.0):
    """Observations of the Levy model and of the exponential model built from `parameters` (a Parameters object)."""
    cl = _classes(fam)
    obs = {}
    for k, v in sorted(derived_fields(fam, parameters).items()):
        obs["field:" + k] = _obs(lambda v=v: v)
    models = {}
    if fam != "bs":
        try:
            models["levy"] = cl.levy_model(parameters=parameters)
        except Exception as e:
            obs["levy:construct"] = ("raises", type(e).__name__)
    try:
        models["exp"] = cl.exponential_of_levy_model(spot=spot, r=r, d=d, parameters=parameters)
    except Exception as e:
        obs["exp:construct"] = ("raises", type(e).__name__)
    for tag, m in models.items():
        lm = getattr(m, "levy_model", m)
        for u in U_POINTS:
            obs[f"{tag}:levy_exponent({u})"] = _obs(lambda: complex(lm.levy_exponent(u)))
        nu = m.levy_triplet.nu
        for x in (-0.1, 0.2):
            obs[f"{tag}:density({x})"] = _obs(lambda: float(nu(x)))
        for (a, b) in MASS_INTERVALS:
            obs[f"{tag}:mass({a},{b})"] = _obs(lambda: float(m.mass(a, b)))
        for n in (1, 2, 4, 6):
            obs[f"{tag}:cumulant{n}"] = _obs(lambda: float(getattr(m.cumulant, f"cumulant{n}")(1.0)))
        obs[f"{tag}:process_drift"] = _obs(lambda: float(m.process_drift()))
        obs[f"{tag}:triplet.a"] = _obs(lambda: float(m.levy_triplet.a))
        obs[f"{tag}:triplet.sigma"] = _obs(lambda: float(m.levy_triplet.sigma))
        obs[f"{tag}:representation"] = _obs(lambda: m.levy_triplet.representation)
        obs[f"{tag}:intensity"] = _obs(lambda: float(m.intensity()))
        if tag == "exp":
            obs["exp:omega"] = _obs(lambda: float(m.omega))
            obs["exp:drift"] = _obs(lambda: float(m.drift()))
            obs["exp:logcf(1,0.7)"] = _obs(lambda: complex(m.log_characteristic_function(1.0, 0.7)))
            obs["exp:mean(1)"] = _obs(lambda: float(m.mean(1.0)))
    return obs


def _obs_name_class(name):
    """Stable component name of an observation for the violation key (no floats)."""
    return name.split("(")[0]


# ----------------------------------------------------------------------------------------------------------------------
# constraints
# ----------------------------------------------------------------------------------------------------------------------

# factory name -> (arguments, relation as documented by the error message, kind)
CONSTRAINT_FACTORIES = {
    "positive": ((), lambda x: x >= 0, "scalar"),
    "negative": ((), lambda x: x <= 0, "scalar"),
    "strictly_positive": ((), lambda x: x > 0, "scalar"),
    "strictly_negative": ((), lambda x: x < 0, "scalar"),
    "greater_than": ((1.5,), lambda x: x >= 1.5, "scalar"),
    "strictly_greater_than": ((1.5,), lambda x: x > 1.5, "scalar"),
    "less_than": ((2.0,), lambda x: x <= 2.0, "scalar"),
    "strictly_less_than": ((2.0,), lambda x: x < 2.0, "scalar"),
    "between": ((-1.0, 2.0), lambda x: -1.0 <= x <= 2.0, "scalar"),
    "strictly_between": ((-1.0, 2.0), lambda x: -1.0 < x < 2.0, "scalar"),
    "positive_sequence": ((), lambda s: all(x >= 0 for x in s), "sequence"),
    "negative_sequence": ((), lambda s: all(x <= 0 for x in s), "sequence"),
    "strictly_positive_sequence": ((), lambda s: all(x > 0 for x in s), "sequence"),
    "strictly_negative_sequence": ((), lambda s: all(x < 0 for x in s), "sequence"),
}


def _constraint_values(args, kind):
    pts = {0.0, -1.0, 1.0, 3.0, -3.0}
    for b in args + (0.0,):
        pts |= {b, float(np.nextafter(b, math.inf)), float(np.nextafter(b, -math.inf))}
    pts = sorted(pts)
    if kind == "scalar":
        return pts
    base = [-1.0, 0.0, 1.0]
    return [[a] for a in base] + [[a, b] for a in base for b in base] + [[]]


def _sub_constraints(sh, case):
    from rpylib.tools import parameter as P

    name = case["factory"]
    args, rel, kind = CONSTRAINT_FACTORIES[name]
    fac = getattr(P, name)
    if args:
        fac = fac(*args)
    cls = type("Scratch", (), {"v": fac("v")})
    values = _constraint_values(args, kind)
    outcomes = []
    for first in [None] + [v for v in values if rel(v)]:
        for val in values:
            o = cls()
            if first is not None:
                try:
                    o.v = first
                except Exception as e:
                    sh.violation(f"C20:constraints:{name}:legal-value-rejected", f"{name}{args}: assigning {first!r} raised {e!r}",
                                 {"value": first})
                    continue
            before = dict(vars(o))
            exc = None
            try:
                o.v = val
            except Exception as e:
                exc = e
            sh.count("evaluations")
            legal = bool(rel(val))
            where = "on-the-bound" if (kind == "scalar" and val in args + ((0.0,) if not args else ())) else "off-the-bound"
            hist = "first-assignment" if first is None else "after-a-legal-assignment"
            if legal:
                if exc is not None:
                    sh.violation(f"C20:constraints:{name}:legal-value-rejected:{where}",
                                 f"{name}{args}: {val!r} satisfies the documented relation but assigning it raised {exc!r}",
                                 {"value": val, "previous": first})
                elif vars(o).get("v") != val or o.v != val:
                    sh.violation(f"C20:constraints:{name}:assignment-not-stored", f"{name}{args}: assigned {val!r}, reads {o.v!r}",
                                 {"value": val, "previous": first})
            else:
                if exc is None:
                    sh.violation(f"C20:constraints:{name}:illegal-value-accepted:{where}",
                                 f"{name}{args}: {val!r} violates the documented relation but was stored ({hist})",
                                 {"value": val, "previous": first})
                else:
                    if not isinstance(exc, ValueError):
                        sh.violation(f"C20:constraints:{name}:illegal-value-wrong-exception:{type(exc).__name__}",
                                     f"{name}{args}: assigning {val!r} raised {exc!r} instead of ValueError", {"value": val})
                    if dict(vars(o)) != before:
                        sh.violation(f"C20:constraints:{name}:illegal-assignment-changed-state",
                                     f"{name}{args}: rejected value {val!r} changed the instance from {before} to {vars(o)}",
                                     {"value": val, "previous": first})
            outcomes.append((repr(val), exc is None))
    sh.outcome((name, tuple(outcomes)))
    sh.cls("constraint:" + name)
    sh.nontriv()


# ----------------------------------------------------------------------------------------------------------------------
# assignment graph
# ----------------------------------------------------------------------------------------------------------------------

# declared constraint per attribute (read from the class bodies) and the value menu: legal values, then illegal ones
DECLARED = {
    "hem": {"sigma": "positive", "p": "strictly_positive", "eta1": "strictly_positive", "eta2": "strictly_positive",
            "intensity": "positive"},
    "merton": {"sigma": "positive", "mu_j": "positive", "sigma_j": "strictly_positive", "intensity": "positive"},
    "vg": {"sigma": "positive", "nu": None, "theta": None},
    "cgmy": {"c": "strictly_positive", "g": "positive", "m": "positive", "y": "strictly_less_than_2"},
    "bs": {"sigma": "positive"},
}
LEGAL = {
    "positive": lambda x: x >= 0,
    "strictly_positive": lambda x: x > 0,
    "strictly_less_than_2": lambda x: x < 2.0,
    None: lambda x: True,
}
MENU = {
    "hem": {"sigma": [0.0, 0.2, -0.01], "p": [0.3, 0.0], "eta1": [10.0, 0.0], "eta2": [40.0, -5.0],
            "intensity": [0.0, 5.0, -1.0]},
    "merton": {"sigma": [0.0, 0.2, -0.01], "mu_j": [0.0, 0.1, -0.02], "sigma_j": [0.1, 0.0], "intensity": [0.0, 5.0, -1.0]},
    "vg": {"sigma": [0.2, 0.0, -0.1], "nu": [0.2, 0.5], "theta": [-0.15, 0.0]},
    "cgmy": {"c": [0.5, 0.0], "g": [5.0, 0.0, -1.0], "m": [7.0, 0.0, -1.0], "y": [1.2, -0.5, 2.0]},
    "bs": {"sigma": [0.0, 0.3, -0.1]},
}


def _events(fam):
    ev = []
    for a in ATTRS[fam]:
        for v in MENU[fam][a]:
            ev.append(["set", a, v])
    ev.append(["init"])
    return ev


class _PState:
    __slots__ = ("obj", "flag", "last")

    def __init__(self, obj):
        self.obj = obj
        self.flag = True  # the constructor has just computed the derived entries
        self.last = None  # record of the last event


def _apply(st, ev):
    o = st.obj
    before = dict(vars(o))
    exc = None
    if ev[0] == "init":
        try:
            o.initialisation()
        except Exception as e:
            exc = e
        st.flag = exc is None
    else:
        try:
            setattr(o, ev[1], ev[2])
        except Exception as e:
            exc = e
        if exc is None:
            st.flag = False
    st.last = {"ev": ev, "exc": exc, "before": before, "after": dict(vars(o))}


def _sub_assign(sh, case):
    fam = case["cls"]
    base = STARTS[fam][0]
    events = _events(fam)
    prefix = [events[i] for i in case["prefix"]]
    fresh_cache = {}

    def fresh_obs(values_key):
        if values_key not in fresh_cache:
            values = dict(values_key)
            try:
                p = make_parameters(fam, values)
            except Exception as e:
                fresh_cache[values_key] = ("raises", type(e).__name__)
            else:
                fresh_cache[values_key] = ("ok", observe_models(fam, p))
        return fresh_cache[values_key]

    def build(hist):
        st = _PState(make_parameters(fam, base))
        for ev in prefix + hist:
            _apply(st, ev)
        return st

    def menu(st, hist):
        return events

    def canon(st, hist):
        return (snap(vars(st.obj)), st.flag)

    def report(key, what, hist, detail=None):
        sh.violation(key, what, {"history": prefix + hist, "detail": detail})

    def invariant(st, hist, ev):
        if ev is None:
            if prefix:
                return None
            rec = None
        else:
            rec = st.last
        o = st.obj
        if rec is not None and ev[0] == "set":
            attr, val = ev[1], ev[2]
            legal = LEGAL[DECLARED[fam][attr]](val)
            sh.count("evaluations")
            bound = "on-the-bound" if val in (0.0, 2.0) and DECLARED[fam][attr] else "off-the-bound"
            if legal:
                sh.cls(f"assign:{fam}:legal:{attr}:{bound}")
                if rec["exc"] is not None:
                    report(f"C20:assign:{fam}:legal-value-rejected:{attr}:{bound}",
                           f"{fam}.{attr} = {val!r} is admissible ({DECLARED[fam][attr]}) but raised {rec['exc']!r}", hist)
                else:
                    if getattr(o, attr) != val:
                        report(f"C20:assign:{fam}:assignment-not-stored:{attr}",
                               f"{fam}.{attr} = {val!r} reads back {getattr(o, attr)!r}", hist)
                    others_b = {k: v for k, v in rec["before"].items() if k != attr}
                    others_a = {k: v for k, v in rec["after"].items() if k != attr}
                    if snap(others_b) != snap(others_a):
                        sh.note(f"{fam}: assignment to {attr} also changes other entries of the object (observation)")
            else:
                sh.cls(f"assign:{fam}:illegal:{attr}:{bound}")
                if rec["exc"] is None:
                    report(f"C20:assign:{fam}:illegal-value-accepted:{attr}:{bound}",
                           f"{fam}.{attr} = {val!r} violates the declared constraint ({DECLARED[fam][attr]}) but was stored", hist)
                else:
                    if not isinstance(rec["exc"], ValueError):
                        report(f"C20:assign:{fam}:illegal-value-wrong-exception:{attr}:{type(rec['exc']).__name__}",
                               f"{fam}.{attr} = {val!r} raised {rec['exc']!r} instead of ValueError", hist)
                    if snap(rec["before"]) != snap(rec["after"]):
                        report(f"C20:assign:{fam}:illegal-assignment-changed-state:{attr}",
                               f"rejected {fam}.{attr} = {val!r} changed the object: {snap_diff(snap(rec['before']), snap(rec['after']))}",
                               hist)
        values = param_values(fam, o)
        vkey = tuple(sorted(values.items()))
        if rec is not None and ev[0] == "init":
            fr = fresh_obs(vkey)
            sh.count("evaluations")
            raised = type(rec["exc"]).__name__ if rec["exc"] is not None else None
            fresh_raised = fr[1] if fr[0] == "raises" else None
            if (raised is None) != (fresh_raised is None):
                report(f"C20:assign:{fam}:initialisation-and-constructor-disagree-on-raising",
                       f"{fam}{values}: initialisation() {'raised ' + raised if raised else 'returned'} but the constructor "
                       f"{'raised ' + fresh_raised if fresh_raised else 'returned'}", hist)
            if raised:
                sh.cls(f"assign:{fam}:initialisation-raises:{raised}")
        if st.flag:
            fr = fresh_obs(vkey)
            if fr[0] != "ok":
                return None
            mine = observe_models(fam, o)
            ref = fr[1]
            sh.count("evaluations", len(ref))
            sh.count("model_comparisons")
            sh.nontriv((fam, vkey, tuple(map(repr, prefix + hist))))
            bad_fields, bad_obs = [], []
            for name in sorted(set(ref) | set(mine)):
                a, b = mine.get(name, ("missing",)), ref.get(name, ("missing",))
                if a[0] == "missing" or b[0] == "missing" or not _obs_equal(a, b):
                    (bad_fields if name.startswith("field:") else bad_obs).append((name, a, b))
            for name, a, b in bad_fields:
                report(f"C20:assign:{fam}:derived-field-stale-after-initialisation:{name[6:]}",
                       f"{fam}{values} after initialisation(): {name[6:]} = {a[1]!r} on the updated object, {b[1]!r} on a "
                       f"freshly constructed one", hist, {"updated": a, "fresh": b})
            for name, a, b in bad_obs:
                report(f"C20:assign:{fam}:model-from-updated-parameters-differs:{_obs_name_class(name)}",
                       f"{fam}{values} after initialisation(): {name} = {a[1]!r} from the updated object, {b[1]!r} from a "
                       f"freshly constructed one", hist, {"updated": a, "fresh": b, "stale_fields": [f[0] for f in bad_fields]})
            if len(hist) + len(prefix) <= 2 and ev is not None and ev[0] == "init":
                sh.sample({"sub": "assign", "class": fam, "history": prefix + hist, "values": values,
                           "derived": {k: repr(v) for k, v in derived_fields(fam, o).items()},
                           "observations_compared": len(ref)})
        return None

    s, t, dmax = core.bfs(sh, build, menu, canon, invariant, case["depth"])
    sh.count("bfs_states", s)
    sh.count("bfs_transitions", t)
    sh.outcome((fam, tuple(case["prefix"]), s, t, len(fresh_cache)))
    for k, v in DECLARED[fam].items():
        if v is None:
            sh.note(f"{fam}.{k} has no declared constraint: every value is legal for this check (nu = 0 not probed)")


# ----------------------------------------------------------------------------------------------------------------------
# calibration
# ----------------------------------------------------------------------------------------------------------------------

def bs_call(spot, strike, r, d, sigma, T):
    N = lambda x: 0.5 * (1.0 + math.erf(x / math.sqrt(2.0)))  # noqa: E731
    sd = sigma * math.sqrt(T)
    d1 = (math.log(spot / strike) + (r - d) * T) / sd + 0.5 * sd
    d2 = d1 - sd
    return spot * math.exp(-d * T) * N(d1) - strike * math.exp(-r * T) * N(d2)


def make_product(kind, strike, T):
    from rpylib.product.payoff import Forward, PayoffType, Vanilla
    from rpylib.product.product import Product
    from rpylib.product.underlying import Spot

    if kind == "call":
        payoff = Vanilla(strike=strike, payoff_type=PayoffType.CALL)
    elif kind == "put":
        payoff = Vanilla(strike=strike, payoff_type=PayoffType.PUT)
    else:
        payoff = Forward(strike=strike)
    return Product(payoff_underlying=Spot(), payoff=payoff, maturity=T)


def fresh_price(fam, values, r, d, spot, product):
    from rpylib.numerical.cosmethod import COSPricer

    m = make_exp_model(fam, values, r, d, spot)
    return float(np.squeeze(COSPricer(m).price(product=product)))


class _Seam:
    """Binds rpylib.model.utils.COSPricer to a subclass whose price() returns a Python float."""

    def __enter__(self):
        from rpylib.model import utils as U

        self.U = U
        self.orig = U.COSPricer

        class ScalarCOSPricer(self.orig):
            def price(self, product):
                return float(np.squeeze(super().price(product=product)))

        U.COSPricer = ScalarCOSPricer
        return self

    def __exit__(self, *a):
        self.U.COSPricer = self.orig
        return False


def _call_with_seam_fallback(sh, fn_name, call):
    """Run call(); on TypeError (array-valued objective refused by brentq) report through the caller and run again with the
    scalar seam. Returns list of attempts [(label, result|None, exception|None)]."""
    attempts = []
    try:
        attempts.append(("as-is", call(), None))
    except Exception as e:
        attempts.append(("as-is", None, e))
        if isinstance(e, TypeError):
            sh.count("seam_reruns")
            sh.note("brentq refused the library's array-valued objective (TypeError); case re-run with the scalar seam")
            with _Seam():
                try:
                    attempts.append(("scalar-seam", call(), None))
                except Exception as e2:
                    attempts.append(("scalar-seam", None, e2))
    return attempts


def _judge_parameter(sh, fn_name, case, fam, values, pname, interval, product, market, x, exc, label):
    """Oracle for one calibration outcome: returned value x, or exception exc."""
    r, d, spot = case["r"], case["d"], case["spot"]
    lo, hi = min(interval), max(interval)

    def f(v):
        return fresh_price(fam, dict(values, **{pname: v}), r, d, spot, product) - market

    sh.count("evaluations")
    if exc is not None:
        try:
            fa, fb = f(interval[0]), f(interval[1])
        except Exception:
            fa = fb = math.nan
        floor = 1e-8 * max(1.0, abs(market))
        if math.isfinite(fa) and math.isfinite(fb) and abs(fa) > floor and abs(fb) > floor:
            sh.nontriv()
            if fa * fb < 0:
                sh.outcome((fn_name, fam, pname, "raises-with-bracket", type(exc).__name__))
                sh.violation(
                    f"C20:calib:{fn_name}:raises-although-root-bracketed:{type(exc).__name__}",
                    f"{fn_name}({fam}, {pname} in {tuple(interval)}) raised {type(exc).__name__}: {exc} although the objective "
                    f"computed on freshly constructed models is {fa:.6g} at {interval[0]} and {fb:.6g} at {interval[1]} "
                    f"(a solution exists) [{label}]",
                    {"f(a)": fa, "f(b)": fb, "market_price": market, "exception": repr(exc)})
            else:
                sh.cls(f"calib:{fn_name}:raises-no-bracket")
                sh.outcome((fn_name, fam, pname, "raises-no-bracket", type(exc).__name__))
                if not isinstance(exc, (ValueError, TypeError)):
                    sh.note(f"{fn_name} raised {type(exc).__name__} where no root is bracketed (allowed by the statement)")
        else:
            sh.count("oracle_inconclusive")
            sh.outcome((fn_name, fam, pname, "raises-inconclusive"))
        return None
    # returned a value
    ok = True
    try:
        xv = float(x)
    except Exception:
        xv = math.nan
    if not math.isfinite(xv) or not (lo <= xv <= hi):
        ok = False
        sh.violation(f"C20:calib:{fn_name}:returned-value-outside-interval:{fam}:{pname}",
                     f"{fn_name}({fam}, {pname}) returned {x!r}, admissible interval {tuple(interval)} [{label}]",
                     {"returned": repr(x)})
        if not math.isfinite(xv):
            return None
    try:
        res = f(xv)
        h = max(1e-7, 1e-7 * abs(xv))
        up, dn = min(hi, xv + h), max(lo, xv - h)
        slope = 0.0
        if up > xv:
            slope = max(slope, abs(f(up) - res) / (up - xv))
        if dn < xv:
            slope = max(slope, abs(res - f(dn)) / (xv - dn))
    except Exception as e:
        sh.violation(f"C20:calib:{fn_name}:fresh-model-cannot-be-built-at-returned-value:{fam}:{pname}",
                     f"{fn_name}({fam}, {pname}) returned {xv!r} but constructing/pricing the model there raised {e!r} [{label}]",
                     None)
        return None
    if not math.isfinite(slope):
        sh.count("oracle_inconclusive")
        return xv
    tol = 4.0 * slope * (XTOL + RTOL_BRENT * abs(xv)) + 1e-8 * max(1.0, abs(market))
    sh.nontriv()
    sh.cls(f"calib:{fn_name}:returns")
    sh.outcome((fn_name, fam, pname, "returns", round(xv, 6)))
    if not (abs(res) <= tol):
        ok = False
        sh.violation(
            f"C20:calib:{fn_name}:does-not-reprice:{fam}:{pname}",
            f"{fn_name}({fam}, {pname} in {tuple(interval)}) returned {xv!r}; the model constructed with that value prices the "
            f"target at {res + market!r}, market price {market!r}: residual {res:.3e} > tolerance {tol:.3e} [{label}]",
            {"returned": xv, "residual": res, "tolerance": tol, "slope": slope, "market_price": market})
    return xv


def _check_untouched(sh, fn_name, fam, before, model, label):
    after = snap(model)
    sh.count("evaluations")
    if after != before:
        diffs = snap_diff(before, after)
        sh.violation(f"C20:calib:{fn_name}:input-model-modified:{fam}",
                     f"{fn_name} changed its input {fam} model [{label}]: {diffs}", {"differences": diffs})


def _setup(case):
    fam = case["family"]
    values = dict(STARTS[fam][case["start"]])
    model = make_exp_model(fam, values, case["r"], case["d"], case["spot"])
    return fam, values, model


def _sub_calib_atm(sh, case):
    from rpylib.model import utils as U

    fam, values, model = _setup(case)
    pname, interval = CALIB[fam][case["param"]]
    T, vol = case["T"], case["vol"]
    product = make_product("call", case["spot"], T)
    market = bs_call(case["spot"], case["spot"], case["r"], case["d"], vol, T)
    before = snap(model)
    fn = "calibrate_model_parameter_to_atm_call"
    attempts = _call_with_seam_fallback(
        sh, fn, lambda: U.calibrate_model_parameter_to_atm_call(model=model, parameter=pname, parameter_interval=interval,
                                                                maturity=T, bs_sigma=vol))
    for label, x, exc in attempts:
        _judge_parameter(sh, fn, case, fam, values, pname, interval, product, market, x, exc, label)
        _check_untouched(sh, fn, fam, before, model, label)
    sh.cls(f"calib:family:{fam}:{pname}")
    if case["T"] == 1.0 and case["vol"] == 0.2 and case["start"] == 0:
        label, x, exc = attempts[-1]
        sh.sample({"sub": "calib-atm", "family": fam, "parameter": pname, "interval": interval, "T": T, "vol": vol,
                   "market_price": market, "attempt": label, "returned": None if exc else float(x),
                   "raised": type(exc).__name__ if exc else None})


def _sub_calib_product(sh, case):
    from rpylib.model import utils as U

    fam, values, model = _setup(case)
    pname, interval = CALIB[fam][case["param"]]
    T, kind = case["T"], case["kind"]
    spot, r, d = case["spot"], case["r"], case["d"]
    a, b = interval
    xstar = a + case["frac"] * (b - a)
    strike = case["k"] * spot
    product = make_product("forward" if kind.startswith("forward") else kind, strike, T)
    try:
        market = fresh_price(fam, dict(values, **{pname: xstar}), r, d, spot, product)
    except Exception:
        sh.count("oracle_inconclusive")
        return
    if kind == "forward+1":
        market += 1.0
    if not math.isfinite(market):
        sh.count("oracle_inconclusive")
        return
    before = snap(model)
    fn = "calibrate_model_parameter"
    attempts = _call_with_seam_fallback(
        sh, fn, lambda: U.calibrate_model_parameter(model=model, parameter=pname, parameter_interval=interval,
                                                    product=product, market_price=market))
    for label, x, exc in attempts:
        _judge_parameter(sh, fn, case, fam, values, pname, interval, product, market, x, exc, label)
        _check_untouched(sh, fn, fam, before, model, label)
    sh.cls(f"calib:product:{kind}")


def _sub_calib_default(sh, case):
    from rpylib.model import utils as U
    from rpylib.numerical.cosmethod import COSPricer

    fam, values, model = _setup(case)
    T, vol = case["T"], case["vol"]
    spot, r, d = case["spot"], case["r"], case["d"]
    pname, interval = CALIB[fam][0]
    try:
        lib = U.default_calibration[_mt(fam)]
        lib_p, lib_i = lib.parameter, tuple(lib.parameter_interval)
    except Exception:
        lib_p, lib_i = pname, interval
    if lib_p != pname or (min(lib_i), max(lib_i)) != (min(interval), max(interval)):
        sh.note(f"utils.default_calibration[{fam}] = ({lib_p}, {lib_i}); the check's table has ({pname}, {interval}); "
                f"the library's entry is used")
        pname, interval = lib_p, lib_i
    product = make_product("call", spot, T)
    market = bs_call(spot, spot, r, d, vol, T)
    before = snap(model)
    fn = "run_default_calibration"
    attempts = _call_with_seam_fallback(sh, fn, lambda: U.run_default_calibration(model=model, maturity=T, bs_sigma=vol))
    for label, cm, exc in attempts:
        _check_untouched(sh, fn, fam, before, model, label)
        if exc is not None:
            _judge_parameter(sh, fn, case, fam, values, pname, interval, product, market, None, exc, label)
            continue
        sh.count("evaluations")
        if type(cm) is not type(model):
            sh.violation(f"C20:calib:{fn}:result-not-of-the-input-type:{fam}",
                         f"{fn}({type(model).__name__}) returned {type(cm).__name__} [{label}]", None)
            continue
        if cm is model or getattr(cm.levy_model, "parameters", None) is model.levy_model.parameters:
            sh.violation(f"C20:calib:{fn}:result-aliases-the-input:{fam}",
                         f"{fn} returned an object sharing the input's {'model' if cm is model else 'parameters'} [{label}]", None)
        # the returned model itself must reprice the ATM call at the Black-Scholes price
        try:
            p_cm = float(np.squeeze(COSPricer(cm).price(product=product)))
        except Exception as e:
            sh.violation(f"C20:calib:{fn}:result-cannot-be-priced:{fam}", f"COS price of the returned model raised {e!r} [{label}]", None)
            continue
        cvals = param_values(fam, cm.levy_model.parameters)
        x = cvals[pname]
        xv = _judge_parameter(sh, fn, case, fam, values, pname, interval, product, market, x, None, label)
        # tolerance as for the fresh model (same slope): reuse by comparing the two prices
        p_fresh = fresh_price(fam, cvals, r, d, spot, product)
        sh.count("evaluations")
        if not core.close(p_cm, p_fresh, rtol=1e-9, atol=1e-9):
            sh.violation(f"C20:calib:{fn}:returned-model-price-differs-from-directly-constructed-model:{fam}",
                         f"{fn}({fam}) [{label}]: ATM call {p_cm!r} under the returned model, {p_fresh!r} under the model "
                         f"constructed directly from its parameter values {cvals}; Black-Scholes price {market!r}",
                         {"returned_model_price": p_cm, "fresh_price": p_fresh, "bs": market})
        # other parameters untouched, spot/r/d carried over
        for k, v in values.items():
            if k != pname and cvals[k] != v:
                sh.violation(f"C20:calib:{fn}:uncalibrated-parameter-changed:{fam}:{k}",
                             f"{fn}({fam}) changed {k} from {v!r} to {cvals[k]!r} [{label}]", None)
        if (cm.spot, cm.r, cm.d) != (model.spot, model.r, model.d):
            sh.violation(f"C20:calib:{fn}:market-data-changed:{fam}",
                         f"spot/r/d {(model.spot, model.r, model.d)} -> {(cm.spot, cm.r, cm.d)} [{label}]", None)
        # behaves like the model constructed directly from its values (derived fields in sync)
        mine = observe_models(fam, cm.levy_model.parameters, r, d, spot)
        ref = observe_models(fam, make_parameters(fam, cvals), r, d, spot)
        mine["exp:process_drift(returned)"] = _obs(lambda: float(cm.process_drift()))
        ref["exp:process_drift(returned)"] = ref["exp:process_drift"]
        mine["exp:omega(returned)"] = _obs(lambda: float(cm.omega))
        ref["exp:omega(returned)"] = ref["exp:omega"]
        sh.count("evaluations", len(ref))
        for name in sorted(ref):
            a_, b_ = mine.get(name, ("missing",)), ref[name]
            if a_[0] == "missing" or not _obs_equal(a_, b_):
                if name.startswith("field:"):
                    key = f"C20:calib:{fn}:derived-field-stale-in-returned-model:{fam}:{name[6:]}"
                else:
                    key = f"C20:calib:{fn}:returned-model-differs-from-directly-constructed-model:{fam}:{_obs_name_class(name)}"
                sh.violation(key, f"{fn}({fam}) [{label}] with {cvals}: {name} = {a_[1] if len(a_) > 1 else None!r} on the "
                                  f"returned model, {b_[1]!r} on the model constructed directly", {"returned": a_, "fresh": b_})
        if T == 1.0 and vol == 0.2:
            sh.sample({"sub": "calib-default", "family": fam, "start": values, "T": T, "vol": vol, "attempt": label,
                       "calibrated": {pname: xv}, "atm_call": p_cm, "black_scholes": market})
    sh.cls(f"calib:default:{fam}")
