#!/usr/bin/env python3
"""Regenerates MANIFEST.json from the table below and the check modules present in checks/.
A property is claimed only when its module exists and is listed in READY; everything else goes to not_applicable with a
reason. Run: python3 gen_manifest.py"""
import glob
import json
import os

HERE = os.path.dirname(os.path.abspath(__file__))

# property -> (category, technique, level text, level note, design section)
TABLE = {
    "C14": (
        "model_checking",
        "exhaustive index/coordinate ranges + explicit-state BFS over call orders of the stateful projection, on the real code",
        "Every index and coordinate tuple in the stated ranges, every interval shape, size tuple and small grid shape is "
        "enumerated and compared with an explicit reference (itertools, explicit lists); call orders of PairingToZ1d.project "
        "are explored breadth-first on fresh real objects. Bijection claims are finite combinatorics, so complete "
        "enumeration up to a bound plus probes at the numerically critical sizes is the natural level.",
        "Bounded: indices below the stated range limits, plus near-perfect-power probes up to the library's size limit; "
        "gmpy2 shim (Fraction) stands in for gmpy2.qdiv.",
        "6/C14",
    ),
    "C05": (
        "model_checking",
        "stateless choice exploration (deviation-bounded DFS over environment answers) of complete runs of the real multilevel engine against a list-per-level reference model",
        "Every configuration of a stated lattice x every sequence of per-(level,batch) sample regimes with at most D "
        "deviations from the default is executed on the real Engine.price / fixed-level variant with a scripted coupling "
        "process; after every set_mlmc_results and at return the stored rows, Nl, price and derived statistics are compared "
        "with a plain list of the samples actually simulated. Bookkeeping across passes and level additions is a history "
        "property, so exhaustive exploration of loop trajectories is the fitting level.",
        "The coupling process is a scripted stand-in implementing the engine-facing interface; single process plus the pool branch through an in-process simulated pool; horizon 40 "
        "batches per level; regimes from a 5-letter menu.",
        "6/C05",
    ),
    "C09": (
        "exploration",
        "exhaustive lattice sweep (models x all interval pairs of a 15-point end-point alphabet x n x truncations) against quadrature of the model's own density",
        "All closed-form integrals of the Levy measures on the complete lattice are compared with adaptive quadrature of "
        "x^n nu(x) (error-estimate gated), with additivity on all triples, sign rules and truncated-measure rules. The "
        "property is a functional identity over a continuum: complete coverage of a branch-covering lattice is what an "
        "enumeration technique can give.",
        "Lattice points only; quadrature oracle trusted within its own error estimate; integrals the library itself "
        "computes by scipy.quad are compared at quad's accuracy.",
        "6/C09",
    ),
    "C10": (
        "model_checking",
        "lattice sweep of exponent/cumulant/martingale identities + explicit-state BFS to closure over set_representation histories",
        "Exponent vs Levy-Khintchine quadrature, cumulants vs triplet integrals, all three martingale routes (CF at -i, "
        "direct-simulation drift, Markov-chain drift) on the complete model lattice; the representation-change graph is "
        "searched to closure (one drift per representation proves path independence and reversibility for any history).",
        "Lattice points only; quadrature with the x = t^8 substitution near the origin; the chain route uses three (nine) "
        "small grids.",
        "6/C10",
    ),
    "C11": (
        "exploration",
        "exhaustive enumeration of all rectangles / argument vectors over a signed coordinate alphabet with infinite entries, d = 2, 3",
        "Groundedness, non-negative volume of every rectangle (library volume and an independent signed sum), identity "
        "margins, Clayton conditional distribution / inverse, and the mixed derivative against a central mixed difference "
        "with a proven truncation bound, for the complete copula-parameter lattice.",
        "Alphabet points only; finite-difference comparisons are made only where the proven bound is below 1 %.",
        "6/C11",
    ),
    "C13": (
        "model_checking",
        "explicit-state search: state = grid, transition = the real refine(); every constructor x model x argument of the lattice",
        "Every grid state reachable by up to 3 (5) refinements from every constructor call of the lattice is checked "
        "against the state invariants, every refine() edge against the nesting invariants; constructor promises are "
        "verified by quadrature of the model's own density.",
        "Depth-bounded; lattice of constructor arguments; the graph is a chain because refine() is the only operation.",
        "6/C13",
    ),
    "C17": (
        "model_checking",
        "exhaustive path/strike lattices through the real path managers + explicit-state BFS over evaluation/update histories of one Product",
        "All paths of length 2..4 (5) over a 5-letter alphabet x strikes x barriers x thresholds for the static identities; "
        "breadth-first search over sequences of evaluations and representation updates on one product object for purity, "
        "each state compared with a freshly constructed product.",
        "Alphabets and depth bounded as stated; ties at strikes/barriers only checked for parity where the statement "
        "fixes no rule.",
        "6/C17",
    ),
    "C20": (
        "model_checking",
        "lattice sweep of calibrations + explicit-state BFS over attribute-assignment histories of every Parameters class",
        "Every calibration of the lattice must return an in-interval root that reprices the target (or raise only when no "
        "sign change exists) and leave its input bit-identical; every assignment history up to depth 3 (4) followed by "
        "initialisation() must give a model indistinguishable from one built directly.",
        "Lattice and depth bounded; repricing tolerance propagated from brentq's tolerances.",
        "6/C20",
    ),
    "C06": (
        "model_checking",
        "exhaustive lattice of variance/cost vectors + stateless choice exploration of the adaptive loop (same driver as C05) with termination / stopping-rule oracles",
        "All variance/cost vectors over stated alphabets are pushed through the allocation and checked against the budget "
        "that the behaviourally measured bias tolerance leaves of rmse^2; every explored run of the real adaptive loop must "
        "terminate, stay at or below the maximum level, return only after a passed bias test or at the maximum level, with "
        "every level within 1 % of its optimal size.",
        "Scripted coupling; horizon 40 batches per level; bias tolerance and variance share measured from the criteria "
        "object's behaviour; zero-cost levels are a recorded finding.",
        "6/C06",
    ),
    "C02": (
        "model_checking",
        "exact recovery of the map uniform -> state (complete lattice probing / bisection to 1 ulp) for every sampler x every target of the lattice + explicit-state BFS over draw histories",
        "The samplers are deterministic piecewise-constant maps of the uniform they consume; their law is recovered exactly "
        "(integer lattice counts for all weak compositions, partition recovery for factory-built chain samplers in 1, 2 and "
        "3 dimensions, integer bisection over the 32-bit argument of the table method), compared with the target, and the "
        "dependence on earlier draws is searched breadth-first on one sampler object.",
        "Partition recovery assumes no piece hidden strictly between two agreeing probes of the initial sweep (end points "
        "and alias column edges are probed explicitly); target masses are the library's own mass() on reference cells.",
        "6/C02",
    ),
    "C03": (
        "model_checking",
        "exact recovery of the coupling kernel of every fine state (uniform seam, partition recovery) + complete telescoping sums against an independently built coarse chain; scripted path assembly",
        "For every (model, grid, method, level) of the lattice the kernel u -> coarse state of every fine state is recovered "
        "exactly and sum_x rate(x) P(x->y) is compared with the rate of every coarse state of a chain built independently on "
        "the un-refined grid; adjacency, copied even increments, coarse drift / diffusion and shared Brownian increments are "
        "checked on the same objects, and the assembled coupled pair against the kernel images for scripted variates.",
        "Rates are the library's mass() on reference cells (C01); levels <= 2 (3); the SDE coupling is checked for its drifts, "
        "its driver's kernel and paths (its recursion is C16).",
        "6/C03",
    ),
    "C12": (
        "exploration",
        "exhaustive enumeration of all interval-type patterns (15 intervals per coordinate, d = 2, 3), all index subsets and all alphabet split points, against two independent reference implementations and density quadrature",
        "Every rectangle of the lattice not containing the origin: non-negativity, additivity under every split (including "
        "zero), fast path = general formula = reference from the definition, whole-line sums = marginal mass, sub-family "
        "masses = I-margins, inverse tail integrals, cache/order/truncation histories bit for bit, Clayton masses against "
        "nested quadrature of the joint density.",
        "Lattice end points only; reference shares the copula function and the marginal integrals (checked in C11 / C09).",
        "6/C12",
    ),
    "C08": (
        "model_checking",
        "stateless choice exploration (chunk->worker assignment, clock answers; deviation-bounded) of complete runs of both real engines on real simulators under a counter-based tracing generator and a simulated worker pool bound to pathos by conformance runs",
        "Every configuration of the lattice x every schedule with at most D deviations: the (stream, position) sets of the "
        "variates consumed by any two samples - across paths, passes, levels and simulated workers, including pre-drawn rows - "
        "must be disjoint; seeded single-process runs must repeat bit for bit from different pre-existing generator states. "
        "Worker scheduling cannot be controlled for real OS processes, so the pool is a model whose chunking, per-chunk "
        "closure copies and result order are validated against the real pathos pool on every run.",
        "SimPool stands for pathos (validated by 25 real-pool traces per quick run); OS timing, pid reuse and non-fork start methods "
        "are not modelled; LevyProcess / 1-d chain / coupling with HEM and Merton on an 11-state grid, inversion / table / alias samplers.",
        "6/C08",
    ),
    "C18": (
        "exploration",
        "exhaustive lattice sweep (model box x maturities x 41-strike lattice, scalar and vector calls) of parity / bounds / monotonicity / convexity / cross-pricer identities with evaluated truncation budgets",
        "Every model of the documented box x every maturity x every strike of the lattice: COS put-call parity, no-arbitrage "
        "bounds, monotone and convex calls, digital as discounted probability, density positivity and mass, COS = FFT = closed "
        "form on Black-Scholes, COS = FFT elsewhere, VG = its CGMY parametrisation. Tolerances are per-strike evaluated "
        "bounds of the COS / FFT truncation errors (derivation in mc/c18_util.py), not fitted constants.",
        "The truncation budgets are evaluated a-priori bounds under two stated structural assumptions, not a proof over the "
        "box (the statement's 'provably below tolerance' is weakened accordingly); strikes whose budget is too wide are "
        "counted and not asserted.",
        "6/C18",
    ),
    "C19": (
        "exploration",
        "exhaustive lattice sweep (models d = 1..3 x threshold tuples x h x symmetric/asymmetric credit grids x recovery x maturity x spread) with complete enumeration of the chain states per configuration",
        "For every configuration the sum of the per-state rates of the real chain over the default region is compared with "
        "the box-restricted intensity from an independent rectangle-mass reference; the closed-form intensity with the "
        "inclusion-exclusion mass of the half-spaces; monotonicity, survival / spread / implied formulas and their "
        "inverses, CDS legs and default-time underlyings on scripted paths.",
        "Lattice points only; the copula chain's diffusion-matrix quadrature is stubbed during construction (not observed "
        "by this property).",
        "6/C19",
    ),
    "C16": (
        "exploration",
        "exhaustive enumeration of scripted driver paths (all words of length 1..3 over a step/jump/Brownian alphabet) x drivers x coefficient functions x initial values x coupling levels through the real schemes; dense time mesh for the discount factors",
        "For every scripted driver path the solution returned by the real MarkovChainSDE / CouplingSDE is compared step by "
        "step with the explicit Euler recursion (fine and coarse components with their own drifts), with closed forms for "
        "constant and diagonal coefficients; real driver paths under a scripted generator confirm the capture; df(0)=1, "
        "positivity, monotonicity and continuity at every tenor on a 400-point mesh for both rate models.",
        "Alphabet of 8 (27) path letters, words up to length 3; levels 0..2; the driver path is replaced at the seam where the "
        "scheme obtains it.",
        "6/C16",
    ),
    "C07": (
        "exploration",
        "exhaustive enumeration of all path-value sequences over a 3-letter (4-letter) alphabet for N <= 8 x the configuration lattice, each a complete run of the real standard engine on a scripted process, against a pure-Python reference",
        "Stored rows, price, per-component standard error, control-variate adjustment (against an independent least-squares "
        "solve; coefficient-independent consequences where the controls' sample covariance is singular), variance inequality "
        "and spot statistics, for every sequence of terminal values and every configuration of payoff dimension, controls, "
        "notional, discount factor.",
        "Scripted process; single process plus the pool branch through an in-process simulated pool and two real-pool cases (worker scheduling is C08); alphabets and N bounded as stated.",
        "6/C07",
    ),
    "C15": (
        "exploration",
        "exhaustive enumeration of scripted variates (all jump-count tuples, all jump-time multisets, identifiable Brownian increments) through every real simulator x mode x time grid; all time arrays of a 10-point lattice through the finer-grid builders",
        "Every simulated path is compared with the reference assembly from the scripted variates: start, times, running sums "
        "of jumps and of scaled Brownian increments, each variate used at most once, maximum step, original points kept, "
        "inserted points repeating the preceding value, fine / coarse alignment.",
        "numpy.random.* and random.getrandbits replaced by a scripted source; real samplers and jump laws underneath; "
        "infinite-variation copulas excluded (constructor cost).",
        "6/C15",
    ),
    "C04": (
        "exploration",
        "exhaustive lattice sweep (models x declared representations x grids x refinements x sampling methods; copula margins) of the mean and variance identities against quadrature of the model's own density",
        "For every configuration the mean per unit time of the approximation (process drift + rate-weighted states, rates taken "
        "both from mass() on reference cells and from the sampler law recovered as in C02) is compared with the mean of the "
        "truncated process computed from the triplet, the declared cut-off and the density; the added variance with the "
        "central-cell second moment (zero for finite variation); the total variance within the per-cell oscillation bound; the "
        "same per margin of copula chains, and the copula diffusion matrix against the central-box covariance.",
        "Lattice points only; quadrature with the x = t^8 substitution near the origin; 3-d / 4-d chains for the drift only; "
        "infinite-variation copula diffusion matrices in a few cases (constructor cost).",
        "6/C04",
    ),
    "C01": (
        "exploration",
        "exhaustive lattice sweep over (model, grid constructor, refinement, sampling method) with complete enumeration of the grid states of each chain, against quadrature of the model's density on reference cells built from the axes alone",
        "For every chain of the lattice and every state: the cell the library integrates over (observed at the integrate / "
        "mass calls of every sampler route) equals the reference cell, cells tile the truncated support minus the central "
        "cell, each state lies in its cell, each rate equals the density integral (1-d) / the reference rectangle mass and, "
        "for Clayton, the 2-d quadrature of the joint density; rates are non-negative, sum to every reported intensity, and all "
        "sampler routes agree.",
        "Lattice points only; the copula chain's diffusion-matrix pool is stubbed during construction (not observed); 3-d "
        "cells against the reference rectangle mass only.",
        "6/C01",
    ),
}


# what rounds 3 and 4 of the seeded campaign added to every check (DESIGN.md section 11.5): appended to the level text
ADDENDA = {
    "C01": "Also enumerated: construction routes of the models (re-initialised parameter objects, the calibration loop), histories on re-used model / grid objects and the engine's deepcopy-then-next_level route, argument forms of every constructor, copies (copy / deepcopy / dill), caller's arguments left untouched, sizes up to 33001 states. Narrow cells (h = 1e-9 / 1e-8, the benchmarks' h0 = 1e-6 credit grids, states 1e-6 apart far from the origin) with a tolerance relative to the rate.",
    "C02": "Also enumerated: histories with cost reset, copies, batch calls and a second sampler on the same grid; exact-point verdicts for the never-clauses; vectors beyond 256 / 32768 / 65536 entries; argument forms; the un-cached branch of the n-d adapted tree. n-d grids with markedly fewer points on one side of the origin than on the other, and the mirror image.",
    "C03": "Also enumerated: both next_level routes (with path managers, and path_managers=None as the SDE coupling uses it), simulation straight after next_level without a second pre-computation, several jumps per interval in 1, 2 and 3 dimensions, engine-like histories (simulate, deepcopy, next_level), dill copies.",
    "C04": "Also enumerated: histories of initialisations on one chain, the Brownian scale the simulators really apply (recovered from scripted draws), two-hop representation changes, ties (activity index exactly 1 and 0, states on the cut-off), argument forms, copies, the engine's route to deeper levels. Asymmetric truncations with exactly one bound beyond the big-jump cut-off; re-parametrisations that cross a regime boundary (activity index across 1 and 0, sigma 0 <-> positive) against fresh models.",
    "C05": "Also enumerated: the pool branch through a simulated pool, every reading order of the reported statistics, re-priced engines, copies of engines / statistics / results taken mid-run, degenerate sizes (0 and 1 initial path) and runs beyond 2^16 rows.",
    "C06": "Also enumerated: histories of two or three pricings in one process (shared default rates object), non-monotone level means with the bias tolerance measured in every direction of the last three means, argument forms of the allocation and stopping functions, copies of the configuration. Both vectors integer-typed with products beyond int8 .. int64 and Python ints beyond 2^64 judged in exact rationals; rmse as numpy integer scalars.",
    "C07": "Also enumerated: histories of two or three pricings on one engine (other numbers of paths, configurations, products; earlier results re-read), the pool branch through a simulated pool with path counts that are not multiples of the number of workers, argument forms, caller's arrays left untouched. Path-dependent controls on the product's own underlying type; default-time products on scripted paths with separate jump and diffusion components; simulated path objects unchanged by pricing.",
    "C08": "Also enumerated: histories of pricings on re-used engines / processes / configurations compared with fresh objects, seed 0 and nb_of_processes=None (scripted cpu count), generator objects captured by library objects and cloned by pickling, conformance cases that recover the variates of real pool runs.",
    "C09": "Also enumerated: construction histories of the models (re-initialised, calibration loop, after another object, deepcopy, dill), nested truncations, argument forms of end points and truncations, boundary parameter values (g = 0, m = 0, wide and narrow jump laws), degenerate intervals. The empty interval [0, 0] for every family and activity class through every route and through one-sided truncations; parameters two ulps .. 1e-4 from every special value of the code at relative 1e-7; orders 20 .. 30 against 30-digit references.",
    "C10": "Also enumerated: construction routes of the models, histories of requests on one process object, coupling levels, argument forms of every array-taking function with caller's arrays left untouched and kept arrays re-used, copies re-parametrised on either side.",
    "C11": "Also enumerated: copulas with a history (setters, copy / deepcopy / pickle in both directions, another object in between) against fresh objects, arguments of magnitude 1e-300 .. 1e300 and -0.0, argument forms, arguments left untouched, vectorised versus element-wise inverse. Degenerate rectangles (a_i == b_i on one, two or all axes; lower ends -inf) through the library's volume and an independent signed sum.",
    "C12": "Also enumerated: construction routes of the model (re-initialised margins, copula re-parametrised or replaced on a used model), zero written as -0.0 in both query orders, spellings of the end points, copies with populated caches re-parametrised on either side, inverse tail integrals beyond the attainable range, sweeps larger than the memo. Single-difference twins: for every margin family and every constructor parameter in turn two models alive that differ in exactly that one thing, asked alternately, with equality / hash hygiene.",
    "C13": "Also enumerated: histories on one re-used model object (mutations between two constructions), twins and copies refined in interleaved order, argument forms including integral h, heavy-tailed models whose truncation root is not bracketed, deep refinement with a gap-relative oracle for the probability-step grid. Models whose one-sided masses are equal (bit-equal, or within 1e-5 / 1e-8) while the tails differ, each truncation bound judged against its own promise, at h down to 1e-9.",
    "C14": "Also enumerated: domains with boundaries, the real inversion sampler driven beyond a full (scaled-down) log, Domains re-used after refinement, one-sided intervals and grids, argument forms, copies taken mid-enumeration. Log bounds of 256 .. 65536 states with the restart protocol driven with distinct-but-equal int objects and numpy integers; whole hyperbolas chosen by the factor structure of n around 2^4 .. 2^16; coordinates around 2^15 .. 2^64 in d = 2, 3, 4 against closed forms in Python ints.",
    "C15": "Also enumerated: kept paths re-read after later paths / pre-computations / copies, pool-like copies of the simulators between pre-computation and simulation, ties (jump on a date, epsilon equal to the maturity or a gap), zero-path pre-computations, 24-26 dates, argument forms.",
    "C16": "Also enumerated: a second object of the same classes simulated in between, purity of the coefficient and discount functions against a fresh interpreter, re-used schemes with other maturities, unequal tenor periods, integer tenor dates, re-initialised drivers. Driver steps at and below -100 % (sign flips, exact zeros) for every coefficient class, and a real driver with mass below -1.",
    "C17": "Also enumerated: inputs left untouched by evaluation, a second consumer of the same path, real path managers with spot statistics and controls, array-like terms in every legal form with the caller's container overwritten afterwards, scalar terms as numpy / int forms, copies (copy / deepcopy / dill).",
    "C18": "Also enumerated: histories of queries and operations on one pricer against fresh pricers, strike vectors beyond the 2^22 / n block size against element-wise calls, argument forms, caller's arrays left untouched, copies, non-default COS constants with their own budgets, re-initialised models.",
    "C19": "Also enumerated: histories on re-used payoffs, pricers and chains (public attributes re-assigned, copies, another object in between), threshold vectors in every legal form with the caller's container refilled afterwards, ties between names, re-initialised margins. Single-difference twins of copula models (every margin parameter, copula parameter, order of the margins) asked alternately at the same thresholds and grids.",
    "C20": "Also enumerated: histories of calibrations over a scene of re-used models sharing parameter objects, input models reached by six routes, reversed intervals, non-default maturities / volatilities / market data, constraint factories on seven assignment routes with non-finite values. Re-calibration histories from already (almost) calibrated start models: quotes moved by relative 0, 1e-9 .. 1e-2, chains, rounded start values, half intervals; the answer must not depend on the start value.",
}

READY = []  # filled from checks/ below; a module must define PID


def main():
    props = [json.loads(l) for l in open(os.path.join(HERE, "properties.jsonl"))]
    mods = {}
    for p in glob.glob(os.path.join(HERE, "checks", "c[0-9][0-9]_*.py")):
        pid = os.path.basename(p)[:3].upper()
        mods[pid] = p
    checks, na = [], []
    for pr in props:
        pid = pr["id"]
        if pid in mods and pid in TABLE and os.path.exists(os.path.join(HERE, "checks", ".ready_" + pid)):
            cat, tech, text, note, ref = TABLE[pid]
            text = text + " " + ADDENDA.get(pid, "")
            checks.append(
                {
                    "property_id": pid,
                    "quick_cmd": f"./run.sh {pid} quick",
                    "thorough_cmd": f"./run.sh {pid} thorough",
                    "evidence_file": f"/verif/evidence/{pid}.json",
                    "replay_cmd_template": f"./run.sh {pid} --replay {{path}}",
                    "engine": "mc",
                    "level_claimed": {"category": cat, "text": text, "design_ref": f"DESIGN.md section {ref}"},
                    "level_note": note,
                    "technique": tech,
                }
            )
        else:
            na.append({"property_id": pid, "reason": NA_REASONS.get(pid, "check not built yet (work in progress); see DESIGN.md section 6")})
    manifest = {
        "version": 1,
        "setup_cmd": "mkdir -p evidence replays && /venv/bin/python -m compileall -q mc checks shims >/dev/null 2>&1; true",
        "hooks": {
            "guard": "RPYLIB_VERIF",
            "enable": "none needed: every seam (numpy.random.*, random.*, time.time, os.getpid, pathos Pool, sampler "
                      "attributes) is replaced from outside by the harness; run.sh exports RPYLIB_VERIF=1 for uniformity",
            "baseline_off_cmd": "cd /repo && /venv/bin/python -m pytest -ra -q -p no:cacheprovider --timeout=900 "
                                "--continue-on-collection-errors",
            "source_commits": [],
            "add_only": True,
        },
        "engines": [
            {
                "name": "mc",
                "path": "/verif/mc",
                "serves_properties": [c["property_id"] for c in checks],
                "kind_free_text": "hand-written bounded exhaustive explorer for Python: lattice sweeps, explicit-state BFS over "
                                  "operation histories on fresh real objects, stateless choice explorer with deviation bounding",
            }
        ],
        "checks": checks,
        "not_applicable": na,
        "notes": "All checks drive the real rpylib code imported from /repo's working tree; no separate model except the "
                 "simulated worker pool of C08 (bound to pathos by conformance runs). See DESIGN.md.",
    }
    with open(os.path.join(HERE, "MANIFEST.json"), "w") as f:
        json.dump(manifest, f, indent=1)
    print(f"claimed: {[c['property_id'] for c in checks]}; not claimed: {[n['property_id'] for n in na]}")


NA_REASONS = {}

if __name__ == "__main__":
    main()
