#!/usr/bin/env python3
"""Regenerates MANIFEST.json from the table below and the check modules present in checks/.
A property is claimed only when its module exists and is listed in READY; everything else goes to not_applicable with a
reason. Run: python3 gen_manifest.py"""
import glob
import json
import os

HERE = os.path.dirname(os.path.abspath(__file__))

# property -> (category, technique, level text, level note, design section)
TABLE = {
    "C14": (
        "model_checking",
        "exhaustive index/coordinate ranges + explicit-state BFS over call orders of the stateful projection, on the real code",
        "Every index and coordinate tuple in the stated ranges, every interval shape, size tuple and small grid shape is "
        "enumerated and compared with an explicit reference (itertools, explicit lists); call orders of PairingToZ1d.project "
        "are explored breadth-first on fresh real objects. Bijection claims are finite combinatorics, so complete "
        "enumeration up to a bound plus probes at the numerically critical sizes is the natural level.",
        "Bounded: indices below the stated range limits, plus near-perfect-power probes up to the library's size limit; "
        "gmpy2 shim (Fraction) stands in for gmpy2.qdiv.",
        "6/C14",
    ),
}

READY = []  # filled from checks/ below; a module must define PID


def main():
    props = [json.loads(l) for l in open(os.path.join(HERE, "properties.jsonl"))]
    mods = {}
    for p in glob.glob(os.path.join(HERE, "checks", "c[0-9][0-9]_*.py")):
        pid = os.path.basename(p)[:3].upper()
        mods[pid] = p
    checks, na = [], []
    for pr in props:
        pid = pr["id"]
        if pid in mods and pid in TABLE and os.path.exists(os.path.join(HERE, "checks", ".ready_" + pid)):
            cat, tech, text, note, ref = TABLE[pid]
            checks.append(
                {
                    "property_id": pid,
                    "quick_cmd": f"./run.sh {pid} quick",
                    "thorough_cmd": f"./run.sh {pid} thorough",
                    "evidence_file": f"/verif/evidence/{pid}.json",
                    "replay_cmd_template": f"./run.sh {pid} --replay {{path}}",
                    "engine": "mc",
                    "level_claimed": {"category": cat, "text": text, "design_ref": f"DESIGN.md section {ref}"},
                    "level_note": note,
                    "technique": tech,
                }
            )
        else:
            na.append({"property_id": pid, "reason": NA_REASONS.get(pid, "check not built yet (work in progress); see DESIGN.md section 6")})
    manifest = {
        "version": 1,
        "setup_cmd": "mkdir -p evidence replays && /venv/bin/python -m compileall -q mc checks shims >/dev/null 2>&1; true",
        "hooks": {
            "guard": "RPYLIB_VERIF",
            "enable": "none needed: every seam (numpy.random.*, random.*, time.time, os.getpid, pathos Pool, sampler "
                      "attributes) is replaced from outside by the harness; run.sh exports RPYLIB_VERIF=1 for uniformity",
            "baseline_off_cmd": "cd /repo && /venv/bin/python -m pytest -ra -q -p no:cacheprovider --timeout=900 "
                                "--continue-on-collection-errors",
            "source_commits": [],
            "add_only": True,
        },
        "engines": [
            {
                "name": "mc",
                "path": "/verif/mc",
                "serves_properties": [c["property_id"] for c in checks],
                "kind_free_text": "hand-written bounded exhaustive explorer for Python: lattice sweeps, explicit-state BFS over "
                                  "operation histories on fresh real objects, stateless choice explorer with deviation bounding",
            }
        ],
        "checks": checks,
        "not_applicable": na,
        "notes": "All checks drive the real rpylib code imported from /repo's working tree; no separate model except the "
                 "simulated worker pool of C08 (bound to pathos by conformance runs). See DESIGN.md.",
    }
    with open(os.path.join(HERE, "MANIFEST.json"), "w") as f:
        json.dump(manifest, f, indent=1)
    print(f"claimed: {[c['property_id'] for c in checks]}; not claimed: {[n['property_id'] for n in na]}")


NA_REASONS = {}

if __name__ == "__main__":
    main()
