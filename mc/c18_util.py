"""A-priori error budgets ("tau") for the COS and the Carr-Madan FFT pricers of rpylib, used by checks/c18_pricers.py.

Everything here is computed from the *inputs* of the pricers only: the characteristic function phi_T of X_T = log(S_T/S_0)
that the model hands to the pricer (`model.log_characteristic_function(t, x, log_spot=0)`), the truncation range [a, b]
the COS pricer uses, the constants (n, L) / (alpha, eta, N) of the pricers, the strike.  No price produced by a pricer
enters a budget.

======================================================================================================================
1.  COS (Fang-Oosterlee 2008), as implemented in rpylib/numerical/cosmethod.py
======================================================================================================================
With x = log(S0/K), u_k = k*pi/(b-a), g(y) = (1 - e^y)^+ the put pay-off in units of K and V_k its cosine coefficients on
[a, b] (a < 0 < b), the implementation returns

    put_N(K) = K * df * Re sum'_{k<N} phi_T(u_k) V_k exp(i u_k (x - a))  =  K * df * E[ g_N(x + X_T) ],

where g_N(y) = sum'_{k<N} V_k cos(u_k (y - a)) is the N-term cosine series of g on [a, b] *evaluated on the whole real
line*, i.e. the partial sum of the even, 2(b-a)-periodic extension g~ of g|[a,b].  (Re[phi(u) e^{iu(x-a)}] = E cos(u(x+X-a)):
this is an identity, no approximation; it is eq. (22)-(24) of Fang-Oosterlee read backwards.)  Hence

    |put_N - put_true| <= K df ( E|g~ - g|(x+X) + sum_{k>=N} |V_k| |phi_T(u_k)| )
                       <= K df ( P(x + X_T < a) + P(x + X_T > b)  +  S_put ),                                    (COS-1)

because g~ = g on [a,b] and 0 <= g, g~ < 1 elsewhere.  These are Fang-Oosterlee's eps_1 + eps_3 (integration-range
truncation, here *exact up to the tail mass*) and eps_2 (series truncation).  The call is obtained by parity from the
put, so it inherits the same budget.  The same argument with h(y) = 1_{[0,b]}(y), W_k = 2/(b-a) psi_k(0,b),
|W_k| <= 2/(k pi):

    |digital_N - df P(S_T > K)| <= df ( P(x+X<a) + P(x+X>b) + S_dig ),   S_dig = sum_{k>=N} 2 |phi_T(u_k)| / (k pi)     (COS-2)

and for the implied log-density  s*density(s) = sum'_{k<N} F_k cos(u_k (z - a)),  z = log(s/S0):

    full series = sum_m f_X(z + 2m(b-a)) + f_X(2a - z + 2m(b-a))  >=  f_X(z)  >=  0
    =>  s * density_N(s) >= - S_den,      S_den = 2/(b-a) * sum_{k>=N} |phi_T(u_k)|                                    (COS-3)
    int_a^b (s density_N)(z) dz = Re phi_T(0) = 1 exactly (every k >= 1 cosine integrates to zero over [a,b]); the
    trapezoidal rule with M intervals on [a,b] reproduces this up to the aliased terms k = 2M, 4M, ... < N:
    |trapz - 1| <= 2 * sum_{j>=1, 2Mj<N} |phi_T(u_{2Mj})|                                                             (COS-4)

Tail masses: Chernoff, P(X >= z) <= min_theta exp(-theta z) M_T(theta), M_T(theta) = phi_T(-i theta), over a grid of
theta inside the analyticity strip of the family (known in closed form from the parameters: HEM (-eta2, eta1), VG
(-lambda_m, lambda_p), CGMY (-G, M), BS/Merton the whole line).  Any grid point gives a valid bound; the grid only
affects tightness.

Series tails: sum_{k>=N} w_k |phi_T(u_k)| is bounded through a non-increasing envelope env(u) >= |phi_T(u)|:
    BS, HEM, VG, CGMY: env = |phi_T| itself, which is non-increasing in |u| for these families
        (Re psi(u) = -sigma^2u^2/2 - int (1-cos ux) nu(dx); explicit: HEM lambda(p eta1^2/(eta1^2+u^2) + ... - 1);
         VG -log|1 - i theta nu u + sigma^2 nu u^2/2|/nu; CGMY C Gamma(-y)[Re (M-iu)^y - M^y + Re (G+iu)^y - G^y], whose
         u-derivative is -C Gamma(-y) y r^(y-1) sin((y-1) atan(u/M)) <= 0 for y<2)
    Merton: env(u) = exp(T(-sigma^2u^2/2 + lambda(exp(-sigma_J^2u^2/2) - 1)))   (|cos| <= 1)
The sum is taken term by term for N <= k < 8N and then over dyadic blocks [k_j, 2k_j) bounded by env(u_{k_j}) times the
block sum of the weights, up to u = 1e150.  If the blocks have not died out by then (no density / an atom: compound
Poisson without diffusion, VG with 2T/nu <= 1 for the density, ...) the sum is reported as +inf and the sub-check that
needs it is *skipped and counted* (`outside_box:*`), never asserted.

Round-off floor of a COS price: the k-th term carries a relative error of a few ulp plus a phase error ulp*|u_k (x-a)|
<= ulp*k*pi; with |V_k| <= 6(b-a)/(pi^2 k^2) this sums to < 8 ulp (b-a) ln N < 2e-13 (b-a <= 30), in units of K.  The
floor used is 1e-11 * max(K, S0, F): fifty times that, and four orders of magnitude below the 1e-7*S0 of the design.

======================================================================================================================
2.  Carr-Madan FFT, as implemented in rpylib/numerical/fft.py  (alpha = 1.5, eta = 0.25, N = 2^18, Simpson weights,
    linear interpolation in log-strike on a grid of step lambda = 2 pi/(N eta) = 9.6e-5)
======================================================================================================================
z(k) = e^{alpha k} C(k) is the damped call, psi its Fourier transform.  Simpson's weights are 4/3 T_eta - 1/3 T_{2 eta}
(T_h = trapezoidal rule with step h and half weight at 0), and by Poisson summation T_h gives sum_m z(k + 2 pi m/h):

  (a) aliasing   |.| <= e^{-alpha k} [4/3 A(P) + 1/3 A(P/2)],  P = 2pi/eta,  A(Q) = sum_{m != 0} z(k + mQ), with
         z(k - mQ) <= e^{alpha(k-mQ)} df F                                  (C <= df F)
         z(k + mQ) <= e^{alpha(k+mQ)} df E[S^p] e^{(1-p)(k+mQ)}              ((S-K)^+ <= S^p K^{1-p}, p > 1 + alpha)
     the best p on the Chernoff grid is used; no admissible p => +inf => FFT comparisons skipped and counted.
  (b) truncation of the v-integral at N eta:  e^{-alpha k}/pi * 4 eta/3 * sum_{j>=N} |psi(v_j)|,
         |psi(v)| <= df * env_t(v) / v^2,   env_t(v) >= |phi_{log S}(v - (1+alpha) i)| non-increasing (same families:
         the Esscher-tilted process stays in its family; Merton: explicit envelope), dyadic blocks as above.
  (c) interpolation: for linear interpolation of g on a cell of width h, |g - Lg| <= h/4 * |g''|(cell) (Green's function of
      -d^2 on the cell is <= h/4).  With g(k) = C(e^k): g'' dk = df K mu_{log S}(dk) + K C_K dk, |K C_K| <= df K, so
         |.| <= lambda/4 * df * K_up * ( Q(lambda) + lambda ),   Q(lambda) = sup_x P(x <= X_T <= x + lambda)
      (valid with atoms: Q <= 1).  Q(lambda) <= min(1, lambda * D, Esseen), D = 1/pi int_0^inf env (density bound, if finite),
      Esseen: Q(lambda) <= (96/95)^2 lambda int_{|u| <= 1/lambda} |phi|.  Integrals of the non-increasing envelope are
      bounded by left Riemann sums.
  (d) round-off: 1e-12 * S0 * max(1, (S0/K)^alpha) + 1e-11 * max(K, S0)   (ulp * log2 N * sum|a_j| * e^{-alpha k}/pi).

Nothing here is a *proof* that the library's series are below a tolerance for all parameters: it is an evaluation, per
(model, maturity, strike), of rigorous bounds under the two stated structural assumptions (monotone |phi_T| for the four
families, dyadic tail closed at u = 1e150).  Where a bound is infinite the assertion is not made.
"""
from __future__ import annotations

import math

import numpy as np

ULP_FLOOR_COS = 1e-11
U_MAX = 1e150


# ----------------------------------------------------------------------------------------------------------------------
# family facts (closed form, from the parameters in the case dict)
# ----------------------------------------------------------------------------------------------------------------------

def strip(family: str, p: dict):
    """Open interval of theta with E exp(theta X_1) < inf."""
    if family in ("bs", "merton"):
        return -math.inf, math.inf
    if family == "hem":
        return -float(p["eta2"]), float(p["eta1"])
    if family == "vg":
        s2 = float(p["sigma"]) ** 2
        th, nu = float(p["theta"]), float(p["nu"])
        lp = math.sqrt(th * th + 2 * s2 / nu) / s2 - th / s2
        lm = lp + 2 * th / s2
        return -lm, lp
    if family == "cgmy":
        return -float(p["g"]), float(p["m"])
    raise ValueError(family)


class Budget:
    """All a-priori quantities of one (model, maturity): built once, queried per strike."""

    def __init__(self, model, family: str, params: dict, T: float, a: float, b: float, n: int,
                 fft_alpha: float = 1.5, fft_eta: float = 0.25, fft_n: int = 2 ** 18):
        self.model, self.family, self.p, self.T = model, family, params, float(T)
        self.a, self.b, self.n = float(a), float(b), int(n)
        self.S0 = float(model.spot)
        self.df = float(np.exp(-model.r * T))
        self.F = self.S0 * float(np.exp((model.r - model.d) * T))
        self.alpha, self.eta, self.N = fft_alpha, fft_eta, fft_n
        self.lam = 2 * math.pi / (fft_n * fft_eta)
        self.du = math.pi / (self.b - self.a)
        self._chernoff_grid()
        self._series()
        self._fft_static()

    # -- characteristic function of X_T = log(S_T/S0), the one the pricers use ----------------------------------------
    def phi(self, x):
        with np.errstate(all="ignore"):
            return np.asarray(self.model.log_characteristic_function(t=self.T, x=x, log_spot=0))

    def env(self, u):
        """non-increasing envelope of |phi_T(u)|, u >= 0 real array"""
        u = np.asarray(u, dtype=float)
        if self.family == "merton":
            p = self.p
            s, sj, lam = float(p["sigma"]), float(p["sigma_j"]), float(p["intensity"])
            with np.errstate(all="ignore"):
                return np.exp(self.T * (-0.5 * (s * u) ** 2 + lam * (np.exp(-0.5 * (sj * u) ** 2) - 1.0)))
        v = np.abs(self.phi(u.astype(complex)))
        return np.where(np.isfinite(v), np.minimum(v, 1.0), np.nan)

    def env_tilt(self, v):
        """non-increasing envelope of |phi_T(v - i(1+alpha))| / phi_T(-i(1+alpha)), v >= 0 (Esscher-tilted law)"""
        v = np.asarray(v, dtype=float)
        q = 1.0 + self.alpha
        if self.family == "merton":
            p = self.p
            s, sj, mj, lam = float(p["sigma"]), float(p["sigma_j"]), float(p["mu_j"]), float(p["intensity"])
            lam_t = lam * math.exp(mj * q + 0.5 * (sj * q) ** 2)
            with np.errstate(all="ignore"):
                return np.exp(self.T * (-0.5 * (s * v) ** 2 + lam_t * (np.exp(-0.5 * (sj * v) ** 2) - 1.0)))
        m0 = self.mgf(q)
        if not (m0 > 0 and math.isfinite(m0)):
            return np.full_like(v, np.nan)
        w = np.abs(self.phi(v.astype(complex) - 1j * q)) / m0
        return np.where(np.isfinite(w), np.minimum(w, 1.0), np.nan)

    def mgf(self, theta: float) -> float:
        lo, hi = strip(self.family, self.p)
        if not (lo < theta < hi):
            return math.inf
        val = complex(self.phi(np.array([-1j * theta]))[0])
        if not (math.isfinite(val.real) and val.real > 0 and abs(val.imag) <= 1e-9 * val.real):
            return math.inf
        return val.real

    # -- Chernoff ------------------------------------------------------------------------------------------------------
    def _chernoff_grid(self):
        lo, hi = strip(self.family, self.p)
        w = (self.b - self.a) / 20.0  # the pricer's own scale (half-width / L with the default L = 10)
        unb = np.arange(1, 161) * 0.125 / w
        fr = np.concatenate([np.arange(1, 50) / 50.0, [0.985, 0.99, 0.995]])
        pos = np.unique(np.concatenate([unb[unb < hi], fr * hi if math.isfinite(hi) else unb]))
        neg = np.unique(np.concatenate([unb[unb < -lo], fr * (-lo) if math.isfinite(lo) else unb]))
        pos = pos[(pos > 0) & (pos < hi)]
        neg = neg[(neg > 0) & (neg < -lo)]

        def logm(th):
            vals = self.phi(-1j * th.astype(complex))
            ok = np.isfinite(vals.real) & np.isfinite(vals.imag) & (vals.real > 0) & (np.abs(vals.imag) <= 1e-9 * np.abs(vals.real))
            out = np.full(len(th), np.inf)
            with np.errstate(all="ignore"):
                out[ok] = np.log(vals.real[ok])
            return out

        self.th_pos, self.lm_pos = pos, logm(pos)
        self.th_neg, self.lm_neg = neg, logm(-neg)

    def p_upper(self, z):
        """bound on P(X_T >= z), vector z"""
        z = np.atleast_1d(np.asarray(z, dtype=float))
        if len(self.th_pos) == 0:
            return np.ones_like(z)
        e = np.min(-np.outer(z, self.th_pos) + self.lm_pos[None, :], axis=1)
        return np.exp(np.minimum(e, 0.0))

    def p_lower(self, z):
        """bound on P(X_T <= z), vector z"""
        z = np.atleast_1d(np.asarray(z, dtype=float))
        if len(self.th_neg) == 0:
            return np.ones_like(z)
        e = np.min(np.outer(z, self.th_neg) + self.lm_neg[None, :], axis=1)
        return np.exp(np.minimum(e, 0.0))

    def lower_sinh(self, z):
        """bound on E[2 sinh(z - X) 1{X < z}], vector z.  For theta > 1 and t > 0: 2 sinh(t) <= c(theta) e^(theta t) with
        c(theta) = sup_t 2 sinh(t) e^(-theta t) = 2 sinh(t*) e^(-theta t*), t* = atanh(1/theta); hence
        E[2 sinh(z-X) 1{X<z}] <= min_{theta>1} c(theta) e^(theta z) M(-theta)   (a Chernoff bound with the pay-off weight)."""
        z = np.atleast_1d(np.asarray(z, dtype=float))
        sel = self.th_neg > 1.0 + 1e-9
        if not np.any(sel):
            return np.full_like(z, np.inf)
        th = self.th_neg[sel]
        ts = np.arctanh(1.0 / th)
        logc = np.log(2.0 * np.sinh(ts)) - th * ts
        e = np.min(np.outer(z, th) + (self.lm_neg[sel] + logc)[None, :], axis=1)
        return np.exp(e)

    def mis_put(self, x):
        """bound on E|g~ - g|(x + X_T) for the put pay-off g(y) = (1-e^y)^+ and its even periodic extension g~ from [a,b]:
        y > b:  g = 0;  g~(y) = g(2b-y) = 0 on (b, 2b) and 0 <= g~ <= 1-e^a beyond           => (1-e^a) P(x+X > 2b)
        y < a:  g = 1-e^y;  g~(y) = g(2a-y) = 1-e^(2a-y) on [2a, a) so 0 <= g-g~ = e^(2a-y)-e^y = e^a 2 sinh(a-y);
                for y < 2a: |g-g~| <= 1-e^y <= e^(2a-y)-e^y as well                            => e^a E[2 sinh(a-Y) 1{Y<a}]
        (and always |g~-g| <= 1, which gives the plain tail masses as an alternative)."""
        x = np.atleast_1d(np.asarray(x, dtype=float))
        ea = math.exp(self.a)
        low = np.minimum(ea * self.lower_sinh(self.a - x), self.p_lower(self.a - x))
        up = np.minimum((1.0 - ea) * self.p_upper(2 * self.b - x), self.p_upper(self.b - x))
        return np.minimum(1.0, up + low)

    def mis_dig(self, x):
        """bound on E|h~ - 1{y>0}|(x + X_T): the extension of 1_[0,b] equals 1{y>0} on (2a, 2b)"""
        x = np.atleast_1d(np.asarray(x, dtype=float))
        return np.minimum(1.0, self.p_lower(2 * self.a - x) + self.p_upper(2 * self.b - x))

    # -- sums of a non-increasing envelope ------------------------------------------------------------------------------
    @staticmethod
    def _dyadic(envf, step, k1, weight):
        """upper bound of sum_{k >= k1} w(k) envf(k*step) over dyadic blocks; weight in {"1", "1/k", "1/k2"}.
        Returns +inf when the blocks have not died out at U_MAX."""
        jmax = int(math.floor(math.log2(U_MAX / (k1 * step))))
        ks = k1 * np.power(2.0, np.arange(0, jmax + 1))
        e = envf(ks * step)
        if np.any(np.isnan(e)):
            # a nan after the envelope has become zero is harmless; anything else is not a bound
            first_nan = int(np.argmax(np.isnan(e)))
            if first_nan == 0 or e[first_nan - 1] > 0.0:
                return math.inf
            e = np.where(np.isnan(e), 0.0, e)
        if weight == "1":
            blk = ks
        elif weight == "1/k":
            blk = math.log(2.0) + 1.0 / ks
        else:
            blk = 1.0 / (ks - 1.0) - 1.0 / (2.0 * ks - 1.0)
        c = e * blk
        total = float(np.sum(c))
        if not math.isfinite(total):
            return math.inf
        if c[-1] > 1e-12 * max(total, 1e-300) and c[-1] > 0:
            return math.inf
        return total

    def _series(self):
        n, du, L = self.n, self.du, self.b - self.a
        k = np.arange(n, 8 * n, dtype=float)
        u = k * du
        e = self.env(u)
        self.phi_at_n = float(e[0]) if np.isfinite(e[0]) else math.inf
        if np.any(np.isnan(e)):
            self.S_put = self.S_dig = self.S_den = math.inf
        else:
            # |V_k| <= 2/(b-a) * (1/u^3 + 2/u^2)      (V_k (b-a)/2 = s/(u(1+u^2)) - (cos(ua) - e^a)/(1+u^2))
            vk = 2.0 / L * (1.0 / u ** 3 + 2.0 / u ** 2)
            d_put = float(np.sum(vk * e))
            d_dig = float(np.sum(2.0 / (k * math.pi) * e))
            d_den = float(np.sum(e))
            k1 = 8 * n
            # beyond k1: |V_k| <= 2/L * 3/u^2 = 6 L /(pi^2 k^2)
            t2 = self._dyadic(self.env, du, k1, "1/k2")
            t1 = self._dyadic(self.env, du, k1, "1/k")
            t0 = self._dyadic(self.env, du, k1, "1")
            self.S_put = d_put + 6.0 * L / math.pi ** 2 * t2
            self.S_dig = d_dig + 2.0 / math.pi * t1
            self.S_den = 2.0 / L * (d_den + t0)
        # density bound D = 1/pi int_0^inf env <= du/pi * sum_{k>=0} env(k du)   (left Riemann sum of a non-increasing fn)
        k0 = np.arange(0, n, dtype=float)
        e0 = self.env(k0 * du)
        self.sum_env_lt_n = float(np.sum(e0)) if not np.any(np.isnan(e0)) else math.inf
        if math.isfinite(self.S_den) and math.isfinite(self.sum_env_lt_n):
            self.D = du / math.pi * self.sum_env_lt_n + 0.5 * self.S_den
        else:
            self.D = math.inf
        # aliasing of the trapezoidal rule with M intervals (COS-4) is computed on demand

    def trapz_alias(self, M: int) -> float:
        ks = np.arange(2 * M, self.n, 2 * M, dtype=float)
        if len(ks) == 0:
            return 0.0
        e = self.env(ks * self.du)
        if np.any(np.isnan(e)):
            return math.inf
        return 2.0 * float(np.sum(e))

    # -- COS budgets per strike ----------------------------------------------------------------------------------------
    def tau_cos(self, K):
        """|COS put/call - true| <= tau, vector of strikes"""
        K = np.atleast_1d(np.asarray(K, dtype=float))
        x = np.log(self.S0 / K)
        return K * self.df * (self.mis_put(x) + self.S_put) + ULP_FLOOR_COS * np.maximum(K, max(self.S0, self.F))

    def tau_dig(self, K):
        K = np.atleast_1d(np.asarray(K, dtype=float))
        x = np.log(self.S0 / K)
        return self.df * (self.mis_dig(x) + self.S_dig) + 1e-11

    def tau_den(self):
        """lower bound slack for s*density(s) (log-density units)"""
        L = self.b - self.a
        return self.S_den + 1e-12 * (1.0 + 2.0 / L * self.sum_env_lt_n)

    # -- FFT budgets ---------------------------------------------------------------------------------------------------
    def _fft_static(self):
        q = 1.0 + self.alpha
        self.M_q = self.mgf(q)  # E (S_T/S0)^(1+alpha)
        # (b) truncation: sum_{j>=N} |psi(v_j)| <= df S0^q M_q sum_{j>=N} env_t(v_j)/v_j^2 = ... /eta^2 sum env_t(j eta)/j^2
        if math.isfinite(self.M_q):
            t = self._dyadic(self.env_tilt, self.eta, self.N, "1/k2")
            self.fft_trunc_core = self.df * self.S0 ** q * self.M_q * t / self.eta ** 2 * (4.0 * self.eta / 3.0) / math.pi
        else:
            self.fft_trunc_core = math.inf
        # (c) concentration function of X_T at scale lambda
        lam = self.lam
        cands = [1.0]
        if math.isfinite(self.D):
            cands.append(lam * self.D)
        # Esseen with a left Riemann sum of the envelope on [0, 1/lam], step h
        h = 1.0 / lam / 4096.0
        e = self.env(np.arange(0, 4096, dtype=float) * h)
        if not np.any(np.isnan(e)):
            cands.append((96.0 / 95.0) ** 2 * lam * 2.0 * h * float(np.sum(e)))
        self.Q_lam = min(cands)
        # (a) admissible moments p > 1 + alpha on the Chernoff grid
        sel = (self.th_pos > q + 0.05) & np.isfinite(self.lm_pos)
        self.alias_p = self.th_pos[sel]
        self.alias_lm = self.lm_pos[sel]

    def tau_fft(self, K):
        K = np.atleast_1d(np.asarray(K, dtype=float))
        k = np.log(K)
        al = self.alpha
        P = 2 * math.pi / self.eta
        out = np.zeros_like(K)
        # (a)
        if len(self.alias_p) == 0:
            return np.full_like(K, math.inf)
        alias = np.zeros_like(K)
        for Q, wgt in ((P, 4.0 / 3.0), (P / 2.0, 1.0 / 3.0)):
            r = math.exp(-al * Q)
            left = self.df * self.F * r / (1.0 - r)
            # right: df S0^p M(p) K^(1-p) sum_m e^{(al+1-p) m Q}
            pp = self.alias_p[None, :]
            rr = np.exp((al + 1.0 - pp) * Q)
            with np.errstate(all="ignore"):
                lg = (np.log(self.df) + pp * math.log(self.S0) + self.alias_lm[None, :] + (1.0 - pp) * k[:, None]
                      + np.log(rr / (1.0 - rr)))
            right = np.exp(np.min(lg, axis=1))
            alias += wgt * (left + right)
        # the node errors (a), (b) are evaluated at k instead of at the two neighbouring grid nodes (distance < lambda ~ 1e-4):
        # they vary by a factor <= exp(p lambda) < 1.01 over a cell
        out += 1.01 * alias
        # (b)   (|alpha^2 + alpha - v^2 + i(2 alpha+1)v| >= v^2 - alpha^2 - alpha >= v^2 (1 - 1e-9) for v >= N eta)
        out += 1.01 * np.exp(-al * k) * self.fft_trunc_core
        # (c)
        K_up = K * math.exp(self.lam)
        out += self.lam / 4.0 * self.df * K_up * (self.Q_lam + self.lam)
        # (d)
        out += 1e-12 * self.S0 * np.maximum(1.0, (self.S0 / K) ** al) + 1e-11 * np.maximum(K, self.S0)
        return out
