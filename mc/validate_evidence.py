"""python3-vt mc/validate_evidence.py evidence/Cxx.json  -> exit 0 when the file validates against the evidence schema."""
import json
import sys

import jsonschema

schema = json.load(open("/root/.vp/EVIDENCE.schema.json"))
ok = True
for path in sys.argv[1:]:
    try:
        jsonschema.validate(json.load(open(path)), schema)
    except Exception as e:  # noqa
        ok = False
        print(f"EVIDENCE INVALID {path}: {str(e)[:400]}")
sys.exit(0 if ok else 2)
