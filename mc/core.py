"""Exploration core shared by all checks.

A check module (checks/cNN_*.py) provides

    PID            "C14"
    LEVEL          "model_checking" | "exploration"
    RULE           text: how cases are enumerated, what makes one non-trivial
    ASSUMPTIONS    list[str]
    cases(tier)    -> list of JSON-serialisable case dicts; the list is the complete stated space of the tier
    check_case(sh, case)   evaluates the oracle on one case of the real code, reporting through the Shard `sh`

Everything is an exhaustive enumeration: `cases(tier)` is never sampled; VERIF_SEED only rotates which explored
cases are copied to coverage.samples and the order in which shards are handed to workers.

Three exploration helpers are offered to check modules:
    lattice(**axes)           complete finite product, simplest first
    bfs(...)                  explicit-state search over operation histories on fresh real objects
    ChoiceExplorer            stateless depth-first search over environment answers with deviation bounding
"""
from __future__ import annotations

import collections
import hashlib
import itertools
import json
import math
import multiprocessing
import os
import sys
import time
import traceback


# --------------------------------------------------------------------------------------------------------------------
# shard: what one worker reports
# --------------------------------------------------------------------------------------------------------------------

def jsonable(x):
    """Best-effort conversion of numpy scalars/arrays, tuples, sets, complex and floats such as inf to JSON."""
    try:
        import numpy as np
    except Exception:  # pragma: no cover
        np = None
    if isinstance(x, dict):
        return {str(k): jsonable(v) for k, v in x.items()}
    if isinstance(x, (list, tuple)):
        return [jsonable(v) for v in x]
    if isinstance(x, (set, frozenset)):
        return sorted((jsonable(v) for v in x), key=repr)
    if np is not None:
        if isinstance(x, np.ndarray):
            return jsonable(x.tolist())
        if isinstance(x, np.generic):
            return jsonable(x.item())
    if isinstance(x, complex):
        return {"re": jsonable(x.real), "im": jsonable(x.imag)}
    if isinstance(x, float):
        if math.isnan(x):
            return "nan"
        if math.isinf(x):
            return "inf" if x > 0 else "-inf"
        return x
    if isinstance(x, (int, str, bool)) or x is None:
        return x
    return repr(x)


def unjson_float(x):
    """Inverse of jsonable for floats (case dicts carry 'inf' / '-inf' / 'nan' strings)."""
    if isinstance(x, str):
        if x == "inf":
            return math.inf
        if x == "-inf":
            return -math.inf
        if x == "nan":
            return math.nan
    return x


def digest(obj) -> str:
    return hashlib.sha1(json.dumps(jsonable(obj), sort_keys=True).encode()).hexdigest()[:12]


class Shard:
    """Accumulator handed to check_case; merged across workers."""

    MAX_VIOL_PER_KEY = 3

    def __init__(self):
        self.violations = collections.OrderedDict()  # key -> list of {what, case, detail}
        self.viol_counts = collections.Counter()
        self.counters = collections.Counter()
        self.outcomes = set()
        self.nontrivial = set()
        self.classes = set()
        self.samples = []
        self.notes = []
        self.states = 0
        self.transitions = 0
        self.traces = 0
        self.caps = []
        self.case = None  # current case (set by the driver)

    # -- reporting -------------------------------------------------------------------------------------------------
    def violation(self, key: str, what: str, detail=None):
        self.viol_counts[key] += 1
        lst = self.violations.setdefault(key, [])
        if len(lst) < self.MAX_VIOL_PER_KEY:
            lst.append({"what": what, "case": jsonable(self.case), "detail": jsonable(detail)})

    def count(self, name: str, n: int = 1):
        self.counters[name] += n

    def outcome(self, o):
        """Record an observed outcome (hashable / json-able). One outcome from many executions = vacuous."""
        self.outcomes.add(digest(o))

    def nontriv(self, ident=None):
        """Mark the current case (or `ident`) as distinct and non-trivial by the module's stated rule."""
        self.nontrivial.add(digest(ident if ident is not None else self.case))

    def cls(self, name: str):
        """Record a branch-selecting class visited."""
        self.classes.add(name)

    def sample(self, s):
        if len(self.samples) < 64:
            self.samples.append(jsonable(s))

    def note(self, s: str):
        if len(self.notes) < 50 and s not in self.notes:
            self.notes.append(s)

    def cap(self, s: str):
        if s not in self.caps:
            self.caps.append(s)

    def merge(self, other: "Shard"):
        for k, lst in other.violations.items():
            mine = self.violations.setdefault(k, [])
            for v in lst:
                if len(mine) < self.MAX_VIOL_PER_KEY:
                    mine.append(v)
        self.viol_counts.update(other.viol_counts)
        self.counters.update(other.counters)
        self.outcomes |= other.outcomes
        self.nontrivial |= other.nontrivial
        self.classes |= other.classes
        for s in other.samples:
            if len(self.samples) < 256:
                self.samples.append(s)
        for n in other.notes:
            self.note(n)
        for c in other.caps:
            self.cap(c)
        self.states += other.states
        self.transitions += other.transitions
        self.traces += other.traces


# --------------------------------------------------------------------------------------------------------------------
# helpers for tolerances
# --------------------------------------------------------------------------------------------------------------------

def close(x, y, rtol=1e-9, atol=0.0, scale=None) -> bool:
    """|x-y| <= atol + rtol*scale with scale = max(|x|,|y|) unless given. nan never close; equal infinities close."""
    x = float(x)
    y = float(y)
    if math.isnan(x) or math.isnan(y):
        return False
    if math.isinf(x) or math.isinf(y):
        return x == y
    s = max(abs(x), abs(y)) if scale is None else scale
    return abs(x - y) <= atol + rtol * s


# --------------------------------------------------------------------------------------------------------------------
# lattice
# --------------------------------------------------------------------------------------------------------------------

def lattice(**axes):
    """Complete product of named finite axes, first axis varying slowest, as a list of dicts."""
    names = list(axes)
    out = []
    for tup in itertools.product(*(axes[n] for n in names)):
        out.append(dict(zip(names, tup)))
    return out


# --------------------------------------------------------------------------------------------------------------------
# explicit-state search over operation histories (fresh real object per state, history replayed)
# --------------------------------------------------------------------------------------------------------------------

def bfs(sh: Shard, build, menu, canon, invariant, depth: int, max_states: int = 200000):
    """Breadth-first search.

    build(hist)        -> fresh real object with the history (list of events) applied; may return (obj, observations)
    menu(obj, hist)    -> list of JSON-able events enabled in that state
    canon(obj, hist)   -> hashable canonical state (property-relevant fields; module documents why merged states agree)
    invariant(obj, hist, ev) -> None, or (key, what, detail) describing a violation; called on every transition target
                         (ev is None for the initial state)
    Returns (states, transitions, max_depth).
    """
    init = build([])
    r = invariant(init, [], None)
    if r:
        sh.violation(r[0], r[1], {"history": [], "detail": r[2]})
    seen = {canon(init, [])}
    frontier = collections.deque([[]])
    transitions = 0
    maxd = 0
    while frontier:
        hist = frontier.popleft()
        if len(hist) >= depth:
            continue
        src = build(hist)
        for ev in menu(src, hist):
            nh = hist + [ev]
            nxt = build(nh)
            transitions += 1
            r = invariant(nxt, nh, ev)
            if r:
                sh.violation(r[0], r[1], {"history": nh, "detail": r[2]})
            k = canon(nxt, nh)
            if k not in seen:
                if len(seen) >= max_states:
                    sh.cap(f"bfs state cap {max_states} hit at depth {len(nh)}")
                    continue
                seen.add(k)
                maxd = max(maxd, len(nh))
                frontier.append(nh)
    sh.states += len(seen)
    sh.transitions += transitions
    return len(seen), transitions, maxd


# --------------------------------------------------------------------------------------------------------------------
# stateless choice explorer with deviation bounding (CHESS-style, for environment answers)
# --------------------------------------------------------------------------------------------------------------------

class NonDeterminism(Exception):
    pass


class Chooser:
    """Handed to one execution: replays a prefix of choices, then answers 0 (the default) everywhere."""

    def __init__(self, prefix):
        self.prefix = list(prefix)
        self.points = []  # (label, arity, choice)

    def choose(self, arity: int, label: str = "") -> int:
        i = len(self.points)
        if i < len(self.prefix):
            exp_label, exp_arity, c = self.prefix[i]
            if exp_label != label or exp_arity != arity:
                raise NonDeterminism(
                    f"choice point {i} diverged while replaying: expected {exp_label}/{exp_arity}, got {label}/{arity}"
                )
        else:
            c = 0
        if not (0 <= c < arity):
            raise NonDeterminism(f"choice {c} out of range {arity} at point {i} ({label})")
        self.points.append((label, arity, c))
        return c

    @property
    def choices(self):
        return [c for (_, _, c) in self.points]

    @property
    def deviations(self):
        return sum(1 for (_, _, c) in self.points if c != 0)


class ChoiceExplorer:
    """explore(run, bound): run(chooser) executes the real code once on fresh objects; every environment decision in it
    calls chooser.choose(arity, label).  All executions with at most `bound` non-default answers are enumerated."""

    def __init__(self, run, bound: int, max_runs: int = 10**7):
        self.run = run
        self.bound = bound
        self.max_runs = max_runs
        self.runs = 0
        self.points_total = 0
        self.capped = False

    def explore(self, prefix=(), shard=(0, 1)):
        """shard=(i, n): the children of the root execution are dealt round-robin to n shards; shard i explores the
        subtrees of its children (every shard re-runs the root). The union over i is the complete tree."""
        stack = [list(prefix)]
        root = True
        while stack:
            pre = stack.pop()
            if self.runs >= self.max_runs:
                self.capped = True
                return
            ch = Chooser(pre)
            self.run(ch)
            self.runs += 1
            self.points_total += len(ch.points)
            pts = ch.points
            dev_before = sum(1 for (_, _, c) in pts[: len(pre)] if c != 0)
            dev = dev_before
            # branch on every later point (all of which took the default 0)
            new = []
            for i in range(len(pre), len(pts)):
                label, arity, c = pts[i]
                if dev + 1 <= self.bound:
                    for alt in range(1, arity):
                        new.append(pts[:i] + [(label, arity, alt)])
            if root:
                root = False
                new = [c for j, c in enumerate(new) if j % shard[1] == shard[0]]
            stack.extend(reversed(new))


# --------------------------------------------------------------------------------------------------------------------
# sharded execution
# --------------------------------------------------------------------------------------------------------------------

_WORK = {}
_COV = {}


def _coverage():
    """Development aid: with VERIF_COVERAGE_DIR set, every worker measures which lines / branches of
    the library its cases execute. Not used by the registered commands."""
    d = os.environ.get("VERIF_COVERAGE_DIR")
    if not d:
        return None
    if _COV.get("pid") != os.getpid():
        import coverage

        repo = os.environ.get("VERIF_REPO", "/repo")
        cov = coverage.Coverage(data_file=os.path.join(d, ".coverage"), data_suffix=True, branch=True,
                                include=[os.path.join(repo, "rpylib", "*")])
        cov.start()
        _COV.update(pid=os.getpid(), cov=cov)
    return _COV["cov"]


def _harness_reads_missing_private_name(e) -> bool:
    """True when `e` is an AttributeError about a name starting with an underscore raised by a frame of /verif itself (the
    innermost frame of the traceback is harness code, i.e. the harness evaluated `obj._name`), not by library code."""
    if not isinstance(e, AttributeError):
        return False
    name = getattr(e, "name", None)
    if not (isinstance(name, str) and name.startswith("_") and not name.startswith("__")):
        return False
    tb = e.__traceback__
    last = None
    while tb is not None:
        last = tb
        tb = tb.tb_next
    if last is None:
        return False
    here = os.path.dirname(os.path.dirname(os.path.abspath(__file__)))
    return os.path.abspath(last.tb_frame.f_code.co_filename).startswith(here + os.sep)


def _run_chunk(args):
    idx, chunk = args
    mod = _WORK["mod"]
    sh = Shard()
    cov = _coverage()
    for case in chunk:
        sh.case = case
        try:
            mod.check_case(sh, case)
        except NonDeterminism as e:
            sh.violation("NONDETERMINISM", str(e), None)
        except Exception as e:  # a crash of the harness or of the library outside what the check anticipates
            if _harness_reads_missing_private_name(e):
                # the HARNESS (not the library) reached for a private attribute that this tree does not have: a renamed
                # private field is no violation of any property. The case is dropped, counted and reported as a cap
                # (coverage incomplete), never as an alarm.
                sh.count("cases_dropped_private_name_missing")
                sh.cap(f"harness seam not found in this tree ({e}): the cases that need it were dropped")
                sh.count("cases")
                continue
            tb = traceback.format_exc(limit=8)
            sh.violation(
                f"{mod.PID}:harness-exception:{case.get('sub', '')}:{type(e).__name__}",
                f"unhandled {type(e).__name__}: {e}",
                {"traceback": tb},
            )
        sh.count("cases")
    sh.case = None
    if cov is not None:
        cov.save()
    return idx, sh


def run_cases(mod, cases, procs=None, chunk=None) -> Shard:
    """Run check_case on every case, sharded over a fork pool; merged in case order (deterministic)."""
    procs = procs or int(os.environ.get("VERIF_PROCS", "0")) or min(16, os.cpu_count() or 1)
    total = Shard()
    n = len(cases)
    if n == 0:
        return total
    if chunk is None:
        chunk = max(1, min(64, n // (procs * 8) or 1))
    chunks = [(i, cases[i: i + chunk]) for i in range(0, n, chunk)]
    seed = int(os.environ.get("VERIF_SEED", "0") or 0)
    order = list(range(len(chunks)))
    if seed:
        rot = seed % len(order)
        order = order[rot:] + order[:rot]
    _WORK["mod"] = mod
    results = {}
    if procs <= 1 or len(chunks) == 1:
        for i in order:
            idx, sh = _run_chunk(chunks[i])
            results[idx] = sh
    else:
        ctx = multiprocessing.get_context("fork")
        with ctx.Pool(procs) as pool:
            for idx, sh in pool.imap_unordered(_run_chunk, [chunks[i] for i in order]):
                results[idx] = sh
    for idx in sorted(results):
        total.merge(results[idx])
    return total
