"""Closing the standard Monte-Carlo engine with a scripted process (DESIGN 3.4, C07).

The real rpylib.montecarlo.standard.engine.Engine, ConfigurationStandard, MCStatistics, MCPath, Product, ControlVariates run
unchanged. The process is a duck-typed stand-in implementing exactly the interface the engine uses
(dimension / process_representation / model / initialisation / pre_computation / deterministic_path / df /
simulate_one_path); its k-th call to simulate_one_path returns the k-th scripted path, and it logs every call.

A scripted path has three dates (0, T/2, T). Its terminal value is  deterministic(T) + (diffusion(T) + jump(T))  with all
three parts non-zero, and a decoy value at T/2, so that a payoff evaluated on a wrong date or on a part of the path only is
visible. In the identity representation every part is dyadic: the sum is exact and equals the scripted letter.

The reference model (pure Python, math.fsum) is in this file too: payoff rows, control rows, given control prices.
"""
from __future__ import annotations

import logging
import math

import numpy as np

MATURITY = 1.0
TIMES = (0.0, 0.5, 1.0)
DET = (0.0, 0.125, 0.25)  # deterministic part at the three dates
JUMP = (0.0, 0.0, 0.125)  # pure-jump part
DECOY = 7.0  # diffusion part at T/2

ALPHABETS = {
    "A3": (0.5, 1.0, 1.5),  # symmetric about the middle letter: sample means hit the given control price exactly
    "A4": (0.5, 1.0, 1.5, 2.0),  # four letters: two controls + intercept do not interpolate the payoff
    # path-dependent payoffs: a letter is (spot at T/2, terminal spot); the path starts at spot 1. With the barriers 1.25 (up)
    # and 0.75 (down) the value at T/2 crosses up (2.0), down (0.25) or not at all (1.0), and the terminal values 1.5 / 0.5
    # cross on their own.
    "B9": tuple((m, t) for m in (1.0, 2.0, 0.25) for t in (0.5, 1.0, 1.5)),
}
BARRIER_UP, BARRIER_DOWN, BARRIER_STRIKE = 1.25, 0.75, 0.25
BARRIER_KINDS = ("b-ui", "b-uo", "b-di", "b-do")

STRIKES = {"s": 0.75, "v2": [0.75, 1.25], "v3": [0.25, 0.75, 1.25],
           # payoffs on an underlying type other than Spot (sub "mixed"): call on the log-spot / on the mean of the spots
           "ls": -0.25, "lv2": [-0.25, 0.25], "m": 0.75, "mv2": [0.75, 1.25],
           "b-ui": BARRIER_STRIKE, "b-uo": BARRIER_STRIKE, "b-di": BARRIER_STRIKE, "b-do": BARRIER_STRIKE}
PAYOFF_UNDERLYING = {"s": "spot", "v2": "spot", "v3": "spot", "ls": "logspot", "lv2": "logspot", "m": "mean", "mv2": "mean",
                     "b-ui": "spot", "b-uo": "spot", "b-di": "spot", "b-do": "spot"}
LFWD_K = -0.5  # strike of the forward on the log-spot
LCALL_K = -0.25  # strike of the call on the log-spot

# control strikes per payoff component (vector controls), scalar controls use the first entry
FWD_K = (0.125, 0.25, 0.375)
CALL_K = (0.875, 0.625, 1.125)

CV_KINDS = ("none", "1r", "1a", "2r", "2a", "2u")
CROSS_CV_KINDS = ("1x", "2x")
TINY_CV_KINDS = ("1t", "2t")  # control products with small notionals: 1e-7; the pair 1e-3 / 1e-6
TINY_NOTIONALS = {"1t": (1e-7,), "2t": (1e-3, 1e-6)}  # controls on an underlying type different from the product's


def quiet():
    logging.disable(logging.CRITICAL)


def decode(idx: int, n: int, base: int):
    """idx-th tuple of itertools.product(range(base), repeat=n)."""
    out = [0] * n
    for pos in range(n - 1, -1, -1):
        idx, out[pos] = divmod(idx, base)
    return out


def payoff_dim(kind: str) -> int:
    k = STRIKES[kind]
    return 1 if isinstance(k, float) else len(k)


# ----------------------------------------------------------------------------------------------------------------------
# scripted process
# ----------------------------------------------------------------------------------------------------------------------

class ScriptedModel:
    def __init__(self):
        self.density_calls = []

    def dimension(self):
        return 1

    def density(self, t):
        self.density_calls.append(t)
        return lambda x: np.zeros_like(np.asarray(x, dtype=float))


class ScriptedModelWithoutDensity:
    """a model that has no theoretical density (the engine then stores the spot rows without a density to plot)"""

    def dimension(self):
        return 1


class ScriptedProcess:
    """Duck-typed Process. `letters` are the terminal spot values of the successive paths."""

    def __init__(self, letters, df, representation="identity", with_density=True):
        from rpylib.process.process import ProcessRepresentation

        self.letters = list(letters)
        self._df = df
        self.representation = representation
        self.process_representation = (
            ProcessRepresentation.IDENDITY if representation == "identity" else ProcessRepresentation.LOG
        )
        self.model = ScriptedModel() if with_density else ScriptedModelWithoutDensity()
        self.calls = 0
        self.log = []

    def dimension(self):
        return 1

    def load(self, letters, df=None):
        """Re-use of ONE process object for another pricing (sub 'history'): a new script of paths (and possibly another
        discount factor); the call counter and the log start again."""
        self.letters = list(letters)
        self.calls = 0
        self.log = []
        if df is not None:
            self._df = df

    def initialisation(self, product, *a, **k):
        self.log.append(("initialisation",))

    def pre_computation(self, mc_paths, product, *a, **k):
        self.log.append(("pre_computation", int(mc_paths)))

    def deterministic_path(self, times):
        t = np.asarray(times, dtype=float)
        return np.interp(t, TIMES, DET)

    def df(self, t):
        self.log.append(("df", float(t)))
        return self._df

    def stochastic_parts(self, k):
        """(diffusion, jump) arrays of the k-th path. A letter is the terminal spot (decoy at T/2, path value 0 at time 0)
        or a pair (spot at T/2, terminal spot), the path then starting at spot 1."""
        letter = self.letters[k]
        ident = self.representation == "identity"
        if isinstance(letter, (tuple, list)):
            mid, term = letter
            x0, xm, target = (1.0, mid, term) if ident else (0.0, math.log(mid), math.log(term))
            diff = np.array([(x0 - DET[0]) - JUMP[0], (xm - DET[1]) - JUMP[1], (target - DET[2]) - JUMP[2]])
        else:
            target = letter if ident else math.log(letter)
            diff = np.array([0.0, DECOY, (target - DET[2]) - JUMP[2]])
        jump = np.array(JUMP)
        return diff, jump

    def simulate_one_path(self):
        from rpylib.montecarlo.path import StochasticJumpPath

        k = self.calls
        self.calls += 1
        if k >= len(self.letters):
            # more paths requested than configured: hand out an identifiable value instead of failing in the harness
            return StochasticJumpPath(np.array(TIMES), np.array([0.0, DECOY, 1e6 + k]), np.array(JUMP))
        diff, jump = self.stochastic_parts(k)
        return StochasticJumpPath(np.array(TIMES), diff, jump)


def terminal_spot(letter, representation):
    """What the library must see as the terminal spot of a path scripted with `letter` (same association as MCPath)."""
    if isinstance(letter, (tuple, list)):
        letter = letter[1]
    target = letter if representation == "identity" else math.log(letter)
    x = DET[2] + (((target - DET[2]) - JUMP[2]) + JUMP[2])
    return x if representation == "identity" else math.exp(x)


# ----------------------------------------------------------------------------------------------------------------------
# products, controls, reference values
# ----------------------------------------------------------------------------------------------------------------------

def _underlying(name):
    from rpylib.product.underlying import LogSpot, Mean, Spot

    return {"spot": Spot, "logspot": LogSpot, "mean": Mean}[name]()


def underlying_value(name, s):
    """Value of the underlying of that type for terminal spot s (one-dimensional process: the mean is the spot)."""
    return math.log(s) if name == "logspot" else s


def make_product(kind, notional):
    from rpylib.product.payoff import PayoffType, Vanilla
    from rpylib.product.product import Product

    k = STRIKES[kind]
    strike = k if isinstance(k, float) else list(k)
    if kind in BARRIER_KINDS:
        from rpylib.product.payoff import Barrier, BarrierType

        bt = {"b-ui": BarrierType.UP_AND_IN, "b-uo": BarrierType.UP_AND_OUT, "b-di": BarrierType.DOWN_AND_IN,
              "b-do": BarrierType.DOWN_AND_OUT}[kind]
        payoff = Barrier(strike=strike, payoff_type=PayoffType.CALL, barrier_type=bt,
                         barrier=BARRIER_UP if kind[2] == "u" else BARRIER_DOWN)
    else:
        payoff = Vanilla(strike=strike, payoff_type=PayoffType.CALL)
    return Product(payoff_underlying=_underlying(PAYOFF_UNDERLYING[kind]), payoff=payoff, maturity=MATURITY, notional=notional)


def payoff_unit(kind, s, letter=None):
    """Undiscounted, un-notionalled payoff components of a path with terminal spot s (for the barrier kinds `letter` is the
    scripted (spot at T/2, terminal spot) pair: the reference reads the WHOLE path 1 -> mid -> terminal)."""
    k = STRIKES[kind]
    ks = [k] if isinstance(k, float) else k
    u = underlying_value(PAYOFF_UNDERLYING[kind], s)
    van = [max(u - x, 0.0) for x in ks]
    if kind in BARRIER_KINDS:
        spots = (1.0, letter[0], letter[1])
        hit = any(v > BARRIER_UP for v in spots) if kind[2] == "u" else any(v < BARRIER_DOWN for v in spots)
        alive = hit if kind[3] == "i" else not hit
        return van if alive else [0.0 for _ in van]
    return van


def _sq(s):
    return (s - 1.0) ** 2


# mean of each control's unit payoff over the balanced sample (each letter of A3 once): used as the "market price"
_BAL = ALPHABETS["A3"]


def _bal_mean(f):
    return math.fsum(f(s) for s in _BAL) / len(_BAL)


def _f_forward(s, k=FWD_K[0]):
    return s - k


def _f_call(s, k=CALL_K[0]):
    return max(s - k, 0.0)


def _f_lforward(s):
    return math.log(s) - LFWD_K


def _f_lcall(s):
    return max(math.log(s) - LCALL_K, 0.0)


def control_spec(cv_kind, dim, payoff="s"):
    """List of controls; each is (name, [unit payoff function of the terminal SPOT per payoff component], per_component).
    Names: forward / call / square on Spot, lforward / lcall on LogSpot."""
    if cv_kind == "none":
        return []
    if cv_kind in CROSS_CV_KINDS:
        # at least one control on an underlying type different from the product's (scalar controls, broadcast)
        pu = PAYOFF_UNDERLYING[payoff]
        if pu == "spot":
            names = ["lforward"] if cv_kind == "1x" else ["forward", "lcall"]
        elif pu == "logspot":
            names = ["forward"] if cv_kind == "1x" else ["lforward", "call"]
        else:  # mean
            names = ["forward"] if cv_kind == "1x" else ["forward", "lforward"]
        fun = {"forward": _f_forward, "call": _f_call, "lforward": _f_lforward, "lcall": _f_lcall}
        return [(nm, [fun[nm]] * dim, False) for nm in names]
    if cv_kind in TINY_CV_KINDS:
        names = ["forward"] if cv_kind == "1t" else ["forward", "call"]
        fun = {"forward": _f_forward, "call": _f_call}
        return [(nm, [fun[nm]] * dim, False) for nm in names]
    vector = cv_kind.endswith("a") and dim > 1
    out = []
    if vector:
        out.append(("forward", [(lambda s, k=FWD_K[c]: s - k) for c in range(dim)], True))
    else:
        out.append(("forward", [(lambda s, k=FWD_K[0]: s - k)] * dim, False))
    if cv_kind[0] == "2":
        if cv_kind == "2u":
            out.append(("square", [_sq] * dim, False))
        elif vector:
            out.append(("call", [(lambda s, k=CALL_K[c]: max(s - k, 0.0)) for c in range(dim)], True))
        else:
            out.append(("call", [(lambda s, k=CALL_K[0]: max(s - k, 0.0))] * dim, False))
    return out


def control_notionals(cv_kind, notional, ncv):
    """Notional of each control product: the product's own notional, except for the small-notional kinds."""
    return list(TINY_NOTIONALS[cv_kind]) if cv_kind in TINY_CV_KINDS else [notional] * ncv


def control_prices(cv_kind, dim, notional, df, payoff="s"):
    """Given ("market") prices P[j][c] of control j for payoff component c."""
    spec = control_spec(cv_kind, dim, payoff)
    cn = control_notionals(cv_kind, notional, len(spec))
    return [[cn[j] * df * _bal_mean(f) for f in fs] for j, (_, fs, _) in enumerate(spec)]


def make_controls(cv_kind, dim, notional, df, payoff="s"):
    """The real ControlVariates object (None for 'none')."""
    from rpylib.product.payoff import Forward, PayoffOnTheFly, PayoffType, Vanilla
    from rpylib.product.product import ControlVariates, Product

    if cv_kind == "none":
        return None
    spec = control_spec(cv_kind, dim, payoff)
    P = control_prices(cv_kind, dim, notional, df, payoff)
    cn = control_notionals(cv_kind, notional, len(spec))
    products, prices = [], []
    for j, (name, fs, per_comp) in enumerate(spec):
        und = "logspot" if name in ("lforward", "lcall") else "spot"
        if name == "forward":
            pay = Forward(strike=np.array(FWD_K[:dim])) if per_comp else Forward(strike=FWD_K[0])
        elif name == "call":
            pay = (Vanilla(strike=list(CALL_K[:dim]), payoff_type=PayoffType.CALL) if per_comp
                   else Vanilla(strike=CALL_K[0], payoff_type=PayoffType.CALL))
        elif name == "lforward":
            pay = Forward(strike=LFWD_K)
        elif name == "lcall":
            pay = Vanilla(strike=LCALL_K, payoff_type=PayoffType.CALL)
        else:
            pay = PayoffOnTheFly(_sq)
        products.append(Product(payoff_underlying=_underlying(und), payoff=pay, maturity=MATURITY, notional=cn[j]))
        if cv_kind.endswith("r"):
            prices.append(float(P[j][0]))  # one real number per control (a scalar control has one market price)
        else:
            prices.append(np.array(P[j], dtype=float))  # one entry per payoff component
    return ControlVariates(products=products, prices=prices)


def make_objects(case):
    """(product, control variates) of a case: built once, possibly priced several times (sub 'mixed')."""
    dim = payoff_dim(case["payoff"])
    product = make_product(case["payoff"], case["notional"])
    cv = make_controls(case["cv"], dim, case["notional"], case["df"], case["payoff"])
    return product, cv


def build_engine(case, letters, objects=None):
    from rpylib.montecarlo.configuration import ConfigurationStandard
    from rpylib.montecarlo.standard.engine import Engine

    proc = ScriptedProcess(letters, df=case["df"], representation=case.get("rep", "identity"),
                           with_density=not case.get("nodensity"))
    product, cv = objects if objects is not None else make_objects(case)
    vr = None
    if case.get("vr"):  # a variance-reduction flag the standard engine accepts and that must not change anything
        from rpylib.montecarlo.configuration import VarianceReduction, VarianceReductionMethod

        vr = VarianceReductionMethod().add(VarianceReduction.RICHARDSONEXTRAPOLATION)
    conf = ConfigurationStandard(mc_paths=len(letters), seed=case.get("seed"), control_variates=cv, variance_reduction=vr,
                                 activate_spot_statistics=bool(case["spot"]), nb_of_processes=1)
    return Engine(configuration=conf, process=proc), proc, product


SIDE_N = 4  # number of paths of the side engine of the history operations 'other' and 'fork'


def script_letters(k, n, reverse=False):
    """Fixed script of the k-th pricing of a history: the alphabet A4 cycled from offset k (reverse: backwards). Not constant
    for n >= 2, contains the letter 2.0 which is not in A3, different for different k."""
    a = ALPHABETS["A4"]
    return [a[(3 - i + k) % 4] if reverse else a[(i + k) % 4] for i in range(n)]


class HistoryObjects:
    """Product / ControlVariates objects of one history: the SAME object is handed out again when a later pricing has the
    same (payoff, notional) / (controls, payoff, notional, df), as a user re-pricing with one engine would do."""

    def __init__(self):
        self._products = {}
        self._controls = {}

    def product(self, step):
        key = (step["payoff"], step["notional"])
        if key not in self._products:
            self._products[key] = make_product(step["payoff"], step["notional"])
        return self._products[key]

    @staticmethod
    def controls_key(step):
        # the controls of the non-cross kinds do not depend on the product's underlying type: ONE ControlVariates object then
        # serves products on Spot / LogSpot / Mean of the same dimension (its implied value functions must follow the product)
        what = step["payoff"] if step["cv"] in CROSS_CV_KINDS else payoff_dim(step["payoff"])
        return (step["cv"], what, step["notional"], step["df"])

    def controls(self, step):
        """the real ControlVariates object, or a NoControlVariates instance (what the configuration holds without controls)"""
        from rpylib.product.product import NoControlVariates

        key = self.controls_key(step)
        if key not in self._controls:
            cv = make_controls(step["cv"], payoff_dim(step["payoff"]), step["notional"], step["df"], step["payoff"])
            self._controls[key] = cv if cv is not None else NoControlVariates()
        return self._controls[key]


def reference_rows(case, letters):
    """(S, Y, X): terminal spots [N], payoff rows [N][dim], control rows [N][ncv][dim] (discounted, notional-scaled)."""
    rep = case.get("rep", "identity")
    dim = payoff_dim(case["payoff"])
    nt, df = case["notional"], case["df"]
    spec = control_spec(case["cv"], dim, case["payoff"])
    S = [terminal_spot(v, rep) for v in letters]
    cn = control_notionals(case["cv"], nt, len(spec))
    Y = [[(nt * p) * df for p in payoff_unit(case["payoff"], s, v)] for s, v in zip(S, letters)]
    X = [[[(cn[j] * f(s)) * df for f in fs] for j, (_, fs, _) in enumerate(spec)] for s in S]
    return S, Y, X


def fmean(v):
    return math.fsum(v) / len(v)


def fstd_err(v):
    """Unbiased sample standard deviation / sqrt(N) (N >= 2)."""
    n = len(v)
    m = fmean(v)
    return math.sqrt(math.fsum((x - m) ** 2 for x in v) / (n - 1)) / math.sqrt(n)


def fvar(v, ddof=1):
    n = len(v)
    m = fmean(v)
    return math.fsum((x - m) ** 2 for x in v) / (n - ddof)
