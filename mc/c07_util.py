"""Closing the standard Monte-Carlo engine with a scripted process (DESIGN 3.4, C07).

The real rpylib.montecarlo.standard.engine.Engine, ConfigurationStandard, MCStatistics, MCPath, Product, ControlVariates run
unchanged. The process is a duck-typed stand-in implementing exactly the interface the engine uses
(dimension / process_representation / model / initialisation / pre_computation / deterministic_path / df /
simulate_one_path); its k-th call to simulate_one_path returns the k-th scripted path, and it logs every call.

A scripted path has three dates (0, T/2, T). Its terminal value is  deterministic(T) + (diffusion(T) + jump(T))  with all
three parts non-zero, and a decoy value at T/2, so that a payoff evaluated on a wrong date or on a part of the path only is
visible. In the identity representation every part is dyadic: the sum is exact and equals the scripted letter.

Ragged letters (grid id, spots ...) script a path on its OWN time grid (GRIDS: 2, 3 or 4 dates, same end points, other
interior dates), with the deterministic part x0 + drift t of the case (`det`); the reference reads every path on its own dates.

Default-time letters ("D", grid id, diffusion increments, log-jump increments) script BOTH stochastic components on the
letter's own grid, for products on the DefaultTime underlying, which reads the pure-jump component; the reference finds the
default time from the scripted log-jump increments alone. Every path object handed out is remembered with copies of its three
arrays (`changed_paths`): the engine must not modify them.

The reference model (pure Python, math.fsum) is in this file too: payoff rows, control rows, given control prices.
"""
from __future__ import annotations

import itertools
import logging
import math
import weakref

import numpy as np

MATURITY = 1.0
TIMES = (0.0, 0.5, 1.0)
DET = (0.0, 0.125, 0.25)  # deterministic part at the three dates
JUMP = (0.0, 0.0, 0.125)  # pure-jump part
DECOY = 7.0  # diffusion part at T/2

ALPHABETS = {
    "A3": (0.5, 1.0, 1.5),  # symmetric about the middle letter: sample means hit the given control price exactly
    "A4": (0.5, 1.0, 1.5, 2.0),  # four letters: two controls + intercept do not interpolate the payoff
    # path-dependent payoffs: a letter is (spot at T/2, terminal spot); the path starts at spot 1. With the barriers 1.25 (up)
    # and 0.75 (down) the value at T/2 crosses up (2.0), down (0.25) or not at all (1.0), and the terminal values 1.5 / 0.5
    # cross on their own.
    "B9": tuple((m, t) for m in (1.0, 2.0, 0.25) for t in (0.5, 1.0, 1.5)),
    # narrow sample around a large mean (|mean| / standard deviation about 1e6): a one-pass variance loses its digits here
    "N3": (1024.0, 1024.0009765625, 1024.001953125),
}
BARRIER_UP, BARRIER_DOWN, BARRIER_STRIKE = 1.25, 0.75, 0.25
BARRIER_KINDS = ("b-ui", "b-uo", "b-di", "b-do")
ASIAN_KINDS = ("as", "av2")  # call(s) on the Asian underlying (time-weighted average of the spot over the dates of the path)
PATH_KINDS = BARRIER_KINDS + ASIAN_KINDS  # payoffs that read the path at intermediate dates: need letters that script a whole path

# Ragged time grids (jump-adapted grids of products with stochastic dates): every path brings its OWN dates. A ragged letter
# is (grid id, spot at the 2nd date, ..., terminal spot); the path starts at spot 1 at time 0. Grids of the same length and
# the same end points differ in their interior dates only. All dates are multiples of 1/4: with the deterministic part
# RAGGED_DET = (x0, drift) every term of the identity representation is dyadic and the sums are exact.
GRIDS = {"q": (0.0, 0.25, 1.0), "h": (0.0, 0.5, 1.0), "t": (0.0, 0.75, 1.0),
         "qh": (0.0, 0.25, 0.5, 1.0), "ht": (0.0, 0.5, 0.75, 1.0), "qt": (0.0, 0.25, 0.75, 1.0), "e": (0.0, 1.0)}
RAGGED_DET = (0.5, 0.75)  # deterministic part x0 + drift * t of the ragged cases (non-zero at time 0, time dependent)
# enumerated ragged alphabet: the three 3-date grids x the (spot at the interior date, terminal spot) pairs of B9. With the
# drift 0.75 the deterministic part at the interior dates of two of these grids differs by 0.1875 or 0.375: a path valued with
# the deterministic part of ANOTHER grid moves its interior value 1.0 across the barriers 1.25 / 0.75 (grids q <-> t) and
# moves every Asian average.
ALPHABETS["R27"] = tuple((g, m, t) for g in ("q", "h", "t") for m in (1.0, 2.0, 0.25) for t in (0.5, 1.0, 1.5))
_RAGGED_CYCLE = ("q", "h", "t", "qh", "ht", "qt", "e", "t", "h", "q")  # neighbours of the same length are different grids
_RAGGED_MIDS = (1.0, 2.0, 0.25, 1.125, 0.875)

# Default-time letters (products on the DefaultTime underlying, which reads the PURE-JUMP component of the path): a letter is
# ("D", grid id, diffusion increments, log-jump increments), one increment per interval of the grid. Both components are
# non-zero. Per interval the pair (log-jump increment, diffusion increment) is one of DEFAULT_PAIRS: no move of the jump part
# with a diffusion move above / BELOW the threshold (a Brownian move must not trigger a default), a jump below the threshold
# compensated by the diffusion (total increment 0: a default), a jump above the threshold with a diffusion move that takes the
# total below it (no default). The threshold is DEFAULT_LEVEL; every increment is dyadic and no increment is within 0.1 of it.
DEFAULT_LEVEL = -0.25
DEFAULT_PAIRS = ((0.0, 0.25), (0.0, -0.5), (-0.5, 0.5), (-0.125, -0.5))
ALPHABETS["D32"] = tuple(("D", g, (a[1], b[1]), (a[0], b[0])) for g in ("q", "t") for a in DEFAULT_PAIRS for b in DEFAULT_PAIRS)
DEFAULT_KINDS = ("cds", "dput", "dpv2")  # CDS payoff / put(s) on the default time (time left to maturity after the default)
CDS_RATE, CDS_RECOVERY, CDS_SPREAD = 0.0625, 0.375, 0.046875
DPUT_CONTROL_K = 0.875  # strike of the control put on the default time


def cds_df(t):
    """discounting function handed to the library's CDS payoff"""
    return math.exp(-CDS_RATE * t)


FORWARD_KINDS = ("f",)  # the product is a forward: a payoff of both signs
PUT_KINDS = ("pv2",)  # puts on a vector of strikes
STRIKES = {"s": 0.75, "v2": [0.75, 1.25], "v3": [0.25, 0.75, 1.25], "as": 0.75, "av2": [0.75, 1.25], "f": 0.75, "pv2": [0.75, 1.25],
           # payoffs on an underlying type other than Spot (sub "mixed"): call on the log-spot / on the mean of the spots
           "ls": -0.25, "lv2": [-0.25, 0.25], "m": 0.75, "mv2": [0.75, 1.25],
           # integer-valued strikes (sub "forms": the same strikes given as Python ints / integer arrays)
           "si": 1.0, "vi2": [0.0, 1.0],
           "cds": 1.0, "dput": 1.0, "dpv2": [0.5, 1.0],  # cds: placeholder (scalar payoff); puts on the default time
           "b-ui": BARRIER_STRIKE, "b-uo": BARRIER_STRIKE, "b-di": BARRIER_STRIKE, "b-do": BARRIER_STRIKE}
PAYOFF_UNDERLYING = {"s": "spot", "v2": "spot", "v3": "spot", "ls": "logspot", "lv2": "logspot", "m": "mean", "mv2": "mean",
                     "as": "asian", "av2": "asian", "f": "spot", "pv2": "spot", "si": "spot", "vi2": "spot", "b-ui": "spot", "b-uo": "spot", "b-di": "spot", "b-do": "spot",
                     "cds": "default", "dput": "default", "dpv2": "default"}
LFWD_K = -0.5  # strike of the forward on the log-spot
LCALL_K = -0.25  # strike of the call on the log-spot

# control strikes per payoff component (vector controls), scalar controls use the first entry
FWD_K = (0.125, 0.25, 0.375)
CALL_K = (0.875, 0.625, 1.125)

CV_KINDS = ("none", "1r", "1a", "2r", "2a", "2u")
CROSS_CV_KINDS = ("1x", "2x")
TINY_CV_KINDS = ("1t", "2t")  # control products with small notionals: 1e-7; the pair 1e-3 / 1e-6
TINY_NOTIONALS = {"1t": (1e-7,), "2t": (1e-3, 1e-6)}
# PATH-DEPENDENT controls (barrier calls on Spot, strike CALL_K[0], barriers as the barrier payoffs): 1b = up-and-out;
# 2b = forward + down-and-in; 2c = up-and-in + down-and-out. For a product on Spot the control's underlying is IMPLIED from the
# product's, for a product on another underlying type (Asian) it is computed from the path: either way the control sample of a
# path is the control product valued on its own on that path. They need letters that script a whole path.
PATH_CV_KINDS = ("1b", "2b", "2c")
_PATH_CV_NAMES = {"1b": ("bar-uo",), "2b": ("forward", "bar-di"), "2c": ("bar-ui", "bar-do")}
# controls of the products on the default time: 1d = put on the default time (same underlying type: implied);
# 2d = forward on Spot (computed from the path) + put on the default time
DEFAULT_CV_KINDS = ("1d", "2d")
_DEFAULT_CV_NAMES = {"1d": ("dput",), "2d": ("forward", "dput")}


def quiet():
    logging.disable(logging.CRITICAL)


def decode(idx: int, n: int, base: int):
    """idx-th tuple of itertools.product(range(base), repeat=n)."""
    out = [0] * n
    for pos in range(n - 1, -1, -1):
        idx, out[pos] = divmod(idx, base)
    return out


def payoff_dim(kind: str) -> int:
    k = STRIKES[kind]
    return 1 if isinstance(k, float) else len(k)


# ----------------------------------------------------------------------------------------------------------------------
# scripted process
# ----------------------------------------------------------------------------------------------------------------------

class ScriptedModel:
    def __init__(self):
        self.density_calls = []

    def dimension(self):
        return 1

    def density(self, t):
        self.density_calls.append(t)
        return lambda x: np.zeros_like(np.asarray(x, dtype=float))


class ScriptedModelWithoutDensity:
    """a model that has no theoretical density (the engine then stores the spot rows without a density to plot)"""

    def dimension(self):
        return 1


_UID = itertools.count(1)
_COUNTERS = weakref.WeakValueDictionary()  # uid -> CallCounter (pickled copies of a scripted process find theirs here)


def _counter_by_uid(uid):
    c = _COUNTERS.get(uid)
    return c if c is not None else CallCounter(uid)


class CallCounter:
    """Number of simulate_one_path calls and call log of ONE scripted process. A pickle / dill round trip of the process (what
    a worker pool does with the engine's task, once per chunk) keeps the counter of the original - all the copies made for
    one pricing hand out the script's paths one after the other, each once, and the parent sees the total number of calls -
    whereas copy.deepcopy gives an independent counter (a deep copy of an engine is another engine)."""

    def __init__(self, uid=None):
        self.uid = next(_UID) if uid is None else uid
        self.calls = 0
        self.log = []
        self.handed = []  # (path object, copies of its times / diffusion / jump arrays) of the paths handed out (first 4096)
        _COUNTERS[self.uid] = self

    def __reduce__(self):
        return _counter_by_uid, (self.uid,)

    def __deepcopy__(self, memo):
        c = CallCounter()
        c.calls, c.log = self.calls, list(self.log)
        return c


class ScriptedProcess:
    """Duck-typed Process. `letters` are the terminal spot values of the successive paths."""

    def __init__(self, letters, df, representation="identity", with_density=True, det=None):
        from rpylib.process.process import ProcessRepresentation

        self.letters = list(letters)
        self._df = df
        self.det = None if det is None else (float(det[0]), float(det[1]))  # deterministic part x0 + drift * t (None: the DET table)
        self.representation = representation
        self.process_representation = (
            ProcessRepresentation.IDENDITY if representation == "identity" else ProcessRepresentation.LOG
        )
        self.model = ScriptedModel() if with_density else ScriptedModelWithoutDensity()
        self._state = CallCounter()

    @property
    def calls(self):
        return self._state.calls

    @calls.setter
    def calls(self, v):
        self._state.calls = v

    @property
    def log(self):
        return self._state.log

    def dimension(self):
        return 1

    def load(self, letters, df=None):
        """Re-use of ONE process object for another pricing (sub 'history'): a new script of paths (and possibly another
        discount factor); the call counter and the log start again."""
        self.letters = list(letters)
        self._state.calls = 0
        self._state.log = []
        self._state.handed = []
        if df is not None:
            self._df = df

    def initialisation(self, product, *a, **k):
        self.log.append(("initialisation",))

    def pre_computation(self, mc_paths, product, *a, **k):
        self.log.append(("pre_computation", int(mc_paths)))

    def deterministic_path(self, times):
        t = np.asarray(times, dtype=float)
        if self.det is not None:
            return self.det[0] + self.det[1] * t
        return np.interp(t, TIMES, DET)

    def df(self, t):
        self.log.append(("df", float(t)))
        return self._df

    def stochastic_parts(self, k):
        """(times, diffusion, jump) arrays of the k-th path. A letter is the terminal spot (decoy at T/2, path value 0 at time
        0), a pair (spot at T/2, terminal spot), the path then starting at spot 1, or a ragged letter (grid id, spots at the
        dates of that grid after the first), the path starting at spot 1 as well."""
        letter = self.letters[k]
        ident = self.representation == "identity"
        if is_default_letter(letter):
            times, diff, logjump = default_parts(letter)
            # identity representation: the default-time underlying takes the logarithm of the jump component
            return np.array(times), np.array(diff), np.array(logjump if not ident else [math.exp(v) for v in logjump])
        if isinstance(letter, (tuple, list)):
            times, spots = letter_path(letter)
            jump = np.array(jump_part(len(times)))
            target = np.array([v if ident else math.log(v) for v in spots])
            det = np.array([det_value(self.det, t) for t in times])
            diff = (target - det) - jump
        else:
            times = TIMES
            target = letter if ident else math.log(letter)
            diff = np.array([0.0, DECOY, (target - det_value(self.det, TIMES[2])) - JUMP[2]])
            jump = np.array(JUMP)
        return np.array(times), diff, jump

    def simulate_one_path(self):
        from rpylib.montecarlo.path import StochasticJumpPath

        k = self.calls
        self.calls += 1
        if k >= len(self.letters):
            # more paths requested than configured: hand out an identifiable value instead of failing in the harness
            return StochasticJumpPath(np.array(TIMES), np.array([0.0, DECOY, 1e6 + k]), np.array(JUMP))
        times, diff, jump = self.stochastic_parts(k)
        path = StochasticJumpPath(times, diff, jump)
        if len(self._state.handed) < 4096:
            self._state.handed.append((path, times.copy(), diff.copy(), jump.copy()))
        return path

    def changed_paths(self):
        """names of the components (times / diffusion / jump) of the handed-out path objects that read differently now than
        when they were handed to the engine (the engine must not modify the simulated paths: the jump component is read
        after the path value)"""
        out = []
        for path, t0, d0, j0 in self._state.handed:
            for name, attr, ref in (("times", "jump_times", t0), ("diffusion", "diffusion_path", d0), ("jump", "jump_path", j0)):
                now = getattr(path, attr, None)
                if name not in out and not (isinstance(now, np.ndarray) and now.shape == ref.shape and np.array_equal(now, ref)):
                    out.append(name)
        return out


def is_default_letter(letter):
    return isinstance(letter, (tuple, list)) and len(letter) == 4 and letter[0] == "D"


def default_parts(letter):
    """(times, diffusion component, LOG-jump component) of a default-time letter: running sums of the scripted increments"""
    _, g, dd, dj = letter
    times = GRIDS[g]
    if len(dd) != len(times) - 1 or len(dj) != len(times) - 1:
        raise ValueError(f"default letter {letter!r} does not fit its grid {times}")
    diff, jump = [0.0], [0.0]
    for a, b in zip(dd, dj):
        diff.append(diff[-1] + a)
        jump.append(jump[-1] + b)
    return times, diff, jump


def default_time(letter):
    """default time of the scripted path, from the scripted LOG-JUMP increments alone: the first date whose log-jump
    increment is below the threshold, inf if there is none"""
    _, g, _, dj = letter
    for k, v in enumerate(dj):
        if v < DEFAULT_LEVEL:
            return GRIDS[g][k + 1]
    return math.inf


_DEFAULT_CYCLE = ("q", "qh", "t", "e", "ht", "h", "qt")


def default_script(k, n, reverse=False):
    """Fixed default-time script of the k-th pricing: path i runs on the grid _DEFAULT_CYCLE[i + k] (2, 3 and 4 dates), the
    (log-jump, diffusion) increments of its intervals cycle through DEFAULT_PAIRS."""
    out = []
    for i in range(n):
        pos = (n - 1 - i) if reverse else i
        g = _DEFAULT_CYCLE[(pos + k) % len(_DEFAULT_CYCLE)]
        m = len(GRIDS[g]) - 1
        pairs = [DEFAULT_PAIRS[(pos + 3 * j + (pos // 4) + k) % 4] for j in range(m)]
        out.append(("D", g, tuple(p[1] for p in pairs), tuple(p[0] for p in pairs)))
    return out


def det_value(det, t):
    """deterministic part at time t: x0 + drift * t for det = (x0, drift), the DET table (a line through 0) for None"""
    if det is None:
        return float(np.interp(t, TIMES, DET))
    return det[0] + det[1] * t


def jump_part(m):
    """pure-jump part of a scripted path with m dates: one jump of JUMP[2] at the last date"""
    return [0.0] * (m - 1) + [JUMP[2]]


def letter_path(letter):
    """(times, spots) of the whole path scripted by a tuple letter: (spot at T/2, terminal spot) on the common grid TIMES, or
    a ragged letter (grid id, spots after the first date) on its own grid; the path starts at spot 1."""
    if isinstance(letter[0], str):
        times = GRIDS[letter[0]]
        spots = (1.0,) + tuple(letter[1:])
        if len(spots) != len(times):
            raise ValueError(f"ragged letter {letter!r} does not fit its grid {times}")
        return times, spots
    return TIMES, (1.0, letter[0], letter[1])


def ragged_script(k, n, reverse=False):
    """Fixed ragged script of the k-th pricing: path i runs on the grid _RAGGED_CYCLE[i + k] (neighbours of the same length
    have different interior dates; lengths 2, 3 and 4 occur), interior spots cycle through (1, 2, 0.25, 1.125, 0.875) and
    the terminal spots through A4."""
    a4 = ALPHABETS["A4"]
    out = []
    for i in range(n):
        pos = (n - 1 - i) if reverse else i
        g = _RAGGED_CYCLE[(pos + k) % len(_RAGGED_CYCLE)]
        m = len(GRIDS[g]) - 2
        mids = tuple(_RAGGED_MIDS[(3 * pos + j + k) % len(_RAGGED_MIDS)] for j in range(m))
        out.append((g,) + mids + (a4[(pos + k) % 4],))
    return out


def terminal_spot(letter, representation, det=None):
    """What the library must see as the terminal spot of a path scripted with `letter` (same association as MCPath)."""
    if is_default_letter(letter):
        _, diff, logjump = default_parts(letter)
        j = logjump[-1] if representation != "identity" else math.exp(logjump[-1])
        x = det_value(det, MATURITY) + (diff[-1] + j)
        return x if representation == "identity" else math.exp(x)
    jump = JUMP[2]
    if isinstance(letter, (tuple, list)):
        letter = letter[-1]
    target = letter if representation == "identity" else math.log(letter)
    d = det_value(det, MATURITY)
    x = d + (((target - d) - jump) + jump)
    return x if representation == "identity" else math.exp(x)


# ----------------------------------------------------------------------------------------------------------------------
# products, controls, reference values
# ----------------------------------------------------------------------------------------------------------------------

def _underlying(name):
    from rpylib.product.underlying import Asian, DefaultTime, LogSpot, Mean, Spot

    if name == "default":
        return DefaultTime(default_level=DEFAULT_LEVEL)
    return {"spot": Spot, "logspot": LogSpot, "mean": Mean, "asian": Asian}[name]()


def underlying_value(name, s):
    """Value of the underlying of that type for terminal spot s (one-dimensional process: the mean is the spot)."""
    return math.log(s) if name == "logspot" else s


# Legal forms of the arguments (sub "forms"): the same values handed over in another Python / numpy form. Every form listed
# here is accepted by the tree this module was built against and answered exactly like the usual form (float / list of
# floats / list of arrays / Python int); the forms that tree rejects (strikes of shape (1, n) or 0-d, mc_paths as a float,
# 0-d prices) are outside the alphabet.
STRIKE_FORMS = ("strike-tuple", "strike-array", "strike-npfloat", "strike-int", "strike-intarray", "strike-list1")
NOTIONAL_FORMS = ("notional-int", "notional-npfloat")
PRICES_FORMS = ("prices-tuple", "prices-lists", "prices-2d", "prices-array", "prices-npfloat", "products-tuple")
CALL_FORMS = ("paths-npint", "procs-npint", "price-keyword")


def _strike_form(k, forms):
    scalar = isinstance(k, float)
    if "strike-list1" in forms and scalar:
        return [k]
    if "strike-int" in forms:
        return int(k) if scalar else [int(x) for x in k]
    if "strike-intarray" in forms:
        return np.int64(int(k)) if scalar else np.array([int(x) for x in k])
    if "strike-npfloat" in forms:
        return np.float64(k) if scalar else [np.float64(x) for x in k]
    if "strike-tuple" in forms and not scalar:
        return tuple(k)
    if "strike-array" in forms and not scalar:
        return np.array(k, dtype=float)
    return k if scalar else list(k)


def _notional_form(notional, forms):
    if "notional-int" in forms and float(notional).is_integer():
        return int(notional)
    if "notional-npfloat" in forms:
        return np.float64(notional)
    return notional


def make_product(kind, notional, forms=()):
    from rpylib.product.payoff import PayoffType, Vanilla
    from rpylib.product.product import Product

    k = STRIKES[kind]
    strike = _strike_form(k, forms)
    notional = _notional_form(notional, forms)
    if kind in BARRIER_KINDS:
        from rpylib.product.payoff import Barrier, BarrierType

        bt = {"b-ui": BarrierType.UP_AND_IN, "b-uo": BarrierType.UP_AND_OUT, "b-di": BarrierType.DOWN_AND_IN,
              "b-do": BarrierType.DOWN_AND_OUT}[kind]
        payoff = Barrier(strike=strike, payoff_type=PayoffType.CALL, barrier_type=bt,
                         barrier=BARRIER_UP if kind[2] == "u" else BARRIER_DOWN)
    elif kind in FORWARD_KINDS:
        from rpylib.product.payoff import Forward

        payoff = Forward(strike=strike)
    elif kind == "cds":
        from rpylib.product.payoff import CDS

        payoff = CDS(recovery_rate=CDS_RECOVERY, spread=CDS_SPREAD, maturity=MATURITY, discounting=cds_df)
    elif kind in DEFAULT_KINDS:  # put(s) on the default time: the time left to the strike date after the default
        payoff = Vanilla(strike=strike, payoff_type=PayoffType.PUT)
    else:
        payoff = Vanilla(strike=strike, payoff_type=PayoffType.PUT if kind in PUT_KINDS else PayoffType.CALL)
    return Product(payoff_underlying=_underlying(PAYOFF_UNDERLYING[kind]), payoff=payoff, maturity=MATURITY, notional=notional)


def asian_average(letter):
    """The Asian underlying of the whole scripted path: the library's definition, sum of spot(t_i) (t_i - t_{i-1}) over the
    dates of the path after the first, divided by the last date."""
    times, spots = letter_path(letter)
    return math.fsum(v * (t - t0) for v, t, t0 in zip(spots[1:], times[1:], times[:-1])) / times[-1]


def payoff_unit(kind, s, letter=None):
    """Undiscounted, un-notionalled payoff components of a path with terminal spot s (for the barrier and Asian kinds `letter`
    scripts the WHOLE path - (spot at T/2, terminal spot) on the common grid or a ragged letter on its own grid - and the
    reference reads all of it, date by date, path by path)."""
    k = STRIKES[kind]
    ks = [k] if isinstance(k, float) else k
    if kind in DEFAULT_KINDS:
        if not is_default_letter(letter):
            raise ValueError("a payoff on the default time needs default-time letters")
        tau = default_time(letter)  # from the scripted log-jump increments alone
        if kind == "cds":
            return [cds_unit(tau)]
        return [max(x - tau, 0.0) for x in ks]
    if kind in ASIAN_KINDS:
        if not isinstance(letter, (tuple, list)):
            raise ValueError("an Asian payoff needs letters that script the whole path")
        u = asian_average(letter)
    else:
        u = underlying_value(PAYOFF_UNDERLYING[kind], s)
    if kind in FORWARD_KINDS:
        return [u - x for x in ks]
    van = [max(x - u, 0.0) for x in ks] if kind in PUT_KINDS else [max(u - x, 0.0) for x in ks]
    if kind in BARRIER_KINDS:
        spots = letter_path(letter)[1]
        hit = any(v > BARRIER_UP for v in spots) if kind[2] == "u" else any(v < BARRIER_DOWN for v in spots)
        alive = hit if kind[3] == "i" else not hit
        return van if alive else [0.0 for _ in van]
    return van


def cds_unit(tau):
    """the library's documented CDS payoff (value at maturity of default leg minus fixed leg, continuous spread, the rate
    read from the discounting function at 1), written out; the formula itself is C19's subject"""
    r = -math.log(cds_df(1))
    default_leg = 0 if tau > MATURITY else (1 - CDS_RECOVERY) * cds_df(tau)
    fixed_leg = CDS_SPREAD * (1 - cds_df(min(MATURITY, tau))) / r
    return default_leg / cds_df(MATURITY) - fixed_leg / cds_df(MATURITY)


def _sq(s):
    return (s - 1.0) ** 2


class PathControl:
    """unit payoff of a PATH-DEPENDENT control as a function of (terminal spot, letter): the control product valued on its
    own on the whole scripted path"""

    path = True

    def __init__(self, name):
        self.name = name

    def __call__(self, s, letter):
        if self.name == "dput":
            return max(DPUT_CONTROL_K - default_time(letter), 0.0)
        van = max(s - CALL_K[0], 0.0)
        spots = letter_path(letter)[1]
        hit = any(v > BARRIER_UP for v in spots) if self.name[4] == "u" else any(v < BARRIER_DOWN for v in spots)
        return van if (hit if self.name[5] == "i" else not hit) else 0.0


def control_value(f, s, letter):
    return f(s, letter) if getattr(f, "path", False) else f(s)


# mean of each control's unit payoff over the balanced sample (each letter of A3 once): used as the "market price"
_BAL = ALPHABETS["A3"]


def _bal_mean(f):
    if getattr(f, "path", False):  # a fixed number of the right size (any number may be given as the control's price)
        return 0.25
    return math.fsum(f(s) for s in _BAL) / len(_BAL)


def _f_forward(s, k=FWD_K[0]):
    return s - k


def _f_call(s, k=CALL_K[0]):
    return max(s - k, 0.0)


def _f_lforward(s):
    return math.log(s) - LFWD_K


def _f_lcall(s):
    return max(math.log(s) - LCALL_K, 0.0)


def control_spec(cv_kind, dim, payoff="s"):
    """List of controls; each is (name, [unit payoff function of the terminal SPOT per payoff component], per_component).
    Names: forward / call / square on Spot, lforward / lcall on LogSpot."""
    if cv_kind == "none":
        return []
    if cv_kind in CROSS_CV_KINDS:
        # at least one control on an underlying type different from the product's (scalar controls, broadcast)
        pu = PAYOFF_UNDERLYING[payoff]
        if pu == "spot":
            names = ["lforward"] if cv_kind == "1x" else ["forward", "lcall"]
        elif pu == "logspot":
            names = ["forward"] if cv_kind == "1x" else ["lforward", "call"]
        else:  # mean
            names = ["forward"] if cv_kind == "1x" else ["forward", "lforward"]
        fun = {"forward": _f_forward, "call": _f_call, "lforward": _f_lforward, "lcall": _f_lcall}
        return [(nm, [fun[nm]] * dim, False) for nm in names]
    if cv_kind in PATH_CV_KINDS or cv_kind in DEFAULT_CV_KINDS:
        names = _PATH_CV_NAMES[cv_kind] if cv_kind in PATH_CV_KINDS else _DEFAULT_CV_NAMES[cv_kind]
        return [(nm, [_f_forward if nm == "forward" else PathControl(nm)] * dim, False) for nm in names]
    if cv_kind in TINY_CV_KINDS:
        names = ["forward"] if cv_kind == "1t" else ["forward", "call"]
        fun = {"forward": _f_forward, "call": _f_call}
        return [(nm, [fun[nm]] * dim, False) for nm in names]
    vector = cv_kind.endswith("a") and dim > 1
    out = []
    if vector:
        out.append(("forward", [(lambda s, k=FWD_K[c]: s - k) for c in range(dim)], True))
    else:
        out.append(("forward", [(lambda s, k=FWD_K[0]: s - k)] * dim, False))
    if cv_kind[0] == "2":
        if cv_kind == "2u":
            out.append(("square", [_sq] * dim, False))
        elif vector:
            out.append(("call", [(lambda s, k=CALL_K[c]: max(s - k, 0.0)) for c in range(dim)], True))
        else:
            out.append(("call", [(lambda s, k=CALL_K[0]: max(s - k, 0.0))] * dim, False))
    return out


def control_notionals(cv_kind, notional, ncv):
    """Notional of each control product: the product's own notional, except for the small-notional kinds."""
    return list(TINY_NOTIONALS[cv_kind]) if cv_kind in TINY_CV_KINDS else [notional] * ncv


def control_prices(cv_kind, dim, notional, df, payoff="s"):
    """Given ("market") prices P[j][c] of control j for payoff component c."""
    spec = control_spec(cv_kind, dim, payoff)
    cn = control_notionals(cv_kind, notional, len(spec))
    return [[cn[j] * df * _bal_mean(f) for f in fs] for j, (_, fs, _) in enumerate(spec)]


def make_controls(cv_kind, dim, notional, df, payoff="s", forms=()):
    """The real ControlVariates object (None for 'none')."""
    from rpylib.product.payoff import Forward, PayoffOnTheFly, PayoffType, Vanilla
    from rpylib.product.product import ControlVariates, Product

    if cv_kind == "none":
        return None
    spec = control_spec(cv_kind, dim, payoff)
    P = control_prices(cv_kind, dim, notional, df, payoff)
    cn = control_notionals(cv_kind, notional, len(spec))
    products, prices = [], []
    for j, (name, fs, per_comp) in enumerate(spec):
        und = "logspot" if name in ("lforward", "lcall") else "spot"
        if name == "forward":
            pay = Forward(strike=np.array(FWD_K[:dim])) if per_comp else Forward(strike=FWD_K[0])
        elif name == "call":
            pay = (Vanilla(strike=list(CALL_K[:dim]), payoff_type=PayoffType.CALL) if per_comp
                   else Vanilla(strike=CALL_K[0], payoff_type=PayoffType.CALL))
        elif name == "lforward":
            pay = Forward(strike=LFWD_K)
        elif name == "lcall":
            pay = Vanilla(strike=LCALL_K, payoff_type=PayoffType.CALL)
        elif name.startswith("bar-"):
            from rpylib.product.payoff import Barrier, BarrierType

            bt = {"ui": BarrierType.UP_AND_IN, "uo": BarrierType.UP_AND_OUT, "di": BarrierType.DOWN_AND_IN, "do": BarrierType.DOWN_AND_OUT}[name[4:]]
            pay = Barrier(strike=CALL_K[0], payoff_type=PayoffType.CALL, barrier_type=bt, barrier=BARRIER_UP if name[4] == "u" else BARRIER_DOWN)
        elif name == "dput":
            und = "default"
            pay = Vanilla(strike=DPUT_CONTROL_K, payoff_type=PayoffType.PUT)
        else:
            pay = PayoffOnTheFly(_sq)
        products.append(Product(payoff_underlying=_underlying(und), payoff=pay, maturity=MATURITY, notional=_notional_form(cn[j], forms)))
        if cv_kind.endswith("r"):
            # one real number per control (a scalar control has one market price)
            prices.append(np.float64(P[j][0]) if "prices-npfloat" in forms else float(P[j][0]))
        elif "prices-lists" in forms:
            prices.append([float(v) for v in P[j]])
        else:
            prices.append(np.array(P[j], dtype=float))  # one entry per payoff component
    if "prices-tuple" in forms:
        prices = tuple(prices)
    if "prices-2d" in forms and not cv_kind.endswith("r"):
        prices = np.array(prices, dtype=float)  # shape (number of controls, payoff dimension)
    if "prices-array" in forms and cv_kind.endswith("r"):
        prices = np.array(prices, dtype=float)  # shape (number of controls,)
    if "products-tuple" in forms:
        products = tuple(products)
    return ControlVariates(products=products, prices=prices)


def snapshot_inputs(product, cv):
    """Copies of the caller's argument arrays (strikes of the product and of the controls, given prices) as they are now."""
    def arr(x):
        try:
            return np.array(x, dtype=float)
        except (TypeError, ValueError):
            return None

    out = {"strike": arr(getattr(getattr(product, "payoff", None), "strike", None))}
    if cv is not None and hasattr(cv, "prices"):
        out["prices"] = [arr(p) for p in cv.prices]
        out["control-strike"] = [arr(getattr(getattr(q, "payoff", None), "strike", None)) for q in getattr(cv, "products", ())]
    return out


def changed_inputs(before, after):
    """names of the argument arrays whose values differ between two snapshots"""
    def same(a, b):
        if isinstance(a, list):
            return isinstance(b, list) and len(a) == len(b) and all(same(x, y) for x, y in zip(a, b))
        if a is None or b is None:
            return a is b
        return a.shape == b.shape and bool(np.array_equal(a, b, equal_nan=True))

    return [k for k in before if not same(before[k], after.get(k))]


def make_objects(case):
    """(product, control variates) of a case: built once, possibly priced several times (sub 'mixed')."""
    dim = payoff_dim(case["payoff"])
    forms = tuple(case.get("forms", ()))
    product = make_product(case["payoff"], case["notional"], forms)
    cv = make_controls(case["cv"], dim, case["notional"], case["df"], case["payoff"], forms)
    return product, cv


def build_engine(case, letters, objects=None):
    from rpylib.montecarlo.configuration import ConfigurationStandard
    from rpylib.montecarlo.standard.engine import Engine

    proc = ScriptedProcess(letters, df=case["df"], representation=case.get("rep", "identity"),
                           with_density=not case.get("nodensity"), det=case.get("det"))
    product, cv = objects if objects is not None else make_objects(case)
    vr = None
    if case.get("vr"):  # a variance-reduction flag the standard engine accepts and that must not change anything
        from rpylib.montecarlo.configuration import VarianceReduction, VarianceReductionMethod

        vr = VarianceReductionMethod().add(VarianceReduction.RICHARDSONEXTRAPOLATION)
    forms = case.get("forms", ())
    mc_paths = np.int64(len(letters)) if "paths-npint" in forms else len(letters)
    procs = case.get("procs", 1) or None
    if "procs-npint" in forms and procs is not None:
        procs = np.int64(procs)
    conf = ConfigurationStandard(mc_paths=mc_paths, seed=case.get("seed"), control_variates=cv, variance_reduction=vr,
                                 activate_spot_statistics=bool(case["spot"]), nb_of_processes=procs)
    return Engine(configuration=conf, process=proc), proc, product


# ----------------------------------------------------------------------------------------------------------------------
# simulated worker pool (the multiprocessing branch of Engine.price)
# ----------------------------------------------------------------------------------------------------------------------

SIM_CPUS = 4  # nb_of_processes=None means "one worker per cpu": the simulated machine has 4


def nb_workers(procs):
    """number of workers of a pool built with processes=`procs` (0 / None = one per cpu of the simulated machine)"""
    return procs if procs else SIM_CPUS


class _SimResult:
    def __init__(self, value):
        self._value = value

    def get(self, timeout=None):
        return self._value

    def wait(self, timeout=None):
        return None

    def ready(self):
        return True

    def successful(self):
        return True


class SimPool:
    """Drop-in for pathos.multiprocessing.Pool with the semantics of the real pool that matter to the engine (same model as
    mc/c08_util.SimPool, which was validated against the real pool): `processes` workers (None = SIM_CPUS); the initializer
    runs once per worker (the generator states of this process are put back afterwards); map / map_async / imap cut the items
    into chunks of ceil(len / (4 workers)) consecutive items; EVERY CHUNK works on its own dill round-trip copy of the task
    (closures are pickled by value), so nothing a worker does to the engine's objects reaches the parent, only the returned
    values do (the scripted process keeps its call counter through the uid registry above); results come back in the order
    of the items and the callback runs once, in the parent. Deterministic: chunks are worked off in order."""

    log = []  # (workers, items, chunks) of every map since the last install

    def __init__(self, processes=None, initializer=None, initargs=(), *a, **k):
        import random as pyrandom

        if processes is not None and processes < 1:
            raise ValueError("Number of processes must be at least 1")
        self.n = nb_workers(processes)
        st, pst = np.random.get_state(), pyrandom.getstate()
        try:
            for _ in range(self.n):
                if initializer is not None:
                    initializer(*initargs)
        finally:
            np.random.set_state(st)
            pyrandom.setstate(pst)

    def __enter__(self):
        return self

    def __exit__(self, *a):
        return False

    def close(self):
        pass

    def join(self):
        pass

    def terminate(self):
        pass

    def _run(self, func, iterable, chunksize):
        import dill

        items = list(iterable)
        if chunksize is None:
            chunksize, extra = divmod(len(items), 4 * self.n)
            if extra:
                chunksize += 1
        chunks = [items[i: i + chunksize] for i in range(0, len(items), chunksize)] if chunksize else []
        blob = dill.dumps(func)
        results = []
        for chunk in chunks:
            fcopy = dill.loads(blob)
            results.extend(fcopy(x) for x in chunk)
        SimPool.log.append((self.n, len(items), len(chunks)))
        return results

    def map_async(self, func, iterable, chunksize=None, callback=None, error_callback=None):
        results = self._run(func, iterable, chunksize)
        if callback is not None:
            callback(results)
        return _SimResult(results)

    def map(self, func, iterable, chunksize=None):
        return self._run(func, iterable, chunksize)

    def imap(self, func, iterable, chunksize=1):
        return iter(self._run(func, iterable, chunksize))

    imap_unordered = imap

    def starmap(self, func, iterable, chunksize=None):
        return self._run(lambda args: func(*args), iterable, chunksize)

    def apply_async(self, func, args=(), kwds=None, callback=None, error_callback=None):
        res = self._run(lambda _: func(*args, **(kwds or {})), [0], 1)[0]
        if callback is not None:
            callback(res)
        return _SimResult(res)

    def apply(self, func, args=(), kwds=None):
        return self.apply_async(func, args, kwds).get()


class _FakeMP:
    """stands for the module `pathos.multiprocessing` inside the standard engine's module"""

    Pool = SimPool
    ProcessPool = SimPool

    def __init__(self, real):
        self._real = real

    @staticmethod
    def cpu_count():
        return SIM_CPUS

    def __getattr__(self, name):
        return getattr(self._real, name)


class pool_installed:
    """Context manager: the standard engine's module sees SimPool instead of pathos.multiprocessing. `ok` is False when the
    module has no attribute `mp` to replace (the harness then cannot close the pool branch: a cap, never an alarm)."""

    def __enter__(self):
        import rpylib.montecarlo.standard.engine as SE

        self._mod = SE
        self._saved = getattr(SE, "mp", None)
        self.ok = self._saved is not None
        if self.ok:
            SE.mp = _FakeMP(self._saved)
        del SimPool.log[:]
        return self

    def __exit__(self, *a):
        if self.ok:
            self._mod.mp = self._saved
        return False


SIDE_N = 4  # number of paths of the side engine of the history operations 'other' and 'fork'


def script_letters(k, n, reverse=False):
    """Fixed script of the k-th pricing of a history: the alphabet A4 cycled from offset k (reverse: backwards). Not constant
    for n >= 2, contains the letter 2.0 which is not in A3, different for different k."""
    a = ALPHABETS["A4"]
    return [a[(3 - i + k) % 4] if reverse else a[(i + k) % 4] for i in range(n)]


def long_script(n):
    """Fixed script of a long run (tens of thousands of paths): letters of A4, not periodic with a small period, so that no
    block of consecutive paths has the mean of the whole script."""
    a = ALPHABETS["A4"]
    return [a[(i + i // 5 + i // 64 + i // 4099) % 4] for i in range(n)]


class HistoryObjects:
    """Product / ControlVariates objects of one history: the SAME object is handed out again when a later pricing has the
    same (payoff, notional) / (controls, payoff, notional, df), as a user re-pricing with one engine would do."""

    def __init__(self):
        self._products = {}
        self._controls = {}

    def product(self, step):
        key = (step["payoff"], step["notional"])
        if key not in self._products:
            self._products[key] = make_product(step["payoff"], step["notional"])
        return self._products[key]

    @staticmethod
    def controls_key(step):
        # the controls of the non-cross kinds do not depend on the product's underlying type: ONE ControlVariates object then
        # serves products on Spot / LogSpot / Mean of the same dimension (its implied value functions must follow the product)
        what = step["payoff"] if step["cv"] in CROSS_CV_KINDS else payoff_dim(step["payoff"])
        return (step["cv"], what, step["notional"], step["df"])

    def controls(self, step):
        """the real ControlVariates object, or a NoControlVariates instance (what the configuration holds without controls)"""
        from rpylib.product.product import NoControlVariates

        key = self.controls_key(step)
        if key not in self._controls:
            cv = make_controls(step["cv"], payoff_dim(step["payoff"]), step["notional"], step["df"], step["payoff"])
            self._controls[key] = cv if cv is not None else NoControlVariates()
        return self._controls[key]


def reference_rows(case, letters):
    """(S, Y, X): terminal spots [N], payoff rows [N][dim], control rows [N][ncv][dim] (discounted, notional-scaled)."""
    rep = case.get("rep", "identity")
    dim = payoff_dim(case["payoff"])
    nt, df = case["notional"], case["df"]
    spec = control_spec(case["cv"], dim, case["payoff"])
    S = [terminal_spot(v, rep, case.get("det")) for v in letters]
    cn = control_notionals(case["cv"], nt, len(spec))
    Y = [[(nt * p) * df for p in payoff_unit(case["payoff"], s, v)] for s, v in zip(S, letters)]
    X = [[[(cn[j] * control_value(f, s, v)) * df for f in fs] for j, (_, fs, _) in enumerate(spec)] for s, v in zip(S, letters)]
    return S, Y, X


def fmean(v):
    return math.fsum(v) / len(v)


def fstd_err(v):
    """Unbiased sample standard deviation / sqrt(N) (N >= 2)."""
    n = len(v)
    m = fmean(v)
    return math.sqrt(math.fsum((x - m) ** 2 for x in v) / (n - 1)) / math.sqrt(n)


def fvar(v, ddof=1):
    n = len(v)
    m = fmean(v)
    return math.fsum((x - m) ** 2 for x in v) / (n - ddof)
