"""Seams for C08 (randomness discipline): a counter-based tracing generator, simulated processes with their own generator
state / pid, a fake clock, and SimPool - a drop-in for pathos.multiprocessing.Pool as seen from the two engine modules.

Tracing generator. Every variate is F(stream, position): `stream` is the tag of the last seeding of the generator of the
current simulated process ("boot:<x>" before any seeding, ("np", s) after numpy.random.seed(s)), `position` counts the variates
drawn since. Two draws share a variate exactly when they cover the same (stream, position); re-seeding with a value used before
re-creates the same stream, as with the real generator. Values are real floats (blake2b hash -> uniform -> normal / Poisson by
inversion) so that the real simulators run on them.

SimPool semantics (each tied to multiprocess/pool.py and validated against the real pathos pool by the conformance runs of the
check): `processes` workers forked from the parent (each inherits the parent's generator state and gets its own pid), the
initializer runs once in each; `processes=None` (the engines' default nb_of_processes) asks the operating system for the number
of CPUs - a scripted environment answer (Harness.cpus), `os.cpu_count() or 1` as in multiprocess/pool.py; a number < 1 raises
ValueError; map_async(f, it) cuts `it` into chunks of ceil(len / (4 processes)) consecutive items; EVERY CHUNK
gets its own dill round-trip copy of f (the engines pass closures, which are pickled by value, so each chunk sees the parent's
pre-drawn deques as they were at submission); the worker that runs chunk k is an environment answer (default round robin);
results come back in index order and the callback runs once in the parent.

Histories. One Harness may span several pricings made one after the other on the same (re-used) library objects, as in reality
the generator state left by one pricing is the state the next one starts from: `Harness.mark()` returns the id of the next sample,
so that the samples of one pricing are those with mark_before <= id < mark_after.

Untraced draws. `Installed` snapshots the state of the REAL numpy / `random` global generators on entry and compares on exit: a
difference means the library drew from a function the tracing generator does not replace (Harness.untraced is set and the check
raises - never a silent pass).
"""
from __future__ import annotations

import hashlib
import math
import struct
from collections import deque

import numpy as np


def _u(stream, pos: int) -> float:
    h = hashlib.blake2b(repr((stream, pos)).encode(), digest_size=8).digest()
    x = struct.unpack("<Q", h)[0] >> 11
    return (x + 0.5) / float(1 << 53)


def _normal(u: float) -> float:
    from scipy.special import ndtri

    return float(ndtri(u))


def _poisson(lam: float, u: float) -> int:
    if lam <= 0:
        return 0
    k, p = 0, math.exp(-lam)
    c = p
    while u > c and k < 10000:
        k += 1
        p *= lam / k
        c += p
    return k


class Ctx:
    def __init__(self, name, pid, stream, pos=0, pystream=None, pypos=0):
        self.name, self.pid = name, pid
        self.stream, self.pos = stream, pos
        self.pystream, self.pypos = pystream if pystream is not None else stream, pypos


class Harness:
    """Owns every source of nondeterminism of one engine run."""

    def __init__(self, chooser, boot="A", cpus=2):
        self.chooser = chooser
        self.cpus = cpus  # scripted answer of os.cpu_count() (None = the OS cannot tell), read when a pool is built with processes=None
        self.untraced = []
        self.unattributed = 0  # variates drawn outside a sample and outside a pre-computation
        self.in_pre = 0
        # a run "repeated" is repeated later and by another OS process: besides the pre-existing generator state, the boot
        # label moves the clock and the pid of the parent (what a time / pid derived seed is made of)
        k = {"A": 0, "B": 1, "R": 2}.get(boot, 3)
        self.parent = Ctx("parent", 1000 + 7 * k, ("boot", boot))
        self.ctx = self.parent
        self.next_pid = 2000 + 100 * k
        self.now = 1_700_000_000 + 4321 * k
        self.sample = None  # id of the sample being simulated
        self.samples = {}  # sid -> {"tags": set, "ctx": name, "level":..., "info":...}
        self.n_samples = 0
        self.events = []  # (kind, ctx name, detail)
        self.phase = {"level": None, "pass": 0}
        self.pools = 0

    # ---------------------------------------------------------------- draws
    def _take(self, n, kind):
        c = self.ctx
        start = c.pos
        c.pos += n
        tags = [(c.stream, start + i) for i in range(n)]
        if self.sample is not None:
            self.samples[self.sample]["tags"].update(tags)
        elif not self.in_pre:
            self.unattributed += n
        self.last_tags = tags
        return tags

    def uniform(self, low=0.0, high=1.0, size=None):
        n = 1 if size is None else int(np.prod(size))
        vals = np.array([_u(*t) for t in self._take(n, "uniform")], dtype=float) * (high - low) + low
        return float(vals[0]) if size is None else vals.reshape(size)

    def random_sample(self, size=None):
        return self.uniform(0.0, 1.0, size)

    def normal(self, loc=0.0, scale=1.0, size=None):
        n = 1 if size is None else int(np.prod(size))
        vals = np.array([_normal(_u(*t)) for t in self._take(n, "normal")], dtype=float) * scale + loc
        return float(vals[0]) if size is None else vals.reshape(size)

    def poisson(self, lam=1.0, size=None):
        n = 1 if size is None else int(np.prod(size))
        vals = np.array([_poisson(lam, _u(*t)) for t in self._take(n, "poisson")], dtype=int)
        return int(vals[0]) if size is None else vals.reshape(size)

    def choice(self, a, *args, **kw):
        a = list(a)
        t = self._take(1, "choice")[0]
        return a[min(int(_u(*t) * len(a)), len(a) - 1)]

    def np_seed(self, s=None):
        self.events.append(("np.seed", self.ctx.name, s, self.n_samples))
        self.ctx.stream, self.ctx.pos = ("np", s), 0

    def py_seed(self, s=None):
        self.events.append(("random.seed", self.ctx.name, s, self.n_samples))
        self.ctx.pystream, self.ctx.pypos = ("py", s), 0

    def getrandbits(self, k):
        c = self.ctx
        t = (c.pystream, c.pypos)
        c.pypos += 1
        if self.sample is not None:
            self.samples[self.sample]["tags"].add(t)
        elif not self.in_pre:
            self.unattributed += 1
        return int(_u(*t) * (1 << k))

    def default_rng(self, s=None):
        return None

    # ---------------------------------------------------------------- environment
    def getpid(self):
        return self.ctx.pid

    def time(self):
        c = self.chooser.choose(2, "clock")
        self.now += c  # 0: same second as the previous call, 1: the next second
        return float(self.now) + 0.25

    def fork(self, name):
        p = self.ctx
        self.next_pid += 1
        return Ctx(name, self.next_pid, p.stream, p.pos, p.pystream, p.pypos)

    # ---------------------------------------------------------------- samples
    def begin_sample(self, info):
        sid = self.n_samples
        self.n_samples += 1
        self.samples[sid] = {"tags": set(), "ctx": self.ctx.name, "pid": self.ctx.pid, "level": self.phase["level"],
                             "pass": self.phase["pass"], "info": info}
        self.sample = sid
        return sid

    def end_sample(self):
        self.sample = None

    def mark(self):
        """id of the next sample: the samples of one pricing of a history are those in [mark before, mark after)"""
        return self.n_samples


H = None  # the harness of the run in progress (module global: survives dill copies of library objects)


class SimResult:
    def __init__(self, value):
        self._value = value

    def get(self, timeout=None):
        return self._value


class SimPool:
    def __init__(self, processes=None, initializer=None, initargs=()):
        h = H
        h.pools += 1
        if processes is None:
            processes = h.cpus or 1  # multiprocess/pool.py: `processes = os.cpu_count() or 1`
        if processes < 1:
            raise ValueError("Number of processes must be at least 1")
        self.n = processes
        h.events.append(("pool", h.ctx.name, self.n, h.n_samples))
        self.workers = [h.fork(f"pool{h.pools}-w{k}") for k in range(self.n)]
        for w in self.workers:
            prev, h.ctx = h.ctx, w
            try:
                if initializer is not None:
                    initializer(*initargs)
            finally:
                h.ctx = prev

    def __enter__(self):
        return self

    def __exit__(self, *a):
        return False

    def map_async(self, func, iterable, chunksize=None, callback=None, error_callback=None):
        import dill

        h = H
        items = list(iterable)
        if chunksize is None:
            chunksize, extra = divmod(len(items), 4 * self.n)
            if extra:
                chunksize += 1
        chunks = [items[i: i + chunksize] for i in range(0, len(items), chunksize)] if chunksize else []
        blob = dill.dumps(func)  # the task is pickled once per chunk by the real pool; the bytes are identical
        results = []
        for k, chunk in enumerate(chunks):
            c = h.chooser.choose(self.n, f"chunk-worker:{self.n}")
            w = self.workers[(k + c) % self.n]
            fcopy = dill.loads(blob)
            prev, h.ctx = h.ctx, w
            try:
                h.events.append(("chunk", w.name, k, len(chunk)))
                results.extend(fcopy(x) for x in chunk)
            finally:
                h.ctx = prev
        if callback is not None:
            callback(results)
        return SimResult(results)


class FakeMP:
    """stands for the module `pathos.multiprocessing` inside the engine modules"""

    Pool = SimPool


# ----------------------------------------------------------------------------------------------------------------------
# installation
# ----------------------------------------------------------------------------------------------------------------------

class Installed:
    """Context manager: patches numpy.random, random, the configuration module's os/time, the engines' pool, and wraps the
    simulators at class level so that samples and pre-drawn rows are attributed."""

    def __init__(self, harness):
        self.h = harness
        self.saved = []

    def _set(self, obj, name, val):
        self.saved.append((obj, name, getattr(obj, name)))
        setattr(obj, name, val)

    def __enter__(self):
        global H
        import random as pyrandom

        import numpy.random as npr

        import rpylib.montecarlo.configuration as CFG
        import rpylib.montecarlo.multilevel.engine as ME
        import rpylib.montecarlo.standard.engine as SE
        from rpylib.process import levyprocess as LP
        from rpylib.process.coupling import couplingmarkovchain as CM

        h = self.h
        H = h
        self._real_state = (_freeze(npr.get_state()), pyrandom.getstate())
        for name in ("uniform", "random_sample", "normal", "poisson", "choice", "default_rng"):
            self._set(npr, name, getattr(h, name))
        self._set(npr, "random", h.random_sample)
        self._set(npr, "seed", h.np_seed)
        self._set(pyrandom, "seed", h.py_seed)
        self._set(pyrandom, "getrandbits", h.getrandbits)

        class _OS:
            getpid = staticmethod(h.getpid)

        class _T:
            time = staticmethod(h.time)

        self._set(CFG, "os", _OS)
        self._set(CFG, "time", _T)
        self._set(SE, "mp", FakeMP)
        self._set(ME, "mp", FakeMP)

        # ---- pre-drawn rows: tags kept in a deque parallel to the library's deques, on the simulation object itself
        orig_pre = LP.SimulationFixedTimes.pre_computation

        def pre_computation(sim, mc_paths, product):
            c = H.ctx
            s0, p0 = c.stream, c.pos
            H.in_pre += 1
            try:
                orig_pre(sim, mc_paths, product)
            finally:
                H.in_pre -= 1
            s1, p1 = c.stream, c.pos
            nb = len(sim._times) - 1
            dim = sim.process.dimension()
            rows = [set() for _ in range(mc_paths)]
            if s0 == s1:
                # draws of this call, in order: for each interval k, mc_paths Poisson draws; then one normal block
                pos = p0
                for k in range(nb):
                    for r in range(mc_paths):
                        rows[r].add((s0, pos))
                        pos += 1
                per = dim * nb
                for r in range(mc_paths):
                    for i in range(per):
                        rows[r].add((s0, pos))
                        pos += 1
                if pos != p1:
                    rows = [set() for _ in range(mc_paths)]
                    H.events.append(("pre-computation-draw-pattern-unknown", c.name, p1 - p0, mc_paths))
            sim._verif_rows = deque(rows)

        self._set(LP.SimulationFixedTimes, "pre_computation", pre_computation)

        def wrap(orig, locate, label):
            def wrapped(self_, *a, **kw):
                hh = H
                sim = locate(self_)
                q = getattr(sim, "_poisson_rv", None)
                b = getattr(sim, "_brownian_increments", None)
                n0 = (len(q) if q is not None else None, len(b) if b is not None else None)
                outer = hh.sample
                sid = hh.begin_sample(label) if outer is None else outer
                try:
                    return orig(self_, *a, **kw)
                finally:
                    rows = getattr(sim, "_verif_rows", None)
                    if rows is not None and q is not None:
                        popped = max(n0[0] - len(q), (n0[1] - len(b)) if b is not None else 0)
                        for _ in range(popped):
                            if rows:
                                row = rows.popleft()
                                hh.samples[sid]["tags"].update(row)
                                hh.samples[sid].setdefault("row_tags", set()).update(row)
                        hh.samples[sid]["popped"] = popped
                    if outer is None:
                        hh.end_sample()

            return wrapped

        self._set(LP.LevyProcess, "simulate_one_path",
                  wrap(LP.LevyProcess.simulate_one_path, lambda p: p._path_simulation, "simulate_one_path"))
        self._set(CM.CouplingMarkovChain, "simulate_one_path_with_coupling",
                  wrap(CM.CouplingMarkovChain.simulate_one_path_with_coupling, lambda c: c.fine_process._path_simulation,
                       "simulate_one_path_with_coupling"))
        return h

    def __exit__(self, *a):
        global H
        import random as pyrandom

        import numpy.random as npr

        for obj, name, val in reversed(self.saved):
            setattr(obj, name, val)
        H = None
        now = (_freeze(npr.get_state()), pyrandom.getstate())
        if now[0] != self._real_state[0]:
            self.h.untraced.append("numpy.random")
        if now[1] != self._real_state[1]:
            self.h.untraced.append("random")
        return False


def _freeze(state):
    return tuple(x.tobytes() if hasattr(x, "tobytes") else x for x in state)
