"""Seams for C08 (randomness discipline): a counter-based tracing generator, simulated processes with their own generator
state / pid, a fake clock, and SimPool - a drop-in for pathos.multiprocessing.Pool as seen from the two engine modules.

Tracing generator. Every variate is F(stream, position): `stream` is the tag of the last seeding of the generator of the
current simulated process ("boot:<x>" before any seeding, ("np", s) after numpy.random.seed(s)), `position` counts the variates
drawn since. Two draws share a variate exactly when they cover the same (stream, position); re-seeding with a value used before
re-creates the same stream, as with the real generator. Values are real floats (blake2b hash -> uniform -> normal / Poisson by
inversion) so that the real simulators run on them.

SimPool semantics (each tied to multiprocess/pool.py and validated against the real pathos pool by the conformance runs of the
check): `processes` workers forked from the parent (each inherits the parent's generator state and gets its own pid), the
initializer runs once in each; `processes=None` (the engines' default nb_of_processes) asks the operating system for the number
of CPUs - a scripted environment answer (Harness.cpus), `os.cpu_count() or 1` as in multiprocess/pool.py; a number < 1 raises
ValueError; map_async(f, it) cuts `it` into chunks of ceil(len / (4 processes)) consecutive items; EVERY CHUNK
gets its own dill round-trip copy of f (the engines pass closures, which are pickled by value, so each chunk sees the parent's
pre-drawn deques as they were at submission); the worker that runs chunk k is an environment answer (default round robin);
results come back in index order and the callback runs once in the parent.

Histories. One Harness may span several pricings made one after the other on the same (re-used) library objects, as in reality
the generator state left by one pricing is the state the next one starts from: `Harness.mark()` returns the id of the next sample,
so that the samples of one pricing are those with mark_before <= id < mark_after.

Generator OBJECTS. numpy.random.normal & co. are bound methods of ONE object (numpy's global RandomState), random.seed /
random.getrandbits of `random._inst`: a library object that keeps one of these functions (or the generator itself) in an
attribute carries the generator with it - copy.deepcopy and pickle / dill of the holder make a CLONE of the generator with the
state of that moment (what the pool does for every chunk), which then ignores every later seeding of the global generator. The
traced functions are therefore bound methods of `TracedGen` objects: the global ones keep their state in the Ctx of the running
simulated process; a copy (`__reduce__`, used by copy, deepcopy, pickle and dill alike) is a DETACHED generator carrying (stream,
position) of the moment of copying, and reports its draws to the harness of the run like any other draw, so that two chunk copies
replaying the same positions are seen as a sharing ("detached" tags name the mechanism). `numpy.random.default_rng(s)` returns a
detached generator of its own stream as well. random.getrandbits is a builtin of the real module: atomic under deepcopy, cloned
under pickle (`_PyBuiltin`).

Path content. Every simulated path returned by the wrapped simulate_one_path* is measured: number of non-zero Brownian increments
and of non-zero jump increments (`content` of the sample), and the number of variates recorded per kind (`kinds`): a path with
random content that no recorded variate backs was drawn from a source the tracing generator does not see (a generator object
captured before the harness was installed, a private RandomState / Generator ...) - oracle in the check module.

Untraced draws. `Installed` snapshots the state of the REAL numpy / `random` global generators on entry and compares on exit: a
difference means the library drew from a function the tracing generator does not replace (Harness.untraced is set and the check
raises - never a silent pass).
"""
from __future__ import annotations

import hashlib
import math
import operator
import struct
from collections import deque

import numpy as np


def _u(stream, pos: int) -> float:
    h = hashlib.blake2b(repr((stream, pos)).encode(), digest_size=8).digest()
    x = struct.unpack("<Q", h)[0] >> 11
    return (x + 0.5) / float(1 << 53)


def _normal(u: float) -> float:
    from scipy.special import ndtri

    return float(ndtri(u))


def _poisson(lam: float, u: float) -> int:
    if lam <= 0:
        return 0
    k, p = 0, math.exp(-lam)
    c = p
    while u > c and k < 10000:
        k += 1
        p *= lam / k
        c += p
    return k


class Ctx:
    def __init__(self, name, pid, stream, pos=0, pystream=None, pypos=0):
        self.name, self.pid = name, pid
        self.stream, self.pos = stream, pos
        self.pystream, self.pypos = pystream if pystream is not None else stream, pypos


class TracedGen:
    """One generator OBJECT of the tracing generator (see the module docstring). `own` is None for the two global generators (state
    in the Ctx of the running simulated process) and {"stream", "pos", "origin"} for a detached one (a copy, or default_rng)."""

    def __init__(self, kind, own=None):
        self.kind = kind  # "np" | "py" | "rng"
        self.own = own
        if kind == "py":
            self.getrandbits = _PyBuiltin(self, "getrandbits")

    # -- copies: copy.copy / copy.deepcopy / pickle / dill all come here, as for numpy's RandomState and random.Random
    def _state(self):
        if self.own is not None:
            return self.own["stream"], self.own["pos"]
        c = H.ctx if H is not None else None
        if c is None:
            return ("no-harness", self.kind), 0
        return (c.pystream, c.pypos) if self.kind == "py" else (c.stream, c.pos)

    def __reduce__(self):
        stream, pos = self._state()
        origin = self.own["origin"] if self.own is not None else f"copy-of-the-global-{'numpy' if self.kind == 'np' else 'random'}-generator"
        return _detached, (self.kind, stream, pos, origin)

    # -- draws
    def _take(self, n, kind):
        h = H
        if self.own is None:
            c = h.ctx
            if self.kind == "py":
                stream, start = c.pystream, c.pypos
                c.pypos += n
            else:
                stream, start = c.stream, c.pos
                c.pos += n
            origin = None
        else:
            stream, start = self.own["stream"], self.own["pos"]
            self.own["pos"] += n
            origin = self.own["origin"]
        tags = [(stream, start + i) for i in range(n)]
        h.record(tags, kind, origin)
        return tags

    def uniform(self, low=0.0, high=1.0, size=None):
        n = 1 if size is None else int(np.prod(size))
        vals = np.array([_u(*t) for t in self._take(n, "uniform")], dtype=float) * (high - low) + low
        return float(vals[0]) if size is None else vals.reshape(size)

    def random_sample(self, size=None):
        return self.uniform(0.0, 1.0, size)

    def random(self, size=None):
        return self.uniform(0.0, 1.0, size)

    def normal(self, loc=0.0, scale=1.0, size=None):
        n = 1 if size is None else int(np.prod(size))
        vals = np.array([_normal(_u(*t)) for t in self._take(n, "normal")], dtype=float) * scale + loc
        return float(vals[0]) if size is None else vals.reshape(size)

    def standard_normal(self, size=None):
        return self.normal(0.0, 1.0, size)

    def poisson(self, lam=1.0, size=None):
        n = 1 if size is None else int(np.prod(size))
        vals = np.array([_poisson(lam, _u(*t)) for t in self._take(n, "poisson")], dtype=int)
        return int(vals[0]) if size is None else vals.reshape(size)

    def choice(self, a, *args, **kw):
        a = list(a)
        t = self._take(1, "choice")[0]
        return a[min(int(_u(*t) * len(a)), len(a) - 1)]

    def _getrandbits(self, k):
        t = self._take(1, "getrandbits")[0]
        return int(_u(*t) * (1 << k))

    def seed(self, s=None):
        h = H
        try:  # numpy / random seed with the VALUE of an integer: 7, numpy.int64(7) and True-as-1 name the same stream
            s = operator.index(s) if s is not None else None
        except TypeError:
            pass
        name = "random.seed" if self.kind == "py" else "np.seed"
        if self.own is not None:  # a detached copy re-seeds ITSELF: the global generator of the process is not touched
            h.events.append((name + ":detached", h.ctx.name, s, h.n_samples))
            self.own["stream"], self.own["pos"] = (self.kind, s), 0
            return
        h.events.append((name, h.ctx.name, s, h.n_samples))
        if self.kind == "py":
            h.ctx.pystream, h.ctx.pypos = ("py", s), 0
        else:
            h.ctx.stream, h.ctx.pos = ("np", s), 0


def default_rng(s=None):
    """numpy.random.default_rng: a generator OBJECT of its own stream (seeded: the stream of that seed, the same in every process
    that asks for it; unseeded: operating-system entropy, a new stream at every call)"""
    if s is None:
        H.entropy += 1
        stream = ("rng-entropy", H.entropy)
    else:
        stream = ("rng", s)
    return TracedGen("rng", own={"stream": stream, "pos": 0, "origin": "default_rng"})


def random_state(s=None):
    """numpy.random.RandomState(seed): a generator object; seeded, it produces the stream numpy.random.seed(seed) produces"""
    if s is None:
        H.entropy += 1
        stream = ("rng-entropy", H.entropy)
    else:
        try:
            s = operator.index(s)
        except TypeError:
            pass
        stream = ("np", s)
    return TracedGen("np", own={"stream": stream, "pos": 0, "origin": "RandomState"})


_NAMES_CACHE = {}


def _import_time_names(replaced):
    """(module or class, name) of the loaded rpylib modules bound to one of the replaced functions at import time; cached per
    number of loaded modules"""
    import sys

    mods = [m for k, m in sorted(sys.modules.items()) if (k == "rpylib" or k.startswith("rpylib.")) and m is not None]
    key = len(mods)
    if key not in _NAMES_CACHE:
        found = []

        def is_real(val):
            val = val.__func__ if isinstance(val, staticmethod) else val
            return id(val) in replaced and replaced[id(val)][0] is val

        for m in mods:
            for name, val in list(vars(m).items()):
                if is_real(val):
                    found.append((m, name))
                elif isinstance(val, type) and getattr(val, "__module__", None) == m.__name__:
                    found.extend((val, n) for n, v in list(vars(val).items()) if is_real(v))
        _NAMES_CACHE[key] = found
    return _NAMES_CACHE[key]


def _detached(kind, stream, pos, origin):
    return TracedGen(kind, own={"stream": stream, "pos": pos, "origin": origin})


class _PyBuiltin:
    """random.getrandbits is a builtin method of random._inst: copy / deepcopy return the very same object, pickle / dill rebuild it
    on a copy of the instance"""

    def __init__(self, gen, name):
        self.gen, self.name = gen, name

    def __call__(self, *a, **kw):
        return getattr(self.gen, "_" + self.name)(*a, **kw)

    def __copy__(self):
        return self

    def __deepcopy__(self, memo):
        return self

    def __reduce__(self):
        return getattr, (self.gen, self.name)


class Harness:
    """Owns every source of nondeterminism of one engine run."""

    def __init__(self, chooser, boot="A", cpus=2):
        self.chooser = chooser
        self.cpus = cpus  # scripted answer of os.cpu_count() (None = the OS cannot tell), read when a pool is built with processes=None
        self.untraced = []
        self.unattributed = 0  # variates drawn outside a sample and outside a pre-computation
        self.in_pre = 0
        # a run "repeated" is repeated later and by another OS process: besides the pre-existing generator state, the boot
        # label moves the clock and the pid of the parent (what a time / pid derived seed is made of)
        k = {"A": 0, "B": 1, "R": 2}.get(boot, 3)
        self.parent = Ctx("parent", 1000 + 7 * k, ("boot", boot))
        self.ctx = self.parent
        self.next_pid = 2000 + 100 * k
        self.now = 1_700_000_000 + 4321 * k
        self.sample = None  # id of the sample being simulated
        self.samples = {}  # sid -> {"tags": set, "ctx": name, "level":..., "info":...}
        self.n_samples = 0
        self.events = []  # (kind, ctx name, detail)
        self.phase = {"level": None, "pass": 0}
        self.pools = 0
        self.entropy = 0
        self.gen_np = TracedGen("np")  # numpy's global RandomState / the `random` module's instance, as seen from every
        self.gen_py = TracedGen("py")  # simulated process (the state lives in the Ctx of the process that is running)
        self.last_tags = []

    # ---------------------------------------------------------------- draws (made by the TracedGen objects)
    def record(self, tags, kind, detached=None):
        n = len(tags)
        if self.sample is not None:
            s = self.samples[self.sample]
            s["tags"].update(tags)
            s["kinds"][kind] = s["kinds"].get(kind, 0) + n
            if detached is not None:
                s.setdefault("detached", {}).update((t, detached) for t in tags)
        elif not self.in_pre:
            self.unattributed += n
        self.last_tags = tags

    def uniform(self, low=0.0, high=1.0, size=None):
        return self.gen_np.uniform(low, high, size)

    def random_sample(self, size=None):
        return self.gen_np.random_sample(size)

    def normal(self, loc=0.0, scale=1.0, size=None):
        return self.gen_np.normal(loc, scale, size)

    def poisson(self, lam=1.0, size=None):
        return self.gen_np.poisson(lam, size)

    def choice(self, a, *args, **kw):
        return self.gen_np.choice(a, *args, **kw)

    def np_seed(self, s=None):
        return self.gen_np.seed(s)

    def py_seed(self, s=None):
        return self.gen_py.seed(s)

    def getrandbits(self, k):
        return self.gen_py.getrandbits(k)

    # ---------------------------------------------------------------- environment
    def getpid(self):
        return self.ctx.pid

    def time(self):
        c = self.chooser.choose(2, "clock")
        self.now += c  # 0: same second as the previous call, 1: the next second
        return float(self.now) + 0.25

    def fork(self, name):
        p = self.ctx
        self.next_pid += 1
        return Ctx(name, self.next_pid, p.stream, p.pos, p.pystream, p.pypos)

    # ---------------------------------------------------------------- samples
    def begin_sample(self, info):
        sid = self.n_samples
        self.n_samples += 1
        self.samples[sid] = {"tags": set(), "kinds": {}, "ctx": self.ctx.name, "pid": self.ctx.pid, "level": self.phase["level"],
                             "pass": self.phase["pass"], "info": info}
        self.sample = sid
        return sid

    def end_sample(self):
        self.sample = None

    def mark(self):
        """id of the next sample: the samples of one pricing of a history are those in [mark before, mark after)"""
        return self.n_samples


H = None  # the harness of the run in progress (module global: survives dill copies of library objects)


class SimResult:
    def __init__(self, value):
        self._value = value

    def get(self, timeout=None):
        return self._value


class SimPool:
    def __init__(self, processes=None, initializer=None, initargs=()):
        h = H
        h.pools += 1
        if processes is None:
            processes = h.cpus or 1  # multiprocess/pool.py: `processes = os.cpu_count() or 1`
        if processes < 1:
            raise ValueError("Number of processes must be at least 1")
        self.n = processes
        h.events.append(("pool", h.ctx.name, self.n, h.n_samples))
        self.workers = [h.fork(f"pool{h.pools}-w{k}") for k in range(self.n)]
        for w in self.workers:
            prev, h.ctx = h.ctx, w
            try:
                if initializer is not None:
                    initializer(*initargs)
            finally:
                h.ctx = prev

    def __enter__(self):
        return self

    def __exit__(self, *a):
        return False

    def map_async(self, func, iterable, chunksize=None, callback=None, error_callback=None):
        import dill

        h = H
        items = list(iterable)
        if chunksize is None:
            chunksize, extra = divmod(len(items), 4 * self.n)
            if extra:
                chunksize += 1
        chunks = [items[i: i + chunksize] for i in range(0, len(items), chunksize)] if chunksize else []
        blob = dill.dumps(func)  # the task is pickled once per chunk by the real pool; the bytes are identical
        results = []
        for k, chunk in enumerate(chunks):
            c = h.chooser.choose(self.n, f"chunk-worker:{self.n}")
            w = self.workers[(k + c) % self.n]
            fcopy = dill.loads(blob)
            prev, h.ctx = h.ctx, w
            try:
                h.events.append(("chunk", w.name, k, len(chunk)))
                results.extend(fcopy(x) for x in chunk)
            finally:
                h.ctx = prev
        if callback is not None:
            callback(results)
        return SimResult(results)


class FakeMP:
    """stands for the module `pathos.multiprocessing` inside the engine modules"""

    Pool = SimPool


# ----------------------------------------------------------------------------------------------------------------------
# installation
# ----------------------------------------------------------------------------------------------------------------------

def path_content(path):
    """(number of non-zero Brownian increments, number of non-zero jump increments) of a simulated path - the larger of the two
    components of a coupled path; None when the object is not a path with a diffusion and a jump component"""
    try:
        d = np.atleast_2d(np.asarray(path.diffusion_path, dtype=float))
        j = np.atleast_2d(np.asarray(path.jump_path, dtype=float))
        return (int(np.max(np.count_nonzero(np.diff(d, axis=-1), axis=-1))) if d.shape[-1] > 1 else 0,
                int(np.max(np.count_nonzero(np.diff(j, axis=-1), axis=-1))) if j.shape[-1] > 1 else 0)
    except Exception:  # noqa: BLE001 - another kind of path: nothing is asserted about it
        return None


class Installed:
    """Context manager: patches numpy.random, random, the configuration module's os/time, the engines' pool, and wraps the
    simulators at class level so that samples and pre-drawn rows are attributed."""

    def __init__(self, harness):
        self.h = harness
        self.saved = []

    def _set(self, obj, name, val):
        self.saved.append((obj, name, getattr(obj, name)))
        setattr(obj, name, val)

    def __enter__(self):
        global H
        import random as pyrandom

        import numpy.random as npr

        import rpylib.montecarlo.configuration as CFG
        import rpylib.montecarlo.multilevel.engine as ME
        import rpylib.montecarlo.standard.engine as SE
        from rpylib.process import levyprocess as LP
        from rpylib.process.coupling import couplingmarkovchain as CM

        h = self.h
        H = h
        self._real_state = (_freeze(npr.get_state()), pyrandom.getstate())
        # the module-level functions are bound methods of the two global generator objects, as in numpy / random
        for name in ("uniform", "random_sample", "random", "normal", "standard_normal", "poisson", "choice", "seed"):
            self._set(npr, name, getattr(h.gen_np, name))
        self._set(npr, "default_rng", default_rng)
        self._set(npr, "RandomState", random_state)
        self._set(pyrandom, "seed", h.gen_py.seed)
        self._set(pyrandom, "getrandbits", h.gen_py.getrandbits)
        # names bound to the replaced functions when the library modules were imported (`from numpy.random import normal`):
        # the very same global generator under another name - they follow the replacement
        replaced = {id(real): (real, getattr(obj, name)) for obj, name, real in self.saved}
        for holder, name in _import_time_names(replaced):  # module globals and class attributes (plain or staticmethod)
            val = vars(holder)[name]
            if isinstance(val, staticmethod):
                self.saved.append((holder, name, val))
                setattr(holder, name, staticmethod(replaced[id(val.__func__)][1]))
            else:
                self.saved.append((holder, name, val))
                setattr(holder, name, replaced[id(val)][1])

        class _OS:
            getpid = staticmethod(h.getpid)

        class _T:
            time = staticmethod(h.time)

        self._set(CFG, "os", _OS)
        self._set(CFG, "time", _T)
        self._set(SE, "mp", FakeMP)
        self._set(ME, "mp", FakeMP)

        # ---- pre-drawn rows: tags kept in a deque parallel to the library's deques, on the simulation object itself
        orig_pre = LP.SimulationFixedTimes.pre_computation

        def pre_computation(sim, mc_paths, product):
            c = H.ctx
            s0, p0 = c.stream, c.pos
            H.in_pre += 1
            try:
                orig_pre(sim, mc_paths, product)
            finally:
                H.in_pre -= 1
            s1, p1 = c.stream, c.pos
            nb = len(sim._times) - 1
            dim = sim.process.dimension()
            rows = [set() for _ in range(mc_paths)]
            if s0 == s1:
                # draws of this call, in order: for each interval k, mc_paths Poisson draws; then one normal block
                pos = p0
                for k in range(nb):
                    for r in range(mc_paths):
                        rows[r].add((s0, pos))
                        pos += 1
                per = dim * nb
                for r in range(mc_paths):
                    for i in range(per):
                        rows[r].add((s0, pos))
                        pos += 1
                if pos != p1:
                    rows = [set() for _ in range(mc_paths)]
                    H.events.append(("pre-computation-draw-pattern-unknown", c.name, p1 - p0, mc_paths))
            sim._verif_rows = deque(rows)
            sim._verif_row_normals = dim * nb

        self._set(LP.SimulationFixedTimes, "pre_computation", pre_computation)

        def wrap(orig, locate, label):
            def wrapped(self_, *a, **kw):
                hh = H
                sim = locate(self_)
                q = getattr(sim, "_poisson_rv", None)
                b = getattr(sim, "_brownian_increments", None)
                n0 = (len(q) if q is not None else None, len(b) if b is not None else None)
                outer = hh.sample
                sid = hh.begin_sample(label) if outer is None else outer
                try:
                    res = orig(self_, *a, **kw)
                    if outer is None:
                        hh.samples[sid]["content"] = path_content(res)
                    return res
                finally:
                    rows = getattr(sim, "_verif_rows", None)
                    if rows is not None and q is not None:
                        popped = max(n0[0] - len(q), (n0[1] - len(b)) if b is not None else 0)
                        for _ in range(popped):
                            if rows:
                                row = rows.popleft()
                                hh.samples[sid]["tags"].update(row)
                                hh.samples[sid].setdefault("row_tags", set()).update(row)
                                kinds = hh.samples[sid]["kinds"]  # a row = one jump count per interval + the Brownian increments
                                nn = getattr(sim, "_verif_row_normals", 0)
                                kinds["normal"] = kinds.get("normal", 0) + min(nn, len(row))
                                kinds["poisson"] = kinds.get("poisson", 0) + max(len(row) - nn, 0)
                        hh.samples[sid]["popped"] = popped
                    if outer is None:
                        hh.end_sample()

            return wrapped

        self._set(LP.LevyProcess, "simulate_one_path",
                  wrap(LP.LevyProcess.simulate_one_path, lambda p: p._path_simulation, "simulate_one_path"))
        self._set(CM.CouplingMarkovChain, "simulate_one_path_with_coupling",
                  wrap(CM.CouplingMarkovChain.simulate_one_path_with_coupling, lambda c: c.fine_process._path_simulation,
                       "simulate_one_path_with_coupling"))
        return h

    def __exit__(self, *a):
        global H
        import random as pyrandom

        import numpy.random as npr

        for obj, name, val in reversed(self.saved):
            setattr(obj, name, val)
        H = None
        now = (_freeze(npr.get_state()), pyrandom.getstate())
        if now[0] != self._real_state[0]:
            self.h.untraced.append("numpy.random")
        if now[1] != self._real_state[1]:
            self.h.untraced.append("random")
        return False


def _freeze(state):
    return tuple(x.tobytes() if hasattr(x, "tobytes") else x for x in state)
