"""Scripted drivers for C15 (and anything else that needs "variates -> path"): a deterministic replacement of the
numpy.random module-level functions that rpylib draws from, spies on the two places where a jump size is produced
(`model.jump_increment` for the direct simulators, `<sampler>.sample` for the chains), builders for the real simulators
and small reference helpers.

Every draw rpylib makes while simulating a path goes through one of

    numpy.random.poisson         jump count of an interval            (distribution/univariate/poisson_impl/numpyimpl.py)
    numpy.random.random_sample   jump times of an interval            (process/levyprocess.py jump_times_from_nb_of_jumps)
    numpy.random.random          HEM jump sizes (two calls per batch) (model/levymodel/mixed/hem.py)
    numpy.random.normal          Brownian increments; Merton jump sizes (loc/scale given)
    numpy.random.uniform         Uniform.sample(): state sampler and the coupling's left/right decision
    numpy.random.choice          hidden draw of the inversion sampler when the enumeration is exhausted (pairing.py)
    random.getrandbits           table method (distribution/variate/table.py)

They are looked up as attributes of the numpy.random module at call time, so replacing the attributes is enough.
Any other legacy numpy.random function raises ProtocolError (an unforeseen draw is a harness error, never a finding).
"""
from __future__ import annotations

import collections
import contextlib
import copy
import itertools

import numpy as np

GOLD = 0.6180339887498949


class ProtocolError(Exception):
    """The library drew something the script did not foresee (harness error, not a property violation)."""


def ident(i: int, lo: float = -1.0, hi: float = 1.0) -> float:
    """i-th identifiable number in (lo, hi): golden-ratio sequence, pairwise distinct, never 0, generic."""
    return lo + (hi - lo) * (((i + 1) * GOLD) % 1.0)


class ScriptedRNG:
    """Deterministic stand-in for the module-level numpy.random functions.

    * poisson answers come from `poisson_q` (ints, one per requested variate);
    * jump-time uniforms come from `times_q` (one list per call, handed out in the order given - not sorted);
    * unit uniforms asked for while context == "jumpsize" (inside a spied `jump_increment`) are identifiable numbers in
      (0.05, 0.95);
    * `uniform` asked for while context == "state" (inside a spied sampler) cycles through `state_u`; otherwise it is a
      coupling decision and cycles through `coupling_u`;
    * `normal` returns loc + scale * ident(counter).  Standard normals handed out with default loc/scale outside the
      "jumpsize" context are the Brownian variates; they are listed in `brownian` (per path, reset by begin_path()).
    Counters are never reset inside a case, so a variate can be recognised across paths as well.
    """

    FORBIDDEN = ("standard_normal", "rand", "randn", "exponential", "standard_exponential", "randint", "random_integers",
                 "permutation", "shuffle", "binomial", "gamma", "beta", "lognormal", "multivariate_normal", "bytes",
                 "geometric", "chisquare", "standard_gamma", "laplace", "logistic", "triangular")

    def __init__(self):
        self.poisson_q = collections.deque()
        self.times_q = collections.deque()
        self.state_u = [0.5]
        self.coupling_u = [0.3]
        self.context = None
        self.n_normal = 0
        self.n_unit = 0
        self.n_state = 0
        self.n_coupling = 0
        self.n_choice = 0
        self.log = []
        self.brownian = []
        self.poisson_lams = []

    # ------------------------------------------------------------------------------------------------ per path
    def begin_path(self, counts=(), times=()):
        """Load the script of one path: poisson answers (in draw order) and one list of unit uniforms per interval."""
        self.poisson_q = collections.deque(int(c) for c in counts)
        self.times_q = collections.deque([list(map(float, u)) for u in times])
        self.log = []
        self.brownian = []
        self.poisson_lams = []

    def leftovers(self):
        return len(self.poisson_q), len(self.times_q)

    # ------------------------------------------------------------------------------------------------ the functions
    @staticmethod
    def _n(size):
        if size is None:
            return 1
        return int(np.prod(size))

    def poisson(self, lam=1.0, size=None):
        n = self._n(size)
        out = []
        for _ in range(n):
            if not self.poisson_q:
                raise ProtocolError("poisson drawn beyond the script")
            out.append(self.poisson_q.popleft())
            self.poisson_lams.append(float(lam))
        self.log.append(("poisson", float(lam), list(out)))
        if size is None:
            return out[0]
        return np.array(out, dtype=int).reshape(size)

    def _unit(self, size=None):
        n = self._n(size)
        if self.context == "jumpsize":
            vals = [ident(self.n_unit + i, 0.05, 0.95) for i in range(n)]
            self.n_unit += n
            self.log.append(("unit-jumpsize", n))
        else:
            if not self.times_q:
                raise ProtocolError("jump-time uniforms drawn beyond the script")
            vals = self.times_q.popleft()
            if len(vals) != n:
                raise ProtocolError(f"jump-time uniforms: {n} requested, script has {len(vals)} for this interval")
            self.log.append(("unit-times", list(vals)))
        if size is None:
            return vals[0]
        return np.array(vals, dtype=float).reshape(size)

    def uniform(self, low=0.0, high=1.0, size=None):
        n = self._n(size)
        if self.context == "state":
            vals = [self.state_u[(self.n_state + i) % len(self.state_u)] for i in range(n)]
            self.n_state += n
            self.log.append(("uniform-state", list(vals)))
        else:
            vals = [self.coupling_u[(self.n_coupling + i) % len(self.coupling_u)] for i in range(n)]
            self.n_coupling += n
            self.log.append(("uniform-coupling", list(vals)))
        vals = [low + (high - low) * v for v in vals]
        if size is None:
            return vals[0]
        return np.array(vals, dtype=float).reshape(size)

    def normal(self, loc=0.0, scale=1.0, size=None):
        n = self._n(size)
        z = [ident(self.n_normal + i) for i in range(n)]
        self.n_normal += n
        brownian = self.context != "jumpsize" and loc == 0.0 and scale == 1.0
        if brownian:
            self.brownian.extend(z)
        self.log.append(("normal-brownian" if brownian else "normal-jumpsize", n))
        vals = [loc + scale * v for v in z]
        if size is None:
            return vals[0]
        return np.array(vals, dtype=float).reshape(size)

    def choice(self, a, size=None, replace=True, p=None):
        self.n_choice += 1
        self.log.append(("choice", None))
        arr = list(a) if not isinstance(a, (int, np.integer)) else list(range(int(a)))
        return arr[0]

    def seed(self, *a, **k):
        self.log.append(("seed", None))

    def getrandbits(self, k):
        """random.getrandbits (table method): the next state uniform, as a k-bit integer"""
        v = self.state_u[self.n_state % len(self.state_u)]
        self.n_state += 1
        self.log.append(("getrandbits-state", v))
        return min(int(v * (1 << k)), (1 << k) - 1)

    @staticmethod
    def _forbidden(name):
        def f(*a, **k):
            raise ProtocolError(f"numpy.random.{name} drawn: not foreseen by the script")

        return f

    # ------------------------------------------------------------------------------------------------ installation
    @contextlib.contextmanager
    def installed(self):
        import numpy.random as npr

        repl = {
            "poisson": self.poisson, "uniform": self.uniform, "normal": self.normal, "choice": self.choice,
            "seed": self.seed, "random": self._unit, "random_sample": self._unit, "ranf": self._unit, "sample": self._unit,
        }
        for name in self.FORBIDDEN:
            if hasattr(npr, name):
                repl[name] = self._forbidden(name)
        import random as pyrandom

        saved = {k: getattr(npr, k) for k in repl if hasattr(npr, k)}
        saved_bits = pyrandom.getrandbits
        try:
            for k, v in repl.items():
                setattr(npr, k, v)
            pyrandom.getrandbits = self.getrandbits
            yield self
        finally:
            for k, v in saved.items():
                setattr(npr, k, v)
            pyrandom.getrandbits = saved_bits


# ----------------------------------------------------------------------------------------------------------------------
# spies
# ----------------------------------------------------------------------------------------------------------------------

class Recorder:
    """What the spied producers of jump sizes returned, call by call (reset per path)."""

    def __init__(self):
        self.calls = []

    def reset(self):
        self.calls = []


# The spies are module-level objects that find the scripted RNG and the recorder of the case in progress through this
# registry (one Driver is open at a time in a process).  They hold no reference to either, so that copy.deepcopy and a
# dill round trip of a spied simulator (what the engines' pool does to the process) give a simulator that is still
# spied by the SAME rng / recorder: dill pickles module-level functions and classes of an importable module by reference,
# whereas a closure would be pickled by value together with private copies of the rng and of the recorder.
_ACTIVE = {"rng": None, "rec": None, "real_sample": {}}


class _JumpIncrementSpy:
    """callable standing for `model.jump_increment` (instance attribute): runs the real bound method in the "jumpsize"
    context and records what it returned.  A deep / dill copy of the model gets a spy bound to the COPY's method."""

    def __init__(self, real):
        self.real = real

    def __call__(self, n):
        rng, rec = _ACTIVE["rng"], _ACTIVE["rec"]
        if rng is None:
            return self.real(n=n)
        prev = rng.context
        rng.context = "jumpsize"
        try:
            out = self.real(n=n)
        finally:
            rng.context = prev
        rec.calls.append(np.array(out, dtype=float).ravel().copy())
        return out


def spy_jump_increment(model, rng: ScriptedRNG, rec: Recorder):
    """Wrap the real `model.jump_increment` (instance attribute; the simulators look it up on the model at every path)."""
    _ACTIVE["rng"], _ACTIVE["rec"] = rng, rec
    model.jump_increment = _JumpIncrementSpy(model.jump_increment)


def _real_sample_of(obj):
    for klass in type(obj).__mro__:
        real = _ACTIVE["real_sample"].get(klass)
        if real is not None:
            return real
    raise ProtocolError(f"no real sample() registered for {type(obj).__name__}")


def _spied_sample(self, size=1):
    rng, rec = _ACTIVE["rng"], _ACTIVE["rec"]
    real = _real_sample_of(self)
    prev = rng.context
    rng.context = "state"
    try:
        out = real(self, size=size)
    finally:
        rng.context = prev
    rec.calls.append([tuple(int(v) for v in np.atleast_1d(s)) for s in out])
    return out


@contextlib.contextmanager
def spy_sampler_class(sampler, rng: ScriptedRNG, rec: Recorder):
    """Wrap `sample` on the class of the given state sampler (the simulators capture the bound method at initialisation and
    the couplings build a fresh sampler of the same class at every level, so the class is the stable place)."""
    cls = type(sampler)
    real = cls.sample
    _ACTIVE["rng"], _ACTIVE["rec"] = rng, rec
    _ACTIVE["real_sample"][cls] = real
    cls.sample = _spied_sample
    try:
        yield
    finally:
        cls.sample = real
        _ACTIVE["real_sample"].pop(cls, None)
        _ACTIVE["rng"] = _ACTIVE["rec"] = None


# ----------------------------------------------------------------------------------------------------------------------
# products and simulators (real constructors; JSON-able specs)
# ----------------------------------------------------------------------------------------------------------------------

PRODUCTS = {
    # name: (underlying, discretisation, maturity)  -> number of intervals of the product's time grid
    "spot-1": ("spot", None, 1.0),        # 1 interval  [0, 1]
    "spot-05": ("spot", None, 0.5),       # 1 interval  [0, 0.5]
    "spot-09": ("spot", None, 0.9),       # 1 interval  [0, 0.9]: 0.9 = 3 * 0.3 in decimal, not in binary
    "asian-y1": ("asian", "YEARLY", 1.0),  # 1 interval
    "asian-y2": ("asian", "YEARLY", 2.0),  # 2 intervals of length 1
    "asian-y3": ("asian", "YEARLY", 3.0),  # 3 intervals of length 1
    "asian-m2": ("asian", "MONTHLY", 2.0 / 12.0),  # 2 intervals of length 1/12
    "asian-m3": ("asian", "MONTHLY", 0.25),  # 3 intervals of length 1/12
    # many dates (accumulation over the product dates)
    "asian-m24": ("asian", "MONTHLY", 2.0),  # 24 intervals of length 1/12
    "asian-w26": ("asian", "WEEKLY", 0.5),  # 26 intervals of length 1/52
    # short horizons (small maximum steps: eps = T/100 = 1e-6, 1e-8 - what eps = h**beta gives on a fine grid)
    "spot-tiny4": ("spot", None, 1e-4),
    "spot-tiny6": ("spot", None, 1e-6),
}

FORMS = ("int", "np", "0d")


def as_form(x, form, exact32=False):
    """The number x in another legal form of a maturity / maximum step: "int" Python int (None when x is not integral),
    "np" numpy scalar (np.float32 when asked for and exactly representable, np.float64 otherwise), "0d" 0-d float array."""
    if x is None or form is None:
        return x
    if form == "int":
        return int(x) if float(x) == int(x) else None
    if form == "np":
        if exact32 and float(np.float32(x)) == float(x):
            return np.float32(x)
        return np.float64(x)
    if form == "0d":
        return np.array(float(x))
    raise ValueError(form)


def n_intervals(name: str) -> int:
    kind, disc, maturity = PRODUCTS[name]
    if kind == "spot":
        return 1
    yf = {"YEARLY": 1.0, "MONTHLY": 1.0 / 12.0, "WEEKLY": 1.0 / 52.0}[disc]
    return int(maturity / yf)


def make_product(name: str, stochastic_dates: bool, form=None, maturity_factor=None):
    """Real Product: Spot / Asian underlying (the two producers of time grids in rpylib.product.underlying), identity payoff
    whose payoff_dates_type selects fixed-date (DETERMINISTIC) or jump-time (STOCHASTIC) simulation.  `maturity_factor`:
    the same kind of product with the maturity multiplied by this (integer) factor."""
    from rpylib.product.payoff import PayoffDates, PayoffOnTheFly
    from rpylib.product.product import Product
    from rpylib.product.underlying import Asian, Discretisation, Spot

    kind, disc, maturity = PRODUCTS[name]
    if maturity_factor is not None:
        maturity = maturity * maturity_factor
    if form is not None:
        maturity = as_form(maturity, form)
        if maturity is None:
            raise ValueError(f"maturity of {name} has no form {form}")
    und = Spot() if kind == "spot" else Asian(getattr(Discretisation, disc))
    pay = PayoffOnTheFly(lambda x: x)
    pay.payoff_dates_type = PayoffDates.STOCHASTIC if stochastic_dates else PayoffDates.DETERMINISTIC
    return Product(payoff_underlying=und, payoff=pay, maturity=maturity)


MODELS = {
    "hem": {"family": "hem", "exp": False, "params": {}},
    "merton": {"family": "merton", "exp": False, "params": {}},
    "exp-hem": {"family": "hem", "exp": True, "params": {}, "r": 0.02, "d": 0.0, "spot": 100.0},
    "cgmy12": {"family": "cgmy", "exp": False, "params": {"c": 0.5, "g": 6.0, "m": 6.0, "y": 1.2}},
}
# construction route "reinit" of mc.alphabets (parameter object of a donor model re-assigned and re-initialised)
for _name in ("hem", "merton", "cgmy12"):
    MODELS[_name + "-reinit"] = dict(MODELS[_name], via="reinit")

COPULA = {"margins": ["hem", "merton"], "copula": {"kind": "clayton", "theta": 0.7, "eta": 0.3}}

SIMS = {
    # name: (class, model, levels)   class in levy | chain | copula-chain | coupling-1d | coupling-copula
    "levy-hem": ("levy", "hem", 0),
    "levy-merton": ("levy", "merton", 0),
    "levy-exp-hem": ("levy", "exp-hem", 0),
    "chain-hem": ("chain", "hem", 0),
    "chain-cgmy12": ("chain", "cgmy12", 0),
    "copula-chain": ("copula-chain", None, 0),
    "coupling-hem": ("coupling-1d", "hem", 1),
    "coupling-cgmy12": ("coupling-1d", "cgmy12", 1),
    "coupling-hem-l2": ("coupling-1d", "hem", 2),
    "coupling-copula": ("coupling-copula", None, 1),
    "coupling-copula-l2": ("coupling-copula", None, 2),
    # other state samplers (4th entry: rpylib.distribution.sampling.SamplingMethod name; INVERSION when absent)
    "chain-hem-bst": ("chain", "hem", 0, "BINARYSEARCHTREE"),
    "chain-hem-alias": ("chain", "hem", 0, "ALIAS"),
    "coupling-hem-bst": ("coupling-1d", "hem", 1, "BINARYSEARCHTREE"),
    "coupling-hem-alias": ("coupling-1d", "hem", 1, "ALIAS"),
    "coupling-hem-table": ("coupling-1d", "hem", 1, "TABLE"),
    "coupling-hem-huffman": ("coupling-1d", "hem", 1, "HUFFMANNTREE"),
    "coupling-hem-bsta1d": ("coupling-1d", "hem", 1, "BINARYSEARCHTREEADAPTED1D"),
    "copula-chain-bsta": ("copula-chain", None, 0, "BINARYSEARCHTREEADAPTED"),
    "coupling-copula-bsta": ("coupling-copula", None, 1, "BINARYSEARCHTREEADAPTED"),
    # models reached through the "reinit" construction route
    "levy-merton-reinit": ("levy", "merton-reinit", 0),
    "chain-cgmy12-reinit": ("chain", "cgmy12-reinit", 0),
    "coupling-hem-reinit": ("coupling-1d", "hem-reinit", 1),
    # level 0 of a coupling object: the multilevel engine simulates it through coupling.simulate_one_path()
    "coupling-hem-l0": ("coupling-1d", "hem", 0),
    "coupling-copula-l0": ("coupling-copula", None, 0),
    # 5th entry: construction route. "engine" = the route of the multilevel engine: at every level pre_computation and
    # one simulated path, then copy.deepcopy of the coupling object, then next_level on the copy
    "coupling-hem-engine": ("coupling-1d", "hem", 1, "INVERSION", "engine"),
    "coupling-cgmy12-engine": ("coupling-1d", "cgmy12", 1, "INVERSION", "engine"),
    "coupling-copula-engine": ("coupling-copula", None, 1, "INVERSION", "engine"),
    "coupling-hem-l2-engine": ("coupling-1d", "hem", 2, "INVERSION", "engine"),
    "coupling-copula-l2-engine": ("coupling-copula", None, 2, "INVERSION", "engine"),
}


def sim_class(sim: str) -> str:
    return SIMS[sim][0]


class Driver:
    """One real simulator, initialised for one product / mode, with the scripted RNG and the spies in place.

    use:  with Driver(sim, product_name, mode, eps).open(first_script) as d:  d.simulate(script) ...
    """

    def __init__(self, sim: str, product_name: str, mode: str, eps, form=None):
        """`form`: the maturity of the product and the maximum step are handed to the library as Python int / numpy scalar /
        0-d array (see as_form) instead of Python floats; `eps` stays the float the oracle works with."""
        self.sim, self.product_name, self.mode, self.eps = sim, product_name, mode, eps
        self.form = form
        self.eps_arg = eps
        if form is not None and eps is not None:
            self.eps_arg = as_form(eps, form, exact32=True)
            if self.eps_arg is None:
                self.eps_arg = eps  # not integral: the float itself (the maturity still has the form)
        self.cls, self.model_name, self.levels = SIMS[sim][:3]
        self.method_name = SIMS[sim][3] if len(SIMS[sim]) > 3 else "INVERSION"
        self.route = SIMS[sim][4] if len(SIMS[sim]) > 4 else "direct"
        self.last_path = None  # the object returned by the last simulation, as returned (not copied)
        self.other = None  # a second simulator of the same class (see other_object)
        self.other2 = None  # ... with another maximum step and another maturity (see other_parameters_object)
        self.rng = ScriptedRNG()
        self.rec = Recorder()
        self.product = make_product(product_name, stochastic_dates=(mode != "fixed"), form=form)
        self.path_managers = None
        self.copied = None  # "dill" / "deepcopy" once the simulator in use is a copy made by pool_copy
        self.grid_times = np.array([float(t) for t in self.product.times_grid()])
        self.maturity = float(self.product.maturity)
        self.obj = None
        self.proc = None  # the (fine) process
        self._stack = None

    # -- construction ----------------------------------------------------------------------------------------------
    def _build(self):
        from mc import alphabets as A
        from rpylib.distribution.sampling import SamplingMethod
        from rpylib.grid.spatial import CTMCUniformGrid

        cls = self.cls
        method = getattr(SamplingMethod, self.method_name)
        if cls == "levy":
            from rpylib.process.levyprocess import LevyProcess

            return LevyProcess(A.make_model(MODELS[self.model_name]))
        if cls in ("chain", "coupling-1d"):
            model = A.make_model(MODELS[self.model_name])
            grid = CTMCUniformGrid.create_from_fixed_nb_of_points(h=0.03, nb_of_points=24, dimension=1)
            if cls == "chain":
                from rpylib.process.markovchain.markovchain import MarkovChainProcess

                return MarkovChainProcess(model, method, grid)
            from rpylib.process.coupling.couplingmarkovchain import CouplingMarkovChain

            return CouplingMarkovChain(model, method, grid)
        model = A.make_copula_model(COPULA)
        grid = CTMCUniformGrid.create_from_fixed_nb_of_points(h=0.06, nb_of_points=10, dimension=2)
        if cls == "copula-chain":
            from rpylib.process.markovchain.markovchainlevycopula import MarkovChainLevyCopula

            return MarkovChainLevyCopula(model, grid, method)
        from rpylib.process.coupling.couplinglevycopula import CouplingProcessLevyCopula

        return CouplingProcessLevyCopula(model, grid, method)

    @property
    def coupled(self):
        """the paths carry a fine and a coarse component (a coupling object at level >= 1)"""
        return self.cls.startswith("coupling") and self.levels > 0

    @property
    def dim(self):
        return 2 if "copula" in self.cls else 1

    @contextlib.contextmanager
    def open(self, counts=(), times=()):
        """Build, initialise and pre-compute under the scripted RNG. `counts`/`times` is the script consumed by the
        pre-computation (fixed-date mode pre-draws all jump counts there; the other modes draw nothing)."""
        with contextlib.ExitStack() as stack:
            stack.enter_context(self.rng.installed())
            obj = self._build()
            self.obj = obj
            eps = self.eps_arg
            n_batch = max(1, len(counts) // max(1, len(self.grid_times) - 1)) if self.mode == "fixed" else 1
            if self.form == "np":
                n_batch = np.int64(n_batch)  # the engines hand over entries of integer arrays
            self.n_batch = n_batch
            self.rng.begin_path(counts, times)
            if self.cls == "levy":
                spy_jump_increment(obj.model, self.rng, self.rec)
                stack.callback(lambda: _ACTIVE.update(rng=None, rec=None))
                obj.initialisation(self.product, max_step_epsilon=eps)
                obj.pre_computation(n_batch, self.product)
                self.proc = obj
            elif not self.cls.startswith("coupling"):
                stack.enter_context(spy_sampler_class(obj.sampling, self.rng, self.rec))
                obj.initialisation(self.product, max_step_epsilon=eps)
                obj.pre_computation(n_batch, self.product)
                self.proc = obj
            else:
                stack.enter_context(spy_sampler_class(obj.fine_process.sampling, self.rng, self.rec))
                obj.initialisation(self.product, max_step_epsilon=eps)
                pms = None
                if self.route == "engine" and self.levels > 0:
                    # the multilevel engine hands its list of path managers to next_level (the branch of next_level that
                    # builds the fine / coarse deterministic paths)
                    from rpylib.montecarlo.path import MLMCPath

                    pms = [MLMCPath(deterministic_path=obj.fine_process.deterministic_path, activate_spot_underlying=False)]
                    self.path_managers = pms
                for lev in range(self.levels):
                    last = lev == self.levels - 1
                    if self.route == "engine":
                        # as the multilevel engine: the object of the current level has simulated before it is copied
                        # and the copy is taken to the next level
                        self._warm_up(obj, with_coupling=lev > 0)
                        obj = copy.deepcopy(obj)
                        self.obj = obj
                        self.rng.begin_path(counts, times)
                    # intermediate levels pre-compute nothing (0 paths); the last one pre-draws the batch
                    obj.next_level(mc_paths=n_batch if last else 0, path_managers=pms, product=self.product,
                                   max_step_epsilon=eps)
                if self.levels == 0:
                    obj.pre_computation(n_batch, self.product)
                self.proc = obj.fine_process
            self.pre_log = list(self.rng.log)
            self.pre_brownian = list(self.rng.brownian)
            self.pre_lams = list(self.rng.poisson_lams)
            self._choose_state_uniforms()
            yield self

    def _choose_state_uniforms(self):
        """Uniforms for the state sampler that map to pairwise distinct states (so that jump sizes are identifiable), found
        through the sampler's public `sample_with_u` on a 400-point lattice. States are taken greedily so that, as long as
        possible, all subset sums of the chosen state increments are distinct (a partial sum then identifies the jumps in
        it); odd increments first, because only those exercise the coupling. Falls back to a fixed list."""
        if self.cls == "levy":
            return
        sampler = self.proc.sampling
        found = {}
        saved = (self.rng.state_u, self.rng.n_state, self.rng.context)
        try:
            # probe the real sampler through its public sample() with one scripted uniform at a time (works for every
            # sampling method; the table method reads random.getrandbits, scripted from the same list)
            for k in range(400):
                u = (k + 0.5) / 400.0
                if u > 0.985:
                    break
                self.rng.state_u, self.rng.context = [u], "state"
                out = sampler.sample(size=1)
                s = tuple(int(v) for v in np.atleast_1d(out[0]))
                found.setdefault(s, []).append(u)
        finally:
            self.rng.state_u, self.rng.n_state, self.rng.context = saved
            self.rec.reset()
        by_size = sorted(found, key=lambda s: (sum(abs(x) for x in s), s))
        c_odd = [s for s in by_size if any(x % 2 for x in s)]
        c_even = [s for s in by_size if not any(x % 2 for x in s)]
        cand = [s for pair in itertools.zip_longest(c_odd, c_even) for s in pair if s is not None]
        chosen, sums = [], {tuple([0] * self.dim)}
        rest = []
        diffs = {tuple([0] * self.dim)}  # differences of two subset sums of the chosen states (changes only with `chosen`)
        for s in cand:
            if s in diffs or tuple(-a for a in s) in diffs:
                rest.append(s)
                continue
            chosen.append(s)
            sums |= {tuple(a + b for a, b in zip(x, s)) for x in sums}
            if len(chosen) >= 7:
                break
            diffs = {tuple(a - b for a, b in zip(x, y)) for x in sums for y in sums}
        states = chosen + rest[: max(0, 6 - len(chosen))]
        if len(states) >= 4:
            # alternate parity classes where possible: odd, even, odd, ...
            odd = [s for s in states if any(x % 2 for x in s)]
            even = [s for s in states if not any(x % 2 for x in s)]
            order = []
            while odd or even:
                if odd:
                    order.append(odd.pop(0))
                if even:
                    order.append(even.pop(0))
            self.rng.state_u = [found[s][len(found[s]) // 2] for s in order]
            self.state_u_states = order
        else:
            self.rng.state_u = [0.07, 0.19, 0.31, 0.43, 0.59, 0.71, 0.83, 0.93]
            self.state_u_states = []

    # -- one path --------------------------------------------------------------------------------------------------
    def simulate(self, counts=(), times=(), reload=True):
        """Run the real simulator once. Returns (times, diffusion, jumps) as float arrays (copies: a snapshot); the object
        the library returned is kept as `last_path`."""
        if reload:
            self.rng.begin_path(counts, times)
        self.rec.reset()
        if self.coupled:
            sp = self.obj.simulate_one_path_with_coupling()
        else:
            sp = self.obj.simulate_one_path()
        self.last_path = sp
        return self.snapshot(sp)

    @staticmethod
    def snapshot(sp):
        """(times, diffusion, jumps) of a path object as fresh float arrays"""
        t = np.array([float(x) for x in sp.times()], dtype=float)
        return t, np.array(sp.diffusion_path, dtype=float), np.array(sp.jump_path, dtype=float)

    # -- histories -------------------------------------------------------------------------------------------------
    def _unit_script(self):
        """script of one path with one jump in the middle of every interval"""
        n = len(self.grid_times) - 1
        return [1] * n, [[0.5]] * n

    def _warm_up(self, obj, with_coupling):
        """pre_computation for one path and one simulated path (discarded) on `obj`"""
        counts, times = self._unit_script()
        self.rng.begin_path(counts, times if self.mode != "fixed" else ())
        obj.pre_computation(1, self.product)
        if self.mode != "fixed":
            self.rng.begin_path(counts, times)
        if with_coupling:
            obj.simulate_one_path_with_coupling()
        else:
            obj.simulate_one_path()
        self.rec.reset()

    def precompute_again(self, counts=(), reinit=False, n_paths=None):
        """A second public `pre_computation` on the same object (the engines call reset_one_simulation_cost and
        pre_computation once per pass); with `reinit` the public `initialisation` for the same product and maximum step comes
        first (the engines call it once per pricing). `counts` is the script of the jump counts pre-drawn (fixed dates;
        nothing is drawn in the other modes). Returns the number of paths."""
        n = max(1, len(self.grid_times) - 1)
        n_batch = max(1, len(counts) // n) if self.mode == "fixed" else 1
        if n_paths is not None:
            n_batch = n_paths  # 0 = nothing to pre-compute (a level that needs no further path in a pass of the engine)
        if self.form == "np":
            n_batch = np.int64(n_batch)
        self.rng.begin_path(counts, ())
        if reinit:
            self.obj.initialisation(self.product, max_step_epsilon=self.eps_arg)
        elif hasattr(self.obj, "reset_one_simulation_cost"):
            self.obj.reset_one_simulation_cost()
        self.obj.pre_computation(n_batch, self.product)
        self.pre_brownian = list(self.rng.brownian)
        self.pre_lams = list(self.rng.poisson_lams)
        self.n_batch = n_batch
        return n_batch

    def pool_copy(self, how):
        """What the pool branch of the engines does between pre_computation and the simulations: the paths are simulated by a
        copy of the simulator ("dill": dumps / loads, what a worker receives with the closure of its chunk; "deepcopy").  From
        now on the copy is the simulator of the case (its pre-drawn variates are copies of the original's)."""
        if how == "dill":
            import dill

            new = dill.loads(dill.dumps(self.obj))
        elif how == "deepcopy":
            new = copy.deepcopy(self.obj)
        else:
            raise ValueError(how)
        self.obj = new
        self.proc = new.fine_process if self.cls.startswith("coupling") else new
        self.copied = how
        return new

    def other_object(self, next_level=True):
        """A second simulator of the same class, obtained as the multilevel engine obtains the object of the next level:
        copy.deepcopy of the object in use and, for a coupling object (when `next_level`), next_level on the copy
        (pre-computing one path). It then simulates one path (discarded). Whatever the two objects share (class
        attributes, module-level caches, default arguments) is touched by this."""
        counts, times = self._unit_script()
        self.rng.begin_path(counts if self.mode == "fixed" else (), ())
        if self.other is None and self.cls.startswith("coupling") and next_level:
            self.other = copy.deepcopy(self.obj)
            self.other.next_level(mc_paths=1, path_managers=None, product=self.product, max_step_epsilon=self.eps_arg)
            self._other_coupled = True
        else:
            if self.other is None:
                self.other = copy.deepcopy(self.obj)
                self._other_coupled = self.coupled
            self.other.pre_computation(1, self.product)
        if self.mode != "fixed":
            self.rng.begin_path(counts, times)
        if self._other_coupled:
            sp = self.other.simulate_one_path_with_coupling()
        else:
            sp = self.other.simulate_one_path()
        self.rec.reset()
        return sp

    OTHER_MATURITY_FACTOR = 2
    OTHER_EPS_FACTOR = 2.5

    def other_parameters_object(self):
        """A second simulator of the same class and level with OTHER parameters: copy.deepcopy of the object in use, then the
        public initialisation() for a product of the same kind with twice the maturity and (maximum-step mode) a maximum
        step 2.5 times as large, pre_computation for one path, one simulated path (discarded) - what the levels of a
        multilevel estimator are to each other (one maximum step per level) and what a second pricing with another product
        is.  It is PREPARED here and the object in use simulates afterwards: whatever the objects of a class share (a closure
        stored on the class, a module-level table keyed too coarsely) then carries the parameters of the wrong object."""
        if self.other2 is None:
            self.other2 = copy.deepcopy(self.obj)
            self._initialise_for_other_parameters(self.other2)
        return self._one_path_for_other_parameters(self.other2)

    def _other_parameters(self):
        if getattr(self, "other2_product", None) is None:
            self.other2_product = make_product(self.product_name, stochastic_dates=(self.mode != "fixed"), form=self.form,
                                               maturity_factor=self.OTHER_MATURITY_FACTOR)
            eps2 = None
            if self.eps is not None:
                eps2 = self.OTHER_EPS_FACTOR * self.eps
                if self.form is not None:
                    eps2 = as_form(eps2, self.form, exact32=True)
                    if eps2 is None:
                        eps2 = self.OTHER_EPS_FACTOR * self.eps
            self.other2_eps = eps2
        return self.other2_product, self.other2_eps

    def _initialise_for_other_parameters(self, obj):
        product2, eps2 = self._other_parameters()
        self.rng.begin_path((), ())
        obj.initialisation(product2, max_step_epsilon=eps2)

    def _one_path_for_other_parameters(self, obj):
        product2, _ = self._other_parameters()
        n2 = len(product2.times_grid()) - 1
        counts, times = [1] * n2, [[0.5]] * n2
        self.rng.begin_path(counts if self.mode == "fixed" else (), ())
        obj.pre_computation(1, product2)
        if self.mode != "fixed":
            self.rng.begin_path(counts, times)
        if self.coupled:
            sp = obj.simulate_one_path_with_coupling()
        else:
            sp = obj.simulate_one_path()
        self.rec.reset()
        return sp

    def detour_other_parameters(self):
        """The object of the case ITSELF is used for another pricing in between: public initialisation() for the other
        product / maximum step (see other_parameters_object), pre_computation, one simulated path (discarded).  The caller
        re-initialises it for the product of the case afterwards (precompute_again(reinit=True)): nothing of the detour may
        survive on the object."""
        self._initialise_for_other_parameters(self.obj)
        return self._one_path_for_other_parameters(self.obj)

    # -- what the reference needs from the object ------------------------------------------------------------------
    def diffusion_coefficients(self):
        """[fine] or [fine, coarse]: scalar coefficient (1-d) or matrix (copula) multiplying sqrt(dt) * normal."""
        o = self.obj
        if self.cls == "levy":
            return [float(o.model.diffusion_coefficient())]
        if self.cls == "chain":
            return [float(o.equivalent_diffusion_coefficient)]
        if self.cls == "copula-chain":
            return [np.array(o._path_simulation.diffusion_matrix, dtype=float)]
        if self.cls == "coupling-1d":
            if self.levels == 0:
                return [float(o.fine_process.equivalent_diffusion_coefficient)]
            return [float(o.equivalent_diffusion_coefficient_fine), float(o.equivalent_diffusion_coefficient_coarse)]
        if self.levels == 0:
            return [np.array(o.fine_process._path_simulation.diffusion_matrix, dtype=float)]
        return [np.array(o._diffusion_matrix_h, dtype=float), np.array(o._diffusion_matrix_2h, dtype=float)]

    def state_value(self, inc):
        g = self.proc.grid
        key = inc[0] if self.dim == 1 else tuple(inc)
        return np.atleast_1d(np.asarray(g[g.origin_coordinate + key], dtype=float))

    def coarse_allowed(self, inc):
        """Values the coarse chain may move by when the fine chain moves by state increment `inc`: even coordinates keep
        the fine value, odd coordinates go to one of the two neighbours (which are states of the coarse grid)."""
        import itertools

        opts = []
        for s in inc:
            opts.append([s] if s % 2 == 0 else [s - 1, s + 1])
        return [self.state_value(list(c)) for c in itertools.product(*opts)]
