"""Shared alphabets: model / grid / copula menus (DESIGN.md section 5). Everything is a JSON-able spec plus a builder that
calls the library's public constructors, so that a case dict alone reproduces the object."""
from __future__ import annotations

import itertools

import numpy as np

# ----------------------------------------------------------------------------------------------------------------------
# 1-d models
# ----------------------------------------------------------------------------------------------------------------------

HEM_PARAMS = [
    {},  # library defaults: sigma=0.05 p=0.6 eta1=20 eta2=25 intensity=3
    {"sigma": 0.0, "p": 0.3, "eta1": 10.0, "eta2": 40.0, "intensity": 5.0},
]
MERTON_PARAMS = [
    {},  # sigma=0.05 sigma_j=0.05 mu_j=0.01 (0.03 for exp) intensity=3
    {"sigma": 0.0, "sigma_j": 0.1, "mu_j": 0.0, "intensity": 3.0},
]
VG_PARAMS = [
    {},  # sigma=0.1 nu=0.06 theta=0.1
    {"sigma": 0.2, "nu": 0.2, "theta": -0.15},
]
CGMY_Y = [-0.5, 0.0, 0.5, 1.0, 1.2, 1.5]
CGMY_CGM = [(1.0, 15.0, 20.0), (0.1, 5.0, 7.0), (0.5, 6.0, 6.0)]
RATES = [(0.02, 0.0), (0.05, 0.02)]


def model_specs(tier="quick", families=("hem", "merton", "vg", "cgmy"), exp=(False, True), cgmy_y=None):
    """List of model specs; quick = one representative per branch class, thorough = full product of section 5."""
    out = []
    thorough = tier == "thorough"
    for fam in families:
        if fam == "hem":
            plist = HEM_PARAMS
        elif fam == "merton":
            plist = MERTON_PARAMS
        elif fam == "vg":
            plist = VG_PARAMS
        elif fam == "cgmy":
            ys = cgmy_y if cgmy_y is not None else CGMY_Y
            cgms = CGMY_CGM if thorough else CGMY_CGM[:1]
            plist = [{"c": c, "g": g, "m": m, "y": y} for y in ys for (c, g, m) in cgms]
            if not thorough:
                plist.append({"c": 0.5, "g": 6.0, "m": 6.0, "y": 1.2})
        elif fam == "bs":
            plist = [{"sigma": 0.1}, {"sigma": 0.3}]
        else:
            raise ValueError(fam)
        for params in plist:
            for e in exp:
                if fam == "bs" and not e:
                    continue
                if e:
                    rates = RATES if thorough else RATES[:1]
                    for r, d in rates:
                        out.append({"family": fam, "exp": True, "params": params, "r": r, "d": d, "spot": 100.0})
                else:
                    out.append({"family": fam, "exp": False, "params": params})
    return out


# donor parameter sets of the construction route "reinit": different from every parameter set of the alphabets in EVERY entry
DONOR_PARAMS = {
    "hem": {"sigma": 0.11, "p": 0.45, "eta1": 13.0, "eta2": 31.0, "intensity": 2.0},
    "merton": {"sigma": 0.11, "sigma_j": 0.07, "mu_j": 0.02, "intensity": 2.0},
    "vg": {"sigma": 0.15, "nu": 0.11, "theta": -0.05},
    "cgmy": {"c": 0.7, "g": 9.0, "m": 11.0, "y": 0.8},
    "bs": {"sigma": 0.23},
}


def with_reinit(specs, families=("hem", "merton", "vg", "cgmy")):
    """The same model specs, each followed by its "reinit" twin: the model with the SAME parameter values, reached the way the
    library's calibration helpers (model/utils.py) reach a model - a parameter object built with other values, re-assigned
    attribute by attribute, `initialisation()` called, then handed to the model constructor. Every public quantity of the twin
    must equal that of the directly constructed model (the properties quantify over models, not over how they were built)."""
    out = []
    for sp in specs:
        out.append(sp)
        if families is None or sp["family"] in families:
            out.append(dict(sp, via="reinit"))
    return out


def make_model(spec):
    import copy
    import inspect

    from rpylib.model.levymodel.levymodel import ModelType
    from rpylib.model.utils import create_exponential_of_levy_model, create_levy_model

    if spec.get("via") == "reinit":
        direct = {k: v for k, v in spec.items() if k != "via"}
        target = make_model(direct)
        donor = make_model(dict(direct, params=DONOR_PARAMS[spec["family"]]))
        holder_t = target.levy_model if spec.get("exp") else target
        holder_d = donor.levy_model if spec.get("exp") else donor
        params = copy.deepcopy(holder_d.parameters)
        names = [n for n in inspect.signature(type(params).__init__).parameters if n != "self"]
        for n in names:
            setattr(params, n, getattr(holder_t.parameters, n))
        params.initialisation()
        if spec.get("exp"):
            return type(target)(spot=spec.get("spot", 100.0), r=spec["r"], d=spec["d"], parameters=params)
        return type(target)(parameters=params)
    mt = {"hem": ModelType.HEM, "merton": ModelType.MERTON, "vg": ModelType.VG, "cgmy": ModelType.CGMY,
          "bs": ModelType.BLACKSCHOLES}[spec["family"]]
    if spec.get("exp"):
        return create_exponential_of_levy_model(mt)(spot=spec.get("spot", 100.0), r=spec["r"], d=spec["d"], **spec["params"])
    return create_levy_model(mt)(**spec["params"])


def model_label(spec):
    p = ",".join(f"{k}={v}" for k, v in sorted(spec["params"].items())) or "default"
    return f"{'exp-' if spec.get('exp') else ''}{spec['family']}({p}){'[reinit]' if spec.get('via') == 'reinit' else ''}"


# ----------------------------------------------------------------------------------------------------------------------
# grids
# ----------------------------------------------------------------------------------------------------------------------

def grid_specs(tier="quick", dimension=1, with_model_grids=True):
    thorough = tier == "thorough"
    out = []
    if with_model_grids:
        for h in ([0.2, 0.1, 0.05] if thorough else [0.2, 0.1]):
            for p in ([0.9, 0.99999] if thorough else [0.99999]):
                out.append({"kind": "uniform", "h": h, "p": p})
        out.append({"kind": "uniform", "h": 0.2, "p": 0.9})
    for n in ([3, 5, 8] if thorough else [3, 5]):
        out.append({"kind": "fixed", "h": 0.1, "n": n})
    if with_model_grids:
        for n_side in ([2, 4] if thorough else [3]):
            out.append({"kind": "geometric", "h": 0.1, "n_side": n_side, "p": 0.99999})
    for bounds in ([(-0.7, 0.4), (-0.5, 0.5)] if thorough else [(-0.7, 0.4)]):
        out.append({"kind": "geometric-bounds", "h": 0.1, "bounds": list(bounds), "n_side": 3})
    if with_model_grids and dimension == 1:
        for pm in ([0.05, 0.2] if thorough else [0.2]):
            out.append({"kind": "probability", "h": 0.1, "pmin": pm})
        out.append({"kind": "credit", "h": 0.1, "a_frac": 0.5, "symmetric": True})
    if with_model_grids and dimension > 1:
        out.append({"kind": "credit", "h": 0.1, "a_frac": 0.5, "symmetric": True})
        out.append({"kind": "credit", "h": 0.1, "a_frac": 0.5, "symmetric": False})
    # uniquify
    seen, res = set(), []
    for g in out:
        k = repr(sorted(g.items()))
        if k not in seen:
            seen.add(k)
            res.append(g)
    return res


class OutsideAlphabet(Exception):
    """The spec does not describe an object the library promises to build (e.g. a credit threshold that is not strictly
    between the left truncation and -h): the case is outside the alphabet and is counted, never an alarm."""


def make_grid(gspec, model, dimension=1):
    from rpylib.grid import spatial as S

    k = gspec["kind"]
    if k == "uniform":
        g = S.CTMCUniformGrid(h=gspec["h"], model=model, truncation_probability=gspec["p"])
    elif k == "fixed":
        g = S.CTMCUniformGrid.create_from_fixed_nb_of_points(h=gspec["h"], nb_of_points=gspec["n"], dimension=dimension)
    elif k == "geometric":
        g = S.CTMCGridGeometric(h=gspec["h"], model=model, nb_of_points_on_each_side=gspec["n_side"],
                                truncation_probability=gspec["p"])
    elif k == "geometric-bounds":
        g = S.CTMCGridGeometric.create_with_bounds(h=gspec["h"], truncations=tuple(gspec["bounds"]), dimension=dimension,
                                                   nb_of_points_on_each_side=gspec["n_side"])
    elif k == "probability":
        g = S.CTMCGridProbabilityStep(h=gspec["h"], model=model, minimum_probability_step=gspec["pmin"], dimension=dimension)
    elif k == "credit":
        l, r = S.compute_truncation(model=model, h=gspec["h"])
        fr = gspec["a_frac"]
        if dimension == 1:
            a = float(fr * l) if not isinstance(fr, (list, tuple)) else float(fr[0] * l)
        else:
            frs = fr if isinstance(fr, (list, tuple)) else [fr] * dimension
            a = [float(f * l) for f in frs]
        for ai in (a if isinstance(a, list) else [a]):
            if not (l < ai < -gspec["h"] - 1e-12):
                raise OutsideAlphabet(f"credit threshold {ai} not strictly inside ({l}, {-gspec['h']})")
        g = S.CTMCCredit(h=gspec["h"], level_a=a, model=model, symmetric_grid=gspec.get("symmetric", True))
    else:
        raise ValueError(k)
    for _ in range(gspec.get("refine", 0)):
        g.refine()
    return g


# ----------------------------------------------------------------------------------------------------------------------
# copula models
# ----------------------------------------------------------------------------------------------------------------------

MARGINS = {
    "hem": {"family": "hem", "exp": False, "params": {}},
    "hem2": {"family": "hem", "exp": False, "params": {"sigma": 0.0, "p": 0.3, "eta1": 10.0, "eta2": 40.0, "intensity": 5.0}},
    "vg": {"family": "vg", "exp": False, "params": {}},
    "cgmy05": {"family": "cgmy", "exp": False, "params": {"c": 1.0, "g": 15.0, "m": 20.0, "y": 0.5}},
    "cgmy12": {"family": "cgmy", "exp": False, "params": {"c": 1.0, "g": 15.0, "m": 20.0, "y": 1.2}},
    "merton": {"family": "merton", "exp": False, "params": {}},
}


def copula_specs(tier="quick"):
    thorough = tier == "thorough"
    out = []
    thetas = [0.7, 3.0]
    etas = [0.0, 0.3, 1.0]
    for th in thetas:
        for et in etas:
            if not thorough and (th, et) not in ((0.7, 0.3), (3.0, 0.0), (3.0, 1.0)):
                continue
            out.append({"kind": "clayton", "theta": th, "eta": et})
    out.append({"kind": "independent"})
    out.append({"kind": "dependent"})
    return out


def make_copula(cspec):
    from rpylib.model import utils as U

    if cspec["kind"] == "clayton":
        return U.create_clayton_copula(theta=cspec["theta"], eta=cspec["eta"])
    if cspec["kind"] == "independent":
        return U.create_independent_copula()
    if cspec["kind"] == "dependent":
        return U.create_dependent_copula()
    raise ValueError(cspec)


def copula_model_specs(tier="quick", dims=(2, 3)):
    thorough = tier == "thorough"
    pairs = [("hem", "vg"), ("cgmy05", "cgmy12")] + ([("hem", "hem2"), ("vg", "cgmy12"), ("merton", "cgmy05")] if thorough else [])
    triples = [("hem", "vg", "cgmy05")] + ([("cgmy05", "cgmy12", "hem2")] if thorough else [])
    out = []
    for c in copula_specs(tier):
        if 2 in dims:
            for m in pairs:
                out.append({"margins": list(m), "copula": c})
        if 3 in dims:
            for m in triples:
                out.append({"margins": list(m), "copula": c})
    return out


def make_copula_model(spec, exp=False):
    from rpylib.model.utils import create_levy_copula_model

    models = []
    for name in spec["margins"]:
        ms = dict(MARGINS[name])
        if exp or spec.get("exp"):
            ms = dict(ms, exp=True, r=0.02, d=0.0, spot=100.0)
        models.append(make_model(ms))
    return create_levy_copula_model(models=models, copula=make_copula(spec["copula"]))
